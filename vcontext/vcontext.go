// Package vcontext replaces package context in the instrumented build. The standard package cancels
// through runtime timers and internal goroutines that the controlled scheduler cannot see (a Done
// channel closed by the runtime looks permanently empty to the channel model); here cancellation is
// built from the model's own pieces: Done channels are closed through vrt.Close, deadlines are untimed
// vtime timers (they may fire at any later scheduling point), propagation from a foreign parent is a
// daemon thread. Outside a controlled execution everything degrades to real channels and real timers.
package vcontext

import (
	"context"
	"time"

	"verif/vrt"
	"verif/vsync"
	"verif/vtime"
)

type Context = context.Context
type CancelFunc = context.CancelFunc
type CancelCauseFunc = context.CancelCauseFunc

var Canceled = context.Canceled
var DeadlineExceeded = context.DeadlineExceeded

func Background() Context                   { return context.Background() }
func TODO() Context                         { return context.TODO() }
func WithValue(p Context, k, v any) Context { return context.WithValue(p, k, v) }
func WithoutCancel(p Context) Context       { return context.WithoutCancel(p) }

type ckey struct{}

var cctxKey ckey

type cctx struct {
	Context  // the parent: Value and (unless overridden) Deadline
	mu       vsync.Mutex
	done     chan struct{}
	err      error
	cause    error
	children []*cctx
	deadline time.Time
	hasDL    bool
	timer    *vtime.Timer
}

func (c *cctx) Done() <-chan struct{} { return c.done }

func (c *cctx) Err() error {
	c.mu.Lock()
	defer c.mu.Unlock()
	return c.err
}

func (c *cctx) Deadline() (time.Time, bool) {
	if c.hasDL {
		return c.deadline, true
	}
	return c.Context.Deadline()
}

func (c *cctx) Value(k any) any {
	if k == any(&cctxKey) {
		return c
	}
	return c.Context.Value(k)
}

func (c *cctx) cancel(err, cause error) {
	c.mu.Lock()
	if c.err != nil {
		c.mu.Unlock()
		return
	}
	c.err = err
	if cause == nil {
		cause = err
	}
	c.cause = cause
	kids := c.children
	c.children = nil
	timer := c.timer
	c.mu.Unlock()
	vrt.Close(c.done)
	for _, k := range kids {
		k.cancel(err, cause)
	}
	if timer != nil {
		timer.Stop()
	}
}

func newChild(parent Context) *cctx {
	if parent == nil {
		panic("cannot create context from nil parent")
	}
	c := &cctx{Context: parent, done: make(chan struct{})}
	pd := parent.Done()
	if pd == nil {
		return c // never cancelled from above
	}
	if err := parent.Err(); err != nil {
		c.cancel(err, context.Cause(parent))
		return c
	}
	if pc, ok := parent.Value(&cctxKey).(*cctx); ok && pc.done == pd {
		pc.mu.Lock()
		if pc.err != nil {
			pc.mu.Unlock()
			c.cancel(pc.err, pc.cause)
			return c
		}
		pc.children = append(pc.children, c)
		pc.mu.Unlock()
		return c
	}
	// a foreign parent: a daemon thread carries its cancellation down
	vrt.GoDaemon("context-propagation", func() {
		a, b := vrt.RecvCase(pd), vrt.RecvCase((<-chan struct{})(c.done))
		if vrt.Select(false, a, b) == 0 {
			c.cancel(parent.Err(), context.Cause(parent))
		}
	})
	return c
}

func WithCancel(parent Context) (Context, CancelFunc) {
	c := newChild(parent)
	return c, func() { c.cancel(Canceled, nil) }
}

func WithCancelCause(parent Context) (Context, CancelCauseFunc) {
	c := newChild(parent)
	return c, func(cause error) { c.cancel(Canceled, cause) }
}

func WithDeadline(parent Context, d time.Time) (Context, CancelFunc) {
	return WithDeadlineCause(parent, d, nil)
}

func WithDeadlineCause(parent Context, d time.Time, cause error) (Context, CancelFunc) {
	c := newChild(parent)
	c.deadline, c.hasDL = d, true
	c.mu.Lock()
	if c.err == nil {
		c.timer = vtime.AfterFunc(time.Until(d), func() { c.cancel(DeadlineExceeded, cause) })
	}
	c.mu.Unlock()
	return c, func() { c.cancel(Canceled, nil) }
}

func WithTimeout(parent Context, timeout time.Duration) (Context, CancelFunc) {
	return WithDeadline(parent, time.Now().Add(timeout))
}

func WithTimeoutCause(parent Context, timeout time.Duration, cause error) (Context, CancelFunc) {
	return WithDeadlineCause(parent, time.Now().Add(timeout), cause)
}

func Cause(c Context) error {
	if cc, ok := c.Value(&cctxKey).(*cctx); ok {
		cc.mu.Lock()
		defer cc.mu.Unlock()
		return cc.cause
	}
	return context.Cause(c)
}

// AfterFunc runs f in its own goroutine after ctx is done; stop reports whether it prevented that.
func AfterFunc(ctx Context, f func()) (stop func() bool) {
	stopped := make(chan struct{})
	var mu vsync.Mutex
	state := 0 // 0 waiting, 1 running/ran, 2 stopped
	vrt.GoDaemon("context-afterfunc", func() {
		d := ctx.Done()
		if d == nil {
			return
		}
		a, b := vrt.RecvCase(d), vrt.RecvCase((<-chan struct{})(stopped))
		if vrt.Select(false, a, b) == 0 {
			mu.Lock()
			run := state == 0
			if run {
				state = 1
			}
			mu.Unlock()
			if run {
				f()
			}
		}
	})
	return func() bool {
		mu.Lock()
		defer mu.Unlock()
		if state != 0 {
			return false
		}
		state = 2
		vrt.Close(stopped)
		return true
	}
}
