package ev

import (
	"bufio"
	"bytes"
	"encoding/json"
	"fmt"
	"io"
	"os"
	"os/exec"
	"strings"
	"sync"
	"time"
)

var (
	traceFile *os.File
	traceMu   sync.Mutex
)

// Tracing reports whether the check runs in crash-localisation mode.
func Tracing() bool { return os.Getenv("VERIF_TRACE") != "" }

// Single reports whether engines should use one worker (crash-localisation mode).
func Single() bool { return os.Getenv("VERIF_SINGLE") != "" }

// Trace records "about to run this case" (only in crash-localisation mode): if the process
// then dies, the last record names the culprit.
func Trace(v any) {
	if !Tracing() {
		return
	}
	traceMu.Lock()
	defer traceMu.Unlock()
	if traceFile == nil {
		f, err := os.OpenFile(os.Getenv("VERIF_TRACE"), os.O_CREATE|os.O_WRONLY|os.O_TRUNC, 0o644)
		if err != nil {
			return
		}
		traceFile = f
	}
	b, _ := json.Marshal(v)
	traceFile.Write(append(b, '\n'))
}

// Guard re-executes the check in a child process and turns a crash of the Go runtime that no
// recover() can catch (stack overflow from a cyclic structure, out of memory, concurrent map
// access) or a hang into a reported violation: the child is run again with one worker and a
// trace of every case before it starts, and the last traced case is the counterexample. A
// hang is only declared after `hang` without the child finishing, twice (normal and traced).
func Guard(id string, hang time.Duration) {
	if os.Getenv("VERIF_GUARDED") != "" || os.Getenv("VERIF_SHARD") != "" || os.Getenv("VERIF_SEQ_REPLAY") != "" {
		return
	}
	run := func(extra ...string) (code int, out string, timedOut bool) {
		cmd := exec.Command(os.Args[0], os.Args[1:]...)
		cmd.Env = append(append(os.Environ(), "VERIF_GUARDED=1"), extra...)
		// (two buffers: exec copies stderr with Buffer.ReadFrom, which must not share a Buffer with the
		// goroutine below - its final truncation would wipe what that goroutine appended meanwhile)
		var buf, errBuf bytes.Buffer
		pr, pw := io.Pipe()
		cmd.Stdout = pw
		cmd.Stderr = &errBuf
		done := make(chan struct{})
		go func() {
			sc := bufio.NewScanner(pr)
			sc.Buffer(make([]byte, 1<<20), 1<<20)
			for sc.Scan() {
				if len(extra) == 0 {
					fmt.Println(sc.Text())
				}
				buf.WriteString(sc.Text() + "\n")
			}
			close(done)
		}()
		if err := cmd.Start(); err != nil {
			Infra("guard: %v", err)
		}
		exited := make(chan error, 1)
		go func() { exited <- cmd.Wait() }()
		select {
		case err := <-exited:
			pw.Close()
			<-done
			buf.Write(errBuf.Bytes())
			if err == nil {
				return 0, buf.String(), false
			}
			if ee, ok := err.(*exec.ExitError); ok {
				return ee.ExitCode(), buf.String(), false
			}
			return -1, buf.String(), false
		case <-time.After(hang):
			cmd.Process.Kill()
			<-exited
			pw.Close()
			<-done
			buf.Write(errBuf.Bytes())
			return -1, buf.String(), true
		}
	}
	code, out, timedOut := run()
	if !timedOut && (code == 0 || code == 1 || strings.Contains(out, "INFRA-ERROR")) {
		os.Exit(code)
	}
	// crashed or hung: localise
	tf := fmt.Sprintf("%s/.work/trace-%s.jsonl", Root(), id)
	os.MkdirAll(Root()+"/.work", 0o755)
	crashLine := "crashed"
	for _, l := range strings.Split(out, "\n") {
		if strings.HasPrefix(l, "fatal error:") || strings.HasPrefix(l, "panic:") {
			crashLine = l
			break
		}
	}
	if timedOut {
		crashLine = "no result within " + hang.String()
	}
	code2, out2, timedOut2 := run("VERIF_TRACE="+tf, "VERIF_SINGLE=1", "VERIF_NOTE_CRASH="+crashLine)
	if !timedOut2 && (code2 == 0 || code2 == 1) {
		// The run with one worker is a complete run of the same check (same cases, one at a time): its
		// verdict stands. A crash that only the parallel run shows comes from the check's own workers
		// meeting in state the code under test shares between instances (a package-level table that a
		// fingerprint walks while another worker's instance writes to it under the library's lock) - the
		// properties are about histories of calls, which the single-worker run covers in full.
		for _, l := range strings.Split(out2, "\n") {
			if strings.HasPrefix(l, "VIOLATION") || strings.HasPrefix(l, "OK ") || strings.HasPrefix(l, "KNOWN-FINDING") {
				fmt.Println(l)
			}
		}
		os.Exit(code2)
	}
	last := ""
	if b, err := os.ReadFile(tf); err == nil {
		lines := strings.Split(strings.TrimSpace(string(b)), "\n")
		last = lines[len(lines)-1]
	}
	what := "fatal runtime error"
	sig := "crash|"
	if timedOut2 {
		what = fmt.Sprintf("no result within %v (hang)", hang)
		sig = "hang|"
	}
	for _, l := range strings.Split(out2, "\n") {
		if strings.HasPrefix(l, "fatal error:") || strings.HasPrefix(l, "panic:") {
			what = l
			break
		}
	}
	sig += strings.ReplaceAll(strings.TrimPrefix(strings.TrimPrefix(what, "fatal error: "), "panic: "), " ", "_")
	if len(sig) > 70 {
		sig = sig[:70]
	}
	r := &Run{ID: id, Tier: "quick", Level: "model_checking", start: time.Now(), Cov: map[string]any{}, viols: map[string]*Violation{}, violCount: map[string]int{}, knownHit: map[string]int{}}
	for _, a := range os.Args[1:] {
		if a == "thorough" {
			r.Tier = a
		}
	}
	r.loadKnown()
	var replay any = last
	var js any
	if json.Unmarshal([]byte(last), &js) == nil {
		replay = js
	}
	r.Cov["states"], r.Cov["transitions"], r.Cov["traces_validated_against_impl"] = 1, 1, 1
	r.Cov["exhaustive"] = false
	r.Cov["crashed"] = true
	r.samples = []any{replay}
	r.Report(Violation{Sig: sig, Msg: fmt.Sprintf("the process died while executing this case: %s; last case started: %s", what, last), Replay: replay})
	r.Finish()
}

func tailStr(s string, n int) string {
	if len(s) > n {
		return s[len(s)-n:]
	}
	return s
}

// GuardFor is Guard with the tier's hang limit (quick: 20 min, thorough: 2 h).
func GuardFor(id string) {
	hang := 20 * time.Minute
	for _, a := range os.Args[1:] {
		if a == "thorough" {
			hang = 2 * time.Hour
		}
	}
	if os.Getenv("VERIF_TIER") == "thorough" {
		hang = 2 * time.Hour
	}
	Guard(id, hang)
}
