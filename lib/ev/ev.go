// Package ev is the common reporting layer of every check: tiers, evidence
// files, VIOLATION / KNOWN-FINDING lines, replay artefacts and exit codes.
//
// Exit codes: 0 = property held on everything explored (known findings are
// printed, not failed); 1 = at least one violation that known_findings.txt
// does not list; 2 = infrastructure error (never a verdict).
package ev

import (
	"bufio"
	"crypto/sha1"
	"encoding/hex"
	"encoding/json"
	"fmt"
	"os"
	"path/filepath"
	"runtime"
	"sort"
	"strconv"
	"strings"
	"sync"
	"time"
)

// Root is the /verif directory (overridable for tests of the machinery).
func Root() string {
	if r := os.Getenv("VERIF_ROOT"); r != "" {
		return r
	}
	return "/verif"
}

// Violation is one counterexample.
type Violation struct {
	Sig    string `json:"signature"` // classifier signature: (operation class | discrepancy class), no spaces
	Msg    string `json:"message"`
	Replay any    `json:"replay"` // operation list / schedule / input, enough to reproduce
	GoTest string `json:"go_test,omitempty"`
}

type known struct {
	prop, sig, what string
}

// Run is one execution of one check.
type Run struct {
	ID    string
	Tier  string
	Seed  int
	Level string
	start time.Time

	mu          sync.Mutex
	Cov         map[string]any
	Assumptions []string
	samples     []any
	viols       map[string]*Violation // by signature, first (smallest) kept
	violCount   map[string]int
	order       []string
	knownList   []known
	knownHit    map[string]int
	Deadline    time.Time // tier deadline; zero = none
	capped      bool
}

// Start parses `<tier>` from os.Args[1] (or VERIF_TIER) and loads the known findings.
func Start(id string) *Run {
	r := &Run{ID: id, Tier: "quick", Level: "model_checking", start: time.Now(),
		Cov: map[string]any{}, viols: map[string]*Violation{}, violCount: map[string]int{}, knownHit: map[string]int{}}
	if t := os.Getenv("VERIF_TIER"); t == "quick" || t == "thorough" {
		r.Tier = t
	}
	for _, a := range os.Args[1:] {
		if a == "quick" || a == "thorough" {
			r.Tier = a
		}
	}
	if s := os.Getenv("VERIF_SEED"); s != "" {
		if n, err := strconv.Atoi(s); err == nil {
			r.Seed = n
		}
	}
	r.loadKnown()
	if c := os.Getenv("VERIF_NOTE_CRASH"); c != "" {
		r.Cov["parallel_run_crashed"] = c + " - this result is from the complete re-run with one worker"
	}
	return r
}

func (r *Run) Thorough() bool { return r.Tier == "thorough" }

// Pick returns q in the quick tier and t in the thorough tier.
func Pick[T any](r *Run, q, t T) T {
	if r.Thorough() {
		return t
	}
	return q
}

func (r *Run) loadKnown() {
	f, err := os.Open(filepath.Join(Root(), "known_findings.txt"))
	if err != nil {
		return
	}
	defer f.Close()
	sc := bufio.NewScanner(f)
	for sc.Scan() {
		line := strings.TrimSpace(sc.Text())
		if !strings.HasPrefix(line, "finding:") {
			continue // "fixed:" lines and comments suppress nothing
		}
		var k known
		rest := strings.Fields(strings.TrimPrefix(line, "finding:"))
		var what []string
		for _, w := range rest {
			switch {
			case strings.HasPrefix(w, "property=") && k.prop == "":
				k.prop = strings.TrimPrefix(w, "property=")
			case strings.HasPrefix(w, "sig=") && k.sig == "":
				k.sig = strings.TrimPrefix(w, "sig=")
			default:
				what = append(what, w)
			}
		}
		k.what = strings.Join(what, " ")
		if k.prop == r.ID && k.sig != "" {
			r.knownList = append(r.knownList, k)
		}
	}
}

// KnownSigs lists the signatures of this property's listed known findings.
func (r *Run) KnownSigs() []string {
	var l []string
	for _, k := range r.knownList {
		l = append(l, k.sig)
	}
	return l
}

// KnownHit counts n hits of a listed known finding (found by a worker process).
func (r *Run) KnownHit(sig string, n int) {
	r.mu.Lock()
	r.knownHit[sig] += n
	r.mu.Unlock()
}

// IsKnown reports whether a signature is listed as a known finding of this property.
func (r *Run) IsKnown(sig string) bool {
	for _, k := range r.knownList {
		if k.sig == sig {
			return true
		}
	}
	return false
}

// Report records a violation (or a hit of a known finding). It returns true
// when the signature is a listed known finding.
func (r *Run) Report(v Violation) bool {
	v.Sig = strings.ReplaceAll(v.Sig, " ", "_")
	r.mu.Lock()
	defer r.mu.Unlock()
	if r.IsKnown(v.Sig) {
		r.knownHit[v.Sig]++
		return true
	}
	r.violCount[v.Sig]++
	if _, ok := r.viols[v.Sig]; !ok {
		vv := v
		r.viols[v.Sig] = &vv
		r.order = append(r.order, v.Sig)
	}
	return false
}

// Violations returns the number of distinct unlisted violation signatures so far.
func (r *Run) Violations() int {
	r.mu.Lock()
	defer r.mu.Unlock()
	return len(r.viols)
}

// Sample keeps up to 8 example cases for the evidence file.
func (r *Run) Sample(s any) {
	r.mu.Lock()
	if len(r.samples) < 8 {
		r.samples = append(r.samples, s)
	}
	r.mu.Unlock()
}

func (r *Run) Set(k string, v any) {
	r.mu.Lock()
	r.Cov[k] = v
	r.mu.Unlock()
}

// Add adds n to an integer coverage counter.
func (r *Run) Add(k string, n int64) {
	r.mu.Lock()
	cur, _ := r.Cov[k].(int64)
	r.Cov[k] = cur + n
	r.mu.Unlock()
}

func (r *Run) Assume(s string) { r.Assumptions = append(r.Assumptions, s) }

// SetDeadline gives the tier an internal deadline; Expired() turns true after it.
// A run that stops on its deadline exits 0 with exhaustive:false.
func (r *Run) SetDeadline(d time.Duration) { r.Deadline = r.start.Add(d) }
func (r *Run) Expired() bool {
	if r.Deadline.IsZero() {
		return false
	}
	if time.Now().After(r.Deadline) {
		r.mu.Lock()
		r.capped = true
		r.mu.Unlock()
		return true
	}
	return false
}
func (r *Run) MarkCapped() { r.mu.Lock(); r.capped = true; r.mu.Unlock() }

// Infra aborts with exit code 2: the machinery failed, nothing is decided.
func Infra(format string, a ...any) {
	fmt.Printf("INFRA-ERROR: "+format+"\n", a...)
	os.Exit(2)
}

type partial struct {
	Cov        map[string]any `json:"cov"`
	Violations []Violation    `json:"violations"`
	Counts     map[string]int `json:"counts"`
	Known      map[string]int `json:"known"`
	Capped     bool           `json:"capped"`
	Samples    []any          `json:"samples"`
}

// Absorb merges the partial result written by a sibling binary of the same check
// (VERIF_PARTIAL): counters are added under the given prefix, violations and known-finding
// hits are merged.
func (r *Run) Absorb(file, prefix string) {
	b, err := os.ReadFile(file)
	if err != nil {
		Infra("partial result %s missing: %v", file, err)
	}
	var p partial
	if err := json.Unmarshal(b, &p); err != nil {
		Infra("partial result %s: %v", file, err)
	}
	for _, v := range p.Violations {
		n := p.Counts[v.Sig]
		if r.Report(v) {
			continue
		}
		r.mu.Lock()
		r.violCount[v.Sig] += n - 1
		r.mu.Unlock()
	}
	r.mu.Lock()
	for s, n := range p.Known {
		r.knownHit[s] += n
	}
	for k, v := range p.Cov {
		r.Cov[prefix+k] = v
	}
	if p.Capped {
		r.capped = true
	}
	for _, s := range p.Samples {
		if len(r.samples) < 8 {
			r.samples = append(r.samples, s)
		}
	}
	r.mu.Unlock()
}

// Finish writes the evidence file, prints the verdict lines and exits.
func (r *Run) Finish() {
	r.mu.Lock()
	defer r.mu.Unlock()
	if pf := os.Getenv("VERIF_PARTIAL"); pf != "" {
		p := partial{Cov: r.Cov, Counts: r.violCount, Known: r.knownHit, Capped: r.capped, Samples: r.samples}
		for _, s := range r.order {
			p.Violations = append(p.Violations, *r.viols[s])
		}
		b, _ := json.Marshal(p)
		if err := os.WriteFile(pf, b, 0o644); err != nil {
			Infra("partial write: %v", err)
		}
		os.Exit(0)
	}
	if _, ok := r.Cov["exhaustive"]; !ok {
		r.Cov["exhaustive"] = !r.capped
	} else if r.capped {
		r.Cov["exhaustive"] = false
	}
	if r.capped {
		r.Cov["capped"] = true
	}
	if len(r.samples) > 0 {
		r.Cov["samples"] = r.samples
	}
	kf := map[string]int{}
	for s, n := range r.knownHit {
		kf[s] = n
	}
	r.Cov["known_findings_hit"] = kf
	vs := map[string]int{}
	for s, n := range r.violCount {
		vs[s] = n
	}
	r.Cov["violation_signatures"] = vs
	evd := map[string]any{
		"property_id": r.ID, "tier": r.Tier, "seed": r.Seed, "level": r.Level,
		"coverage": r.Cov, "assumptions": r.Assumptions,
		"wall_s":     float64(int(time.Since(r.start).Seconds()*1000)) / 1000,
		"violations": len(r.viols),
	}
	if r.Assumptions == nil {
		evd["assumptions"] = []string{}
	}
	dir := filepath.Join(Root(), "evidence")
	os.MkdirAll(dir, 0o755)
	b, err := json.MarshalIndent(evd, "", " ")
	if err != nil {
		Infra("evidence marshal: %v", err)
	}
	if err := os.WriteFile(filepath.Join(dir, r.ID+".json"), append(b, '\n'), 0o644); err != nil {
		Infra("evidence write: %v", err)
	}
	var sigs []string
	for s := range r.knownHit {
		sigs = append(sigs, s)
	}
	sort.Strings(sigs)
	for _, s := range sigs {
		what := ""
		for _, k := range r.knownList {
			if k.sig == s {
				what = k.what
			}
		}
		fmt.Printf("KNOWN-FINDING: property=%s sig=%s hits=%d %s\n", r.ID, s, r.knownHit[s], what)
	}
	if len(r.viols) == 0 {
		fmt.Printf("OK property=%s tier=%s wall=%.1fs %s\n", r.ID, r.Tier, time.Since(r.start).Seconds(), r.summary())
		os.Exit(0)
	}
	rdir := filepath.Join(Root(), ".work", "replays")
	os.MkdirAll(rdir, 0o755)
	for i, s := range r.order {
		if i >= 10 {
			break
		}
		v := r.viols[s]
		h := sha1.Sum([]byte(s))
		p := filepath.Join(rdir, fmt.Sprintf("%s-%s-%s.json", r.ID, r.Tier, hex.EncodeToString(h[:4])))
		doc := map[string]any{"property_id": r.ID, "signature": v.Sig, "message": v.Msg, "replay": v.Replay, "count": r.violCount[s]}
		if v.GoTest != "" {
			doc["go_test"] = v.GoTest
		}
		b, _ := json.MarshalIndent(doc, "", " ")
		os.WriteFile(p, append(b, '\n'), 0o644)
		fmt.Printf("VIOLATION property=%s replay=%s sig=%s :: %s\n", r.ID, p, v.Sig, oneLine(v.Msg))
	}
	os.Exit(1)
}

func (r *Run) summary() string {
	var parts []string
	for _, k := range []string{"states", "transitions", "executions", "evaluations", "scenarios", "exhaustive"} {
		if v, ok := r.Cov[k]; ok {
			parts = append(parts, fmt.Sprintf("%s=%v", k, v))
		}
	}
	return strings.Join(parts, " ")
}

func oneLine(s string) string {
	s = strings.ReplaceAll(s, "\n", " | ")
	if len(s) > 300 {
		s = s[:300] + "..."
	}
	return s
}

// Protect runs f and turns an ordinary panic inside it into a violation (families and other
// straight-line harness code call the library outside any recover; without this an ordinary
// panic would kill the check before it can report what it already found).
func (r *Run) Protect(sig string, replay any, f func()) {
	defer func() {
		if p := recover(); p != nil {
			buf := make([]byte, 3000)
			buf = buf[:runtime.Stack(buf, false)]
			r.Report(Violation{Sig: sig, Msg: fmt.Sprintf("panic: %v\n%s", p, buf), Replay: replay})
		}
	}()
	f()
}

// FinishOnPanic is deferred by a check's main right after Start: an ordinary panic in harness or
// library code that runs outside any recover (a family, a constructor) becomes a violation and
// the run still finishes properly with everything it had found before.
func (r *Run) FinishOnPanic() {
	if p := recover(); p != nil {
		buf := make([]byte, 3000)
		buf = buf[:runtime.Stack(buf, false)]
		msg := fmt.Sprint(p)
		sig := "panic-outside-oracle|" + strings.ReplaceAll(msg, " ", "_")
		if len(sig) > 80 {
			sig = sig[:80]
		}
		r.Report(Violation{Sig: sig, Msg: fmt.Sprintf("panic: %v\n%s", p, buf), Replay: map[string]any{"panic": msg}})
		r.mu.Lock()
		if _, ok := r.Cov["states"]; !ok {
			r.Cov["states"], r.Cov["transitions"], r.Cov["traces_validated_against_impl"] = 1, 1, 1
			r.samples = append(r.samples, msg)
		}
		r.Cov["exhaustive"] = false
		r.mu.Unlock()
		r.Finish()
	}
}
