// Package seqmc is the SEQ engine: explicit-state breadth-first search whose
// transitions call the real public API of the code under test.
//
// Real objects cannot be copied, so a successor is produced by replaying the
// shortest known operation path on a fresh instance and applying one more
// operation. States are de-duplicated by a canonical fingerprint of the
// complete concrete object graph (package fp) chosen by the harness; the search
// runs to a fixpoint under the harness's size bounds, so it covers operation
// histories of every length over the bounded universe.
package seqmc

import (
	"crypto/md5"
	"encoding/json"
	"fmt"
	"os"
	"os/exec"
	"runtime"
	"strings"
	"sync"
	"sync/atomic"
	"time"

	"verif/lib/ev"
)

// Op is one operation of a harness alphabet.
type Op struct {
	Name string `json:"op"`
	A    int    `json:"a,omitempty"`
	B    int    `json:"b,omitempty"`
	C    int    `json:"c,omitempty"`
	D    int    `json:"d,omitempty"`
}

func (o Op) String() string {
	return fmt.Sprintf("%s(%d,%d,%d,%d)", o.Name, o.A, o.B, o.C, o.D)
}

// Fail is an oracle failure: a classifier signature plus a human message.
type Fail struct{ Sig, Msg string }

func Failf(sig, format string, a ...any) *Fail { return &Fail{sig, fmt.Sprintf(format, a...)} }

// Prune is returned by Apply for a transition that is outside the property's
// preconditions (e.g. the reference implementation itself panics): the successor is
// silently dropped, it is neither a violation nor a state.
var Prune = &Fail{Sig: "__prune__"}

// Sys is one fresh harness instance: the real object(s) and the reference model.
type Sys interface {
	// Ops lists the operations offered in the current state (the bounded alphabet).
	Ops() []Op
	// Apply runs op on the real object and on the model and compares what the
	// call returned. It must not call mutating observers.
	Apply(op Op) *Fail
	// Key is the canonical fingerprint of the concrete state; it must not mutate.
	Key() string
	// Observe compares every observer of the public API with the model. It runs
	// last on an instance (which is then discarded), so it may mutate.
	Observe() *Fail
}

type Config struct {
	Name      string
	New       func() Sys
	MaxStates int // cap; 0 = none
	MaxDepth  int // states at this depth are not expanded (0 = search to fixpoint); Result.DepthBounded is set when it cut anything
	Workers   int // goroutines (0 = all CPUs; 1 = deterministic order of states and representatives)
	// OnState, if set, is called once per distinct state with the shortest path reaching it
	// (not concurrently).
	OnState func(path []Op)
	// GoTest renders a failing path as a plain Go test (optional).
	GoTest func(path []Op) string
	// NoTwin switches the instance-isolation step off (see Explore).
	NoTwin bool

	modelKeys bool // set by Explore after a replay divergence (see ModelKeyer)
}

type Result struct {
	Twins                         int // states in which a second instance was driven next to the first
	States, Transitions, MaxDepth int
	Exhaustive                    bool
	Fails, Pruned                 int
	DepthBounded                  bool // the search stopped at Config.MaxDepth with states left to expand (everything below that depth was covered)
}

type node struct {
	parent *node
	op     Op
	depth  int
	key    [16]byte
}

func (n *node) path() []Op {
	p := make([]Op, n.depth)
	for x := n; x != nil && x.depth > 0; x = x.parent {
		p[x.depth-1] = x.op
	}
	return p
}

// ModelKeyer is optionally implemented by a Sys: a state key computed from the reference model alone.
// The search normally identifies states by the fingerprint of the implementation's complete concrete
// layout (Key). When replaying one path twice gives two different layouts - an implementation whose
// layout depends on something besides the operation history, e.g. a cache filled in Go map iteration
// order - that fingerprint cannot identify states; instead of giving up, the search is then restarted
// with states identified by ModelKey plus the last operation (every model state x every last
// operation is expanded with every operation), and the evidence records layout_fallback.
type ModelKeyer interface{ ModelKey() string }

func keyOf(cfg *Config, s Sys, last Op) [16]byte {
	if cfg.modelKeys {
		return md5.Sum([]byte("M|" + s.(ModelKeyer).ModelKey() + "|" + fmt.Sprint(last)))
	}
	return md5.Sum([]byte(s.Key()))
}

type replayDoc struct {
	Config string `json:"config"`
	Ops    []Op   `json:"ops"`
}

func safe(f func() *Fail) (fl *Fail) {
	defer func() {
		if r := recover(); r != nil {
			msg := fmt.Sprint(r)
			buf := make([]byte, 2048)
			buf = buf[:runtime.Stack(buf, false)]
			fl = &Fail{"panic:" + panicClass(msg), "panic: " + msg + "\n" + string(buf)}
		}
	}()
	return f()
}

func panicClass(msg string) string {
	// strip numbers so that one defect has one signature
	var sb strings.Builder
	for _, c := range msg {
		if c >= '0' && c <= '9' {
			if sb.Len() > 0 && strings.HasSuffix(sb.String(), "N") {
				continue
			}
			sb.WriteByte('N')
			continue
		}
		if c == ' ' {
			c = '_'
		}
		sb.WriteRune(c)
	}
	s := sb.String()
	if len(s) > 60 {
		s = s[:60]
	}
	return s
}

type slot struct {
	mu    sync.Mutex
	since time.Time
	path  []Op
	busy  bool
}

// Explore runs the search and reports violations into r.
func Explore(r *ev.Run, cfg Config) Result {
	if f := os.Getenv("VERIF_SEQ_REPLAY"); f != "" {
		replayMode(cfg, f)
		return Result{}
	}
	res, diverged := explore(r, cfg)
	if atomic.LoadInt32(&keyTrouble) != 0 && cfg.Workers != 1 && !ev.Single() {
		// a fingerprint (reflection over the object graph) panicked: state that the code under test shares
		// between instances (a package-level arena reachable from every instance) was being changed by
		// another worker's instance while it was read. The search is repeated with ONE worker.
		r.Set("single_worker_fallback", "a fingerprint was disturbed by another worker's instance writing to state shared between instances; "+cfg.Name+" was searched again with one worker")
		cfg.Workers = 1
		atomic.StoreInt32(&keyTrouble, 0)
				res, diverged = explore(r, cfg)
	}
	if diverged {
		r.Add("layout_fallback_configs", 1)
		r.Set("layout_fallback", "the concrete layout of "+cfg.Name+" is not a function of the operation history (replaying one path gave two fingerprints); states identified by reference-model state x last operation instead")
		cfg.modelKeys = true
		res, _ = explore(r, cfg)
		res.Exhaustive = false
		r.MarkCapped()
	}
	return res
}

// keyTrouble: a fingerprint computation panicked in a run with several workers (see Explore).
var keyTrouble int32

func explore(r *ev.Run, cfg Config) (Result, bool) {
	if cfg.MaxStates == 0 {
		// default cap: a change that adds a hidden counter to the structure makes the concrete state
		// space unbounded; the search then stops here with exhaustive:false instead of running away
		cfg.MaxStates = 400000
		if r.Thorough() {
			cfg.MaxStates = 6000000
		}
	}
	workers := runtime.NumCPU()
	if cfg.Workers > 0 {
		workers = cfg.Workers
	}
	if ev.Single() {
		workers = 1
	}
	var res Result
	res.Exhaustive = true
	seen := map[[16]byte]struct{}{}
	var seenMu sync.Mutex

	root := &node{}
	{
		s := cfg.New()
		root.key = keyOf(&cfg, s, Op{})
		seen[root.key] = struct{}{}
		if fl := safe(s.Observe); fl != nil {
			r.Report(ev.Violation{Sig: cfg.Name + "|" + fl.Sig, Msg: "initial state: " + fl.Msg, Replay: replayDoc{cfg.Name, nil}})
			res.Fails++
		}
	}
	frontier := []*node{root}
	if cfg.OnState != nil {
		cfg.OnState(nil)
	}
	res.States = 1
	var transitions, pruned, twins, sharedMoved int64
	var diverged int32

	slots := make([]*slot, workers)
	for i := range slots {
		slots[i] = &slot{}
	}
	stopWatch := make(chan struct{})
	go watchdog(r, cfg, slots, stopWatch)
	defer close(stopWatch)

	sampled := 0
	for len(frontier) > 0 {
		if r.Expired() || (cfg.MaxStates > 0 && res.States >= cfg.MaxStates) {
			res.Exhaustive = false
			r.MarkCapped()
			break
		}
		if r.Violations() >= 8 {
			res.Exhaustive = false
			break
		}
		if cfg.MaxDepth > 0 && frontier[0].depth >= cfg.MaxDepth {
			res.DepthBounded = true
			break
		}
		var next []*node
		var nextMu sync.Mutex
		overCap := false
		var idx int64 = -1
		var wg sync.WaitGroup
		for w := 0; w < workers; w++ {
			wg.Add(1)
			go func(sl *slot) {
				defer wg.Done()
				for {
					i := int(atomic.AddInt64(&idx, 1))
					if i >= len(frontier) {
						return
					}
					if i%64 == 0 && r.Expired() {
						return
					}
					nextMu.Lock()
					stop := overCap
					nextMu.Unlock()
					if stop {
						return
					}
					n := frontier[i]
					path := n.path()
					// enumerate the ops of this state
					s := cfg.New()
					for _, op := range path {
						s.Apply(op)
					}
					if k := keyOf(&cfg, s, n.op); k != n.key {
						if _, ok := s.(ModelKeyer); ok && !cfg.modelKeys {
							atomic.StoreInt32(&diverged, 1)
							return
						}
						ev.Infra("%s: replay divergence (uncontrolled nondeterminism) at %v", cfg.Name, path)
					}
					ops := s.Ops()
					for _, op := range ops {
						full := append(append([]Op{}, path...), op)
						sl.mu.Lock()
						sl.since, sl.path, sl.busy = time.Now(), full, true
						sl.mu.Unlock()
						if ev.Tracing() {
							ev.Trace(map[string]any{"config": cfg.Name, "ops": full})
						}
						s := cfg.New()
						for _, p := range path {
							s.Apply(p)
						}
						fl := safe(func() *Fail { return s.Apply(op) })
						var key [16]byte
						if fl == nil {
							fl = safe(func() *Fail { key = keyOf(&cfg, s, op); return nil })
							if fl != nil {
								// not a verdict about the code: see keyTrouble
								if cfg.Workers == 1 || ev.Single() {
									ev.Infra("%s: the fingerprint of the object graph panicked although no other worker was running: %s", cfg.Name, fl.Msg)
								}
								atomic.StoreInt32(&keyTrouble, 1)
								atomic.StoreInt32(&diverged, 2)
								return
							}
						}
						if fl == nil && !cfg.NoTwin {
							// instance isolation: for a state not seen before, a second, unrelated instance is
							// brought into the same state and then driven through every operation it offers; the
							// first instance's fingerprint must not move (state shared between instances - a
							// package-level buffer, cache or table - shows here)
							seenMu.Lock()
							_, old := seen[key]
							seenMu.Unlock()
							if !old {
								fl = safe(func() *Fail {
									tryKey := func() (k [16]byte, ok bool) {
										defer func() {
											if recover() != nil {
												ok = false
											}
										}()
										return md5.Sum([]byte(s.Key())), true
									}
									before, ok := tryKey()
									if !ok {
										atomic.StoreInt32(&keyTrouble, 1)
										return nil
									}
									t := cfg.New()
									for _, p := range full {
										if f := t.Apply(p); f != nil {
											return nil
										}
									}
									for _, o := range t.Ops() {
										if f := safe(func() *Fail { return t.Apply(o) }); f != nil {
											break
										}
									}
									after, ok := tryKey()
									if !ok {
										atomic.StoreInt32(&keyTrouble, 1)
										return nil
									}
									if after != before {
										// memory reachable from this instance changed. That alone is not a defect (a
										// common allocator or cache no call sequence can observe is allowed): it is one
										// only if it can be OBSERVED, now or after one further operation on this instance
										atomic.AddInt64(&sharedMoved, 1)
										if f := s.Observe(); f != nil {
											return Failf("instance-isolation", "operations on a second, unrelated instance changed what this one answers: %s", f.Msg)
										}
										for _, o := range s.Ops() {
											s2, t2 := cfg.New(), cfg.New()
											for _, p := range full {
												s2.Apply(p)
												t2.Apply(p)
											}
											for _, q := range t2.Ops() {
												if f := safe(func() *Fail { return t2.Apply(q) }); f != nil {
													break
												}
											}
											f := safe(func() *Fail { return s2.Apply(o) })
											if f == nil {
												f = safe(s2.Observe)
											}
											if f != nil && f != Prune {
												return Failf("instance-isolation", "after operations on a second, unrelated instance, %v on this one: %s", o, f.Msg)
											}
										}
									}
									return nil
								})
								atomic.AddInt64(&twins, 1)
							}
						}
						if fl == nil {
							fl = safe(s.Observe)
						}
						sl.mu.Lock()
						sl.busy = false
						sl.mu.Unlock()
						atomic.AddInt64(&transitions, 1)
						if fl == Prune {
							atomic.AddInt64(&pruned, 1)
							continue
						}
						if fl != nil {
							v := ev.Violation{Sig: cfg.Name + "|" + fl.Sig, Msg: fmt.Sprintf("after %v: %s", full, fl.Msg), Replay: replayDoc{cfg.Name, full}}
							if cfg.GoTest != nil {
								v.GoTest = cfg.GoTest(full)
							}
							r.Report(v)
							continue // states behind a failing transition are not expanded
						}
						seenMu.Lock()
						_, dup := seen[key]
						if !dup {
							seen[key] = struct{}{}
						}
						seenMu.Unlock()
						if !dup {
							nn := &node{parent: n, op: op, depth: n.depth + 1, key: key}
							nextMu.Lock()
							if res.States+len(next) < cfg.MaxStates {
								next = append(next, nn)
							} else {
								overCap = true
							}
							nextMu.Unlock()
						}
					}
				}
			}(slots[w])
		}
		wg.Wait()
		if d := atomic.LoadInt32(&diverged); d != 0 {
			return res, d == 1
		}
		if overCap {
			res.Exhaustive = false
			r.MarkCapped()
		}
		res.States += len(next)
		if cfg.OnState != nil {
			for _, n := range next {
				cfg.OnState(n.path())
			}
		}
		if len(next) > 0 {
			res.MaxDepth = next[0].depth
			if sampled < 4 {
				r.Sample(map[string]any{"config": cfg.Name, "path": fmt.Sprint(next[len(next)/2].path())})
				sampled++
			}
		}
		frontier = next
	}
	res.Transitions = int(transitions)
	res.Pruned = int(pruned)
	res.Twins = int(twins)
	r.Add("instance_isolation_states", twins)
	if sharedMoved > 0 {
		r.Add("instance_isolation_shared_memory_moved_but_unobservable", sharedMoved)
	}
	return res, false
}

func replayMode(cfg Config, file string) {
	b, err := os.ReadFile(file)
	if err != nil {
		ev.Infra("replay: %v", err)
	}
	var doc struct {
		Replay replayDoc `json:"replay"`
	}
	if err := json.Unmarshal(b, &doc); err != nil {
		ev.Infra("replay: %v", err)
	}
	if doc.Replay.Config != cfg.Name {
		return
	}
	fmt.Printf("replaying %d operations of %s\n", len(doc.Replay.Ops), cfg.Name)
	s := cfg.New()
	for i, op := range doc.Replay.Ops {
		fl := safe(func() *Fail { return s.Apply(op) })
		fmt.Printf("  %2d %v\n", i, op)
		if fl != nil {
			fmt.Printf("REPRODUCED %s: %s\n", fl.Sig, fl.Msg)
			os.Exit(1)
		}
	}
	if fl := safe(s.Observe); fl != nil {
		fmt.Printf("REPRODUCED %s: %s\n", fl.Sig, fl.Msg)
		os.Exit(1)
	}
	fmt.Println("replay finished without a failure")
	os.Exit(0)
}

// watchdog turns a transition that makes no progress into a reported hang,
// after confirming it twice in fresh subprocesses. No other wall-clock value is
// ever an oracle.
func watchdog(r *ev.Run, cfg Config, slots []*slot, stop chan struct{}) {
	const stuck = 45 * time.Second
	t := time.NewTicker(2 * time.Second)
	defer t.Stop()
	for {
		select {
		case <-stop:
			return
		case <-t.C:
		}
		var ms runtime.MemStats
		var suspect []Op
		for _, sl := range slots {
			sl.mu.Lock()
			if sl.busy && time.Since(sl.since) > stuck {
				suspect = sl.path
			}
			sl.mu.Unlock()
		}
		if suspect == nil {
			runtime.ReadMemStats(&ms)
			if ms.HeapAlloc > 6<<30 {
				// runaway allocation: blame the longest-running transition
				var oldest time.Time
				for _, sl := range slots {
					sl.mu.Lock()
					if sl.busy && (oldest.IsZero() || sl.since.Before(oldest)) && time.Since(sl.since) > 5*time.Second {
						oldest, suspect = sl.since, sl.path
					}
					sl.mu.Unlock()
				}
			}
		}
		if suspect == nil {
			continue
		}
		// confirm in fresh subprocesses
		dir := ev.Root() + "/.work/replays"
		os.MkdirAll(dir, 0o755)
		f := fmt.Sprintf("%s/%s-hang-candidate.json", dir, r.ID)
		b, _ := json.Marshal(map[string]any{"replay": replayDoc{cfg.Name, suspect}})
		os.WriteFile(f, b, 0o644)
		hung := 0
		for i := 0; i < 2; i++ {
			cmd := exec.Command(os.Args[0], os.Args[1:]...)
			cmd.Env = append(os.Environ(), "VERIF_SEQ_REPLAY="+f)
			done := make(chan error, 1)
			cmd.Start()
			go func() { done <- cmd.Wait() }()
			select {
			case <-done:
			case <-time.After(90 * time.Second):
				cmd.Process.Kill()
				hung++
			}
		}
		if hung == 2 {
			r.Report(ev.Violation{Sig: cfg.Name + "|hang", Msg: fmt.Sprintf("operation never returns (confirmed twice in fresh processes, 90 s each) after %v", suspect), Replay: replayDoc{cfg.Name, suspect}})
			r.Set("exhaustive", false)
			r.Finish()
		}
		// otherwise it was merely slow; let it run
		for _, sl := range slots {
			sl.mu.Lock()
			sl.since = time.Now()
			sl.mu.Unlock()
		}
	}
}
