// Package schk drives SCHED checks: scenarios (a sequential set-up, a few model
// threads calling the real API, an oracle) explored under every schedule by
// package vrt, sharded over worker processes, with violations replayed twice
// for determinism before they are believed.
package schk

import (
	"bytes"
	"encoding/json"
	"fmt"
	"os"
	"os/exec"
	"runtime"
	"sort"
	"strconv"
	"strings"
	"sync"
	"sync/atomic"
	"time"

	"verif/lib/ev"
	"verif/vrt"
)

type Fail struct{ Sig, Msg string }

func Failf(sig, format string, a ...any) *Fail { return &Fail{sig, fmt.Sprintf(format, a...)} }

// Scenario is one closed driver.
type Scenario struct {
	Name      string
	Bound     int  // preemption bound in the plain build; -1 = all interleavings
	RaceBound int  // bound in the race build; -2 = not run there
	MaxSteps  int  // step budget of one execution (0 = 20000); beyond it the execution is a livelock
	Delay     bool // delay bounding (every non-default thread choice costs) instead of preemption bounding
	// Body builds fresh state (sequentially, pass-through mode), spawns the model
	// threads on s and returns the observation record they fill in.
	Body func(s *vrt.Sched) any
	// Check is the oracle for one complete execution; outcome is a short
	// description of what was observed (for the distinct-outcome count).
	Check func(x *vrt.Exec, obs any) (fail *Fail, outcome string)
	// RaceSig is the classifier signature of a data race found in this scenario (default "data-race").
	RaceSig string
	// ExpectDeadlock: a deadlock is handed to Check instead of being a violation.
	ExpectDeadlock bool
	// Schedules, when > 0, makes the scenario a deterministic large-size family member rather than an
	// exhaustive exploration: only the first Schedules executions of the canonical depth-first order are
	// run (thousands of threads, where one schedule costs a noticeable fraction of a second). It is
	// reported as such (not as exhaustive, not as capped by a deadline).
	Schedules int
}

type violation struct {
	Sig      string   `json:"sig"`
	Msg      string   `json:"msg"`
	Scenario string   `json:"scenario"`
	Choices  []int    `json:"choices"`
	Trace    []string `json:"trace"`
	Race     bool     `json:"race_build"`
}

type scenStat struct {
	Name       string `json:"name"`
	Executions int64  `json:"executions"`
	Complete   int64  `json:"complete"`
	Cut        int64  `json:"cut"`
	States     int64  `json:"states"`
	Steps      int64  `json:"steps"`
	Outcomes   int    `json:"outcomes"`
	Bound      int    `json:"bound"`
	Unbounded  bool   `json:"unbounded"`
	Family     bool   `json:"family,omitempty"`
	Capped     bool   `json:"capped"`
	MaxPoints  int    `json:"max_points"`
}

type shardResult struct {
	Race       bool             `json:"race"`
	Scenarios  []scenStat       `json:"scenarios"`
	Violations []violation      `json:"violations"`
	Infra      string           `json:"infra,omitempty"`
	Sample     []string         `json:"sample,omitempty"`
	Extra      map[string]int64 `json:"extra,omitempty"`
	Known      map[string]int   `json:"known,omitempty"`
}

// WorkerExtra, if set, lets a check add its own counters (summed over the shards of the
// plain build) to the evidence, e.g. the number of distinct histories judged.
var WorkerExtra func() map[string]int64

// Main runs the scenarios: as coordinator (forks workers and merges their
// results into r) or, when VERIF_SHARD is set, as one worker.
func Main(r *ev.Run, scenarios []Scenario, budget time.Duration, finish func(r *ev.Run)) {
	if f := os.Getenv("VERIF_REPLAY"); f != "" {
		replayFile(scenarios, f)
		return
	}
	if sh := os.Getenv("VERIF_SHARD"); sh != "" {
		worker(scenarios, sh, budget)
		return
	}
	coordinate(r, scenarios, budget, finish)
}

func worker(scenarios []Scenario, sh string, budget time.Duration) {
	runtime.GOMAXPROCS(2)
	var i, k int
	fmt.Sscanf(sh, "%d/%d", &i, &k)
	deadline := time.Now().Add(budget)
	// memory guard: the race build's shadow state is outside the Go heap limit; a worker whose
	// resident set passes 5 GB stops exploring (what it did not finish is reported as capped)
	var overMem int32
	go func() {
		for {
			time.Sleep(2 * time.Second)
			if b, err := os.ReadFile("/proc/self/status"); err == nil {
				if i := strings.Index(string(b), "VmRSS:"); i >= 0 {
					var kb int64
					fmt.Sscanf(strings.TrimSpace(string(b)[i+6:]), "%d", &kb)
					if kb > 5<<20 {
						atomic.StoreInt32(&overMem, 1)
					}
				}
			}
		}
	}()
	res := shardResult{Race: vrt.RaceEnabled, Known: map[string]int{}}
	known := map[string]bool{}
	for _, k := range strings.Split(os.Getenv("VERIF_KNOWN"), "\n") {
		if k != "" {
			known[k] = true
		}
	}
	only := os.Getenv("VERIF_ONLY")
	var selftests, selftestExecs int64
	for idx, sc := range scenarios {
		if idx%k != i && only == "" {
			continue
		}
		if only != "" && !strings.Contains(sc.Name, only) {
			continue
		}
		bound := sc.Bound
		if vrt.RaceEnabled {
			if sc.RaceBound == -2 {
				continue
			}
			bound = sc.RaceBound
		}
		st := scenStat{Name: sc.Name, Bound: bound}
		// a fair share of the remaining budget (x4: scenarios are uneven), so that one heavy
		// scenario cannot starve the others; what it did not finish is reported as capped
		left := 0
		for j := idx; j < len(scenarios); j++ {
			if j%k == i || only != "" {
				left++
			}
		}
		share := time.Until(deadline) / time.Duration(left) * 4
		if min := budget / 40; share < min {
			share = min
		}
		if share < 10*time.Second {
			share = 10 * time.Second
		}
		scDeadline := time.Now().Add(share)
		if scDeadline.After(deadline) {
			scDeadline = deadline
		}
		outcomes := map[string]bool{}
		var obs any
		// the scenario body (the sequential set-up history on the real object) may itself panic on
		// changed code: that is a verdict about the code, not a crash of the checker
		setupPanic := ""
		// The oracle's final observation (it reads the object under test through its public API) runs
		// INSIDE the execution, as its last thread (vrt.SetFinal); finF/finOut hold its verdict.
		var finF *Fail
		var finOut string
		finRan := false
		body := func(s *vrt.Sched) {
			setupPanic, finRan = "", false
			defer func() {
				if p := vrt.Recover(recover()); p != nil {
					setupPanic = fmt.Sprint(p)
				}
			}()
			obs = sc.Body(s)
			s.SetFinal(func(x *vrt.Exec) {
				finF, finOut = safeCheck(sc, x, obs)
				finRan = true
			})
		}
		check := func(x *vrt.Exec) (*Fail, string) {
			if finRan {
				return finF, finOut
			}
			if x.FinalStuck {
				return &Fail{"final-observation-blocked", "after the execution had come to its end, reading the object under test through its public API blocked for ever: " + strings.Join(x.Blocked, "; ")}, ""
			}
			return safeCheck(sc, x, obs)
		}
		var vio *violation
		judge := func(x *vrt.Exec) *Fail {
			if setupPanic != "" {
				cls := setupPanic
				if len(cls) > 60 {
					cls = cls[:60]
				}
				return &Fail{"panic-in-setup:" + strings.ReplaceAll(cls, " ", "_"), "the sequential set-up calls of the scenario (made before any thread starts) panicked: " + setupPanic}
			}
			if x.Races > 0 {
				sig := "data-race"
				if sc.RaceSig != "" {
					sig = sc.RaceSig
				}
				return &Fail{sig, fmt.Sprintf("the race detector reported %d data race(s) in this schedule (details in the race log)", x.Races)}
			}
			if x.Livelock {
				return &Fail{"livelock", "execution exceeded the step budget (a retry loop that never terminates under this schedule)"}
			}
			if x.Panic != "" {
				// handed to the oracle: some properties tolerate none, all report it
				f, _ := check(x)
				if f != nil {
					return f
				}
				return &Fail{"panic:" + short(x.Panic), "a model thread panicked (the process would have died): " + x.Panic}
			}
			if x.Deadlock && !sc.ExpectDeadlock {
				return &Fail{"deadlock", "no thread can run: " + strings.Join(x.Blocked, "; ")}
			}
			f, out := check(x)
			outcomes[out] = true
			return f
		}
		famRuns := 0
		stopEvery := int64(0)
		if sc.Schedules > 0 {
			stopEvery = 1
		}
		stats := vrt.Explore(vrt.Options{MaxBound: bound, Cache: true, Delay: sc.Delay, MaxSteps: sc.MaxSteps, StopEvery: stopEvery, Abort: func() bool { return time.Now().After(scDeadline.Add(20 * time.Second)) }, Stop: func() bool {
			return (sc.Schedules > 0 && famRuns >= sc.Schedules) || time.Now().After(scDeadline) || atomic.LoadInt32(&overMem) != 0
		}},
			body, func(x *vrt.Exec) bool {
				famRuns++
				st.Steps += int64(x.Steps)
				f := judge(x)
				if f == nil {
					return true
				}
				if known[strings.ReplaceAll(f.Sig, " ", "_")] {
					// a listed known finding: counted, and the exploration goes on, so that any
					// other violation in the same scenario is still found
					res.Known[strings.ReplaceAll(f.Sig, " ", "_")]++
					return true
				}
				// replay twice with tracing; the same schedule must fail the same way
				var traces [2][]string
				for n := 0; n < 2; n++ {
					y := vrt.Run(vrt.RunConfig{Prefix: x.Choices, Trace: true, Delay: sc.Delay, MaxSteps: sc.MaxSteps}, body)
					traces[n] = y.Trace
					g := judge(y)
					if g == nil || g.Sig != f.Sig {
						// a race is reported once per distinct stack pair: a replay of a racy schedule is silent
						if strings.HasPrefix(f.Sig, "data-race") {
							continue
						}
						res.Infra = fmt.Sprintf("scenario %s: replay of a failing schedule diverged (first %v, replay %v)", sc.Name, f, g)
						return false
					}
				}
				if strings.Join(traces[0], "\n") != strings.Join(traces[1], "\n") {
					res.Infra = fmt.Sprintf("scenario %s: two replays of one schedule produced different traces:\n%s\n---\n%s", sc.Name, strings.Join(traces[0], "\n"), strings.Join(traces[1], "\n"))
					return false
				}
				vio = &violation{Sig: f.Sig, Msg: f.Msg, Scenario: sc.Name, Choices: x.Choices, Trace: traces[0], Race: vrt.RaceEnabled}
				return false
			})
		st.Executions, st.Complete, st.Cut, st.States = stats.Executions, stats.Complete, stats.Cut, stats.States
		st.Unbounded, st.MaxPoints = stats.Unbounded, stats.MaxPoints
		st.Capped = stats.Capped && vio == nil && res.Infra == ""
		if sc.Schedules > 0 {
			// a family member: neither exhaustive nor cut by a deadline
			st.Capped, st.Unbounded, st.Family = false, false, true
			stats.Capped = true // no state-cache self-test on it
		}
		if !stats.Unbounded {
			st.Bound = stats.BoundCompleted
		}
		st.Outcomes = len(outcomes)
		// state-cache soundness self-test on a sample of the scenarios: the same exploration
		// without the cache must see exactly the same set of outcomes
		if !vrt.RaceEnabled && vio == nil && res.Infra == "" && !stats.Capped && (idx%41 == 0 || os.Getenv("VERIF_SELFTEST_ALL") != "") && stats.Executions < 30000 {
			withCache := outcomes
			outcomes = map[string]bool{}
			bad := false
			// the uncached exploration can be orders of magnitude larger: it is abandoned (and not
			// counted as a self-test) beyond a fixed number of executions
			n2, limit2 := 0, 120000
			if budget > 5*time.Minute { // the thorough tier
				limit2 = 2000000
			}
			st2 := vrt.Explore(vrt.Options{MaxBound: bound, Cache: false, Delay: sc.Delay, MaxSteps: sc.MaxSteps, Abort: func() bool { return time.Now().After(scDeadline.Add(20 * time.Second)) }, Stop: func() bool { return n2 > limit2 || time.Now().After(scDeadline) }},
				body, func(x *vrt.Exec) bool {
					n2++
					if f := judge(x); f != nil && !known[strings.ReplaceAll(f.Sig, " ", "_")] {
						bad = true
						return false
					}
					return true
				})
			if !st2.Capped {
				if bad || len(outcomes) != len(withCache) {
					res.Infra = fmt.Sprintf("scenario %s: state-cache self-test failed: %d outcomes with the cache, %d without (violation without cache: %v)", sc.Name, len(withCache), len(outcomes), bad)
				}
				for o := range outcomes {
					if !withCache[o] && res.Infra == "" {
						res.Infra = fmt.Sprintf("scenario %s: state-cache self-test failed: outcome %q is reached only without the cache", sc.Name, o)
					}
				}
				selftests++
				selftestExecs += st2.Executions
			}
		}
		res.Scenarios = append(res.Scenarios, st)
		if vio != nil {
			res.Violations = append(res.Violations, *vio)
		}
		if res.Infra != "" {
			break
		}
		if len(res.Sample) < 2 {
			y := vrt.Run(vrt.RunConfig{Trace: true}, body)
			if len(y.Trace) > 14 {
				y.Trace = append(y.Trace[:14], "...")
			}
			res.Sample = append(res.Sample, sc.Name+": "+strings.Join(y.Trace, " | "))
		}
	}
	if WorkerExtra != nil {
		res.Extra = WorkerExtra()
	}
	if res.Extra == nil {
		res.Extra = map[string]int64{}
	}
	res.Extra["state_cache_selftest_scenarios"] = selftests
	res.Extra["state_cache_selftest_executions_without_cache"] = selftestExecs
	b, _ := json.Marshal(res)
	os.WriteFile(os.Getenv("VERIF_OUT"), b, 0o644)
}

// safeCheck runs the scenario's oracle; the oracle reads the object under test through its public API
// after the execution (final contents), and a panic there is a verdict about the code.
func safeCheck(sc Scenario, x *vrt.Exec, obs any) (f *Fail, outcome string) {
	defer func() {
		if p := vrt.Recover(recover()); p != nil {
			msg := fmt.Sprint(p)
			f, outcome = &Fail{"panic-in-final-observation:" + short(msg), "reading the object after the execution panicked: " + msg}, ""
		}
	}()
	return sc.Check(x, obs)
}

func short(s string) string {
	s = strings.ReplaceAll(s, " ", "_")
	if len(s) > 50 {
		s = s[:50]
	}
	return s
}

func coordinate(r *ev.Run, scenarios []Scenario, budget time.Duration, finish func(r *ev.Run)) {
	k := runtime.NumCPU()
	if k > len(scenarios) {
		k = len(scenarios)
	}
	type task struct {
		bin   string
		shard int
	}
	var tasks []task
	for i := 0; i < k; i++ {
		tasks = append(tasks, task{os.Args[0], i})
	}
	raceBin := os.Getenv("VERIF_RACE_BIN")
	if raceBin != "" {
		for i := 0; i < k; i++ {
			tasks = append(tasks, task{raceBin, i})
		}
	}
	dir := ev.Root() + "/.work/shards-" + r.ID
	os.RemoveAll(dir)
	os.MkdirAll(dir, 0o755)
	results := make([]shardResult, len(tasks))
	sem := make(chan struct{}, runtime.NumCPU())
	var wg sync.WaitGroup
	for ti, t := range tasks {
		wg.Add(1)
		go func(ti int, t task) {
			defer wg.Done()
			sem <- struct{}{}
			defer func() { <-sem }()
			out := fmt.Sprintf("%s/%d.json", dir, ti)
			cmd := exec.Command(t.bin, os.Args[1:]...)
			cmd.Env = append(os.Environ(), fmt.Sprintf("VERIF_SHARD=%d/%d", t.shard, k), "VERIF_OUT="+out, "VERIF_KNOWN="+strings.Join(r.KnownSigs(), "\n"))
			if t.bin == raceBin {
				cmd.Env = append(cmd.Env, fmt.Sprintf("GORACE=halt_on_error=0 log_path=%s/race-%d", dir, t.shard))
			}
			// a worker whose model thread spins without ever reaching a scheduling point (an
			// unsynchronised busy loop in the code under test) would never finish: it is killed well
			// after its budget and reported, instead of hanging the check
			var outBuf bytes.Buffer
			cmd.Stdout, cmd.Stderr = &outBuf, &outBuf
			err := cmd.Start()
			if err == nil {
				done := make(chan error, 1)
				go func() { done <- cmd.Wait() }()
				select {
				case err = <-done:
				case <-time.After(budget*2 + 4*time.Minute):
					cmd.Process.Kill()
					<-done
					err = fmt.Errorf("killed: no result %v after its budget of %v (a model thread that never reaches a scheduling point, e.g. a busy loop on unsynchronised state?)", budget+4*time.Minute, budget)
				}
			}
			o := outBuf.Bytes()
			b, rerr := os.ReadFile(out)
			if (rerr != nil || json.Unmarshal(b, &results[ti]) != nil) && strings.Contains(string(o), "fatal error:") {
				// the Go runtime itself died in a worker (stack overflow, concurrent map access, ...):
				// no recover() can catch that, and the process would have died in production too
				msg := string(o)
				if i := strings.Index(msg, "fatal error:"); i >= 0 {
					msg = msg[i:]
				}
				first := strings.SplitN(msg, "\n", 2)[0]
				results[ti] = shardResult{Race: t.bin == raceBin, Violations: []violation{{Sig: "fatal:" + short(strings.TrimPrefix(first, "fatal error: ")), Msg: "a worker process died with a fatal runtime error while exploring its scenarios: " + tail(msg), Scenario: fmt.Sprintf("shard %d", t.shard), Race: t.bin == raceBin}}}
			} else if (rerr != nil || json.Unmarshal(b, &results[ti]) != nil) && strings.Contains(string(o), "\npanic: ") && !strings.Contains(string(o), "panic: vrt:") && strings.Contains(string(o), "gopkg.in/typ.v4/") {
				// an ordinary panic that escaped in a worker with the library on the stack (for instance in
				// a goroutine the library started itself during a set-up call): the process would have died
				msg := string(o)
				msg = msg[strings.Index(msg, "\npanic: ")+1:]
				first := strings.SplitN(msg, "\n", 2)[0]
				results[ti] = shardResult{Race: t.bin == raceBin, Violations: []violation{{Sig: "crash:" + short(strings.TrimPrefix(first, "panic: ")), Msg: "a worker process died with an unrecovered panic while exploring its scenarios: " + tail(msg), Scenario: fmt.Sprintf("shard %d", t.shard), Race: t.bin == raceBin}}}
			} else if rerr != nil || json.Unmarshal(b, &results[ti]) != nil {
				results[ti].Infra = fmt.Sprintf("worker %s shard %d produced no result (%v): %s", t.bin, t.shard, err, tail(string(o)))
			}
		}(ti, t)
	}
	wg.Wait()
	var execs, complete, cut, states, steps, raceExecs int64
	nScen, capped, oneOutcome, families := 0, 0, 0, 0
	var cappedNames []string
	minBound, unb := 1<<30, 0
	var per []string
	extra := map[string]int64{}
	// An infrastructure error (a state-cache self-test mismatch, a diverging replay) in one worker
	// is fatal only if no worker found a violation: invisible communication between threads (a
	// data race in the code under test) breaks the assumptions of the cache and of replay, and is
	// then reported by the race build / the oracle instead.
	anyViolation, infra := false, ""
	for _, res := range results {
		if len(res.Violations) > 0 {
			anyViolation = true
		}
		if res.Infra != "" && infra == "" {
			infra = res.Infra
		}
	}
	if infra != "" && !anyViolation {
		ev.Infra("%s", infra)
	}
	if infra != "" {
		r.Set("infrastructure_note", "a worker also reported: "+infra)
	}
	for _, res := range results {
		if !res.Race {
			for k, v := range res.Extra {
				extra[k] += v
			}
		}
		for _, s := range res.Scenarios {
			if res.Race {
				raceExecs += s.Executions
			} else {
				nScen++
				execs += s.Executions
				complete += s.Complete
				cut += s.Cut
				states += s.States
				if s.Unbounded {
					unb++
				} else if s.Bound < minBound {
					minBound = s.Bound
				}
				if s.Outcomes <= 1 {
					oneOutcome++
				}
				if len(per) < 400 {
					b := "all"
					if !s.Unbounded {
						b = "pb" + strconv.Itoa(s.Bound)
					}
					per = append(per, fmt.Sprintf("%s: exec=%d states=%d outcomes=%d %s", s.Name, s.Executions, s.States, s.Outcomes, b))
				}
			}
			steps += s.Steps
			if s.Family {
				families++
			}
			if s.Capped {
				capped++
				if len(cappedNames) < 25 {
					race := ""
					if res.Race {
						race = " (race build)"
					}
					cappedNames = append(cappedNames, fmt.Sprintf("%s%s: stopped after %d executions", s.Name, race, s.Executions))
				}
			}
		}
		for _, v := range res.Violations {
			msg := v.Msg + "\nscenario: " + v.Scenario
			if v.Race {
				msg += " (race build)"
				msg += raceLog(ev.Root() + "/.work/shards-" + r.ID)
			}
			r.Report(ev.Violation{Sig: v.Sig, Msg: msg, Replay: map[string]any{"scenario": v.Scenario, "choices": v.Choices, "race_build": v.Race, "trace": v.Trace}})
		}
		for _, s := range res.Sample {
			r.Sample(s)
		}
		for sig, n := range res.Known {
			r.KnownHit(sig, n)
		}
	}
	sort.Strings(per)
	for k, v := range extra {
		r.Set(k, v)
	}
	r.Set("scenarios", nScen)
	r.Set("executions", execs)
	r.Set("executions_complete", complete)
	r.Set("executions_cut_by_state_cache", cut)
	r.Set("race_build_executions", raceExecs)
	r.Set("states", states)
	r.Set("transitions", steps)
	r.Set("traces_validated_against_impl", complete)
	r.Set("scenarios_all_interleavings", unb)
	if minBound < 1<<30 {
		r.Set("min_preemption_bound_completed", minBound)
	}
	r.Set("scenarios_with_single_outcome", oneOutcome)
	r.Set("scenarios_capped_by_deadline", capped)
	if families > 0 {
		r.Set("large_size_family_scenarios_run_on_a_fixed_number_of_schedules", families)
	}
	if len(cappedNames) > 0 {
		r.Set("capped_scenarios_first25", cappedNames)
	}
	if len(per) > 60 {
		r.Set("per_scenario_first60", per[:60])
	} else {
		r.Set("per_scenario", per)
	}
	if b, err := os.ReadFile(ev.Root() + "/.work/litmus.json"); err == nil {
		var lj map[string]any
		if json.Unmarshal(b, &lj) == nil {
			r.Set("shim_conformance_litmus", lj)
		}
	}
	if capped > 0 {
		r.MarkCapped()
	}
	if finish != nil {
		finish(r)
	}
	r.Finish()
}

func tail(s string) string {
	if len(s) > 1500 {
		s = s[len(s)-1500:]
	}
	return s
}

func raceLog(dir string) string {
	ents, _ := os.ReadDir(dir)
	for _, e := range ents {
		if strings.HasPrefix(e.Name(), "race-") {
			b, _ := os.ReadFile(dir + "/" + e.Name())
			if len(b) > 0 {
				s := string(b)
				if len(s) > 2500 {
					s = s[:2500]
				}
				return "\n" + s
			}
		}
	}
	return ""
}

func replayFile(scenarios []Scenario, file string) {
	b, err := os.ReadFile(file)
	if err != nil {
		ev.Infra("replay: %v", err)
	}
	var doc struct {
		Replay struct {
			Scenario string `json:"scenario"`
			Choices  []int  `json:"choices"`
			Race     bool   `json:"race_build"`
		} `json:"replay"`
	}
	if err := json.Unmarshal(b, &doc); err != nil {
		ev.Infra("replay: %v", err)
	}
	for _, sc := range scenarios {
		if sc.Name != doc.Replay.Scenario {
			continue
		}
		var obs any
		var f *Fail
		var out string
		ran := false
		x := vrt.Run(vrt.RunConfig{Prefix: doc.Replay.Choices, Trace: true, Delay: sc.Delay, MaxSteps: sc.MaxSteps}, func(s *vrt.Sched) {
			obs = sc.Body(s)
			s.SetFinal(func(x *vrt.Exec) { f, out = safeCheck(sc, x, obs); ran = true })
		})
		for _, l := range x.Trace {
			fmt.Println("  ", l)
		}
		if !ran {
			f, out = safeCheck(sc, x, obs)
		}
		fmt.Printf("deadlock=%v panic=%q races=%d outcome=%s\n", x.Deadlock, x.Panic, x.Races, out)
		if f != nil || x.Panic != "" || (x.Deadlock && !sc.ExpectDeadlock) || x.Races > 0 {
			fmt.Printf("REPRODUCED %v\n", f)
			os.Exit(1)
		}
		fmt.Println("replay finished without a failure")
		os.Exit(0)
	}
	ev.Infra("replay: scenario %q not found", doc.Replay.Scenario)
}
