// Package wraps holds the "remembered answer across exactly N changes" families (enum.Wrap) for the
// library's containers: an observer is asked, 2^k-1 / 2^k / 2^k+1 changes are applied of which one
// changes the observer's answer, and the observer is asked again.
package wraps

import (
	"fmt"
	"sort"

	"gopkg.in/typ.v4/maps"
	"gopkg.in/typ.v4/sets"
	"gopkg.in/typ.v4/slices"
	"gopkg.in/typ.v4/sync2"
	"verif/lib/enum"
)

// Set: Has / Len / Slice of a set across runs of Add/Remove.
func Set(newSet func() sets.Set[int]) (int, string) {
	return enum.Wrap(enum.WrapLadder, func() (func() string, func(int), func()) {
		s := newSet()
		s.Add(10)
		s.Add(20)
		has7, odd := false, false
		return func() string {
				want := map[int]bool{10: true, 20: true}
				if has7 {
					want[7] = true
				}
				if odd {
					want[1000] = true
				}
				if got := s.Has(7); got != has7 {
					return fmt.Sprintf("Has(7) = %v, want %v", got, has7)
				}
				if got := s.Has(1000); got != odd {
					return fmt.Sprintf("Has(1000) = %v, want %v", got, odd)
				}
				if s.Len() != len(want) {
					return fmt.Sprintf("Len = %d, want %d", s.Len(), len(want))
				}
				sl := s.Slice()
				sort.Ints(sl)
				if len(sl) != len(want) {
					return fmt.Sprintf("Slice = %v, want the %d values %v", sl, len(want), want)
				}
				for _, v := range sl {
					if !want[v] {
						return fmt.Sprintf("Slice = %v contains %d", sl, v)
					}
				}
				return ""
			}, func(int) {
				if odd {
					s.Remove(1000)
				} else {
					s.Add(1000)
				}
				odd = !odd
			}, func() {
				if has7 {
					s.Remove(7)
				} else {
					s.Add(7)
				}
				has7 = !has7
			}
	})
}

// Map: Load / Range of a sync2.Map across runs of Store/Delete (changing values, not only presence).
func Map() (int, string) {
	return enum.Wrap(enum.WrapLadder, func() (func() string, func(int), func()) {
		var m sync2.Map[int, int]
		m.Store(10, 1)
		v7, has7, n := 0, false, 0
		odd := false
		return func() string {
				got, ok := m.Load(7)
				if ok != has7 || (ok && got != v7) {
					return fmt.Sprintf("Load(7) = %d,%v, want %d,%v", got, ok, v7, has7)
				}
				if got, ok := m.Load(1000); ok != odd || (ok && got != n) {
					return fmt.Sprintf("Load(1000) = %d,%v, want %d,%v", got, ok, n, odd)
				}
				cnt, bad := 0, ""
				m.Range(func(k, v int) bool {
					cnt++
					switch {
					case k == 10 && v == 1, k == 7 && has7 && v == v7, k == 1000 && odd && v == n:
					default:
						bad = fmt.Sprintf("Range yields %d:%d", k, v)
					}
					return true
				})
				want := 1
				if has7 {
					want++
				}
				if odd {
					want++
				}
				if bad == "" && cnt != want {
					bad = fmt.Sprintf("Range yields %d pairs, want %d", cnt, want)
				}
				return bad
			}, func(i int) {
				n = i
				if odd && i%3 == 0 {
					m.Delete(1000)
					odd = false
				} else {
					m.Store(1000, n)
					odd = true
				}
			}, func() {
				if has7 && v7%2 == 1 {
					m.Delete(7)
					has7 = false
				} else {
					v7++
					m.Store(7, v7)
					has7 = true
				}
			}
	})
}

// Sorted: Contains / Index / Len / Get of a Sorted slice across runs of Add/Remove.
func Sorted() (int, string) {
	return enum.Wrap(enum.WrapLadder, func() (func() string, func(int), func()) {
		s := slices.NewSortedOrdered(10, 20, 30)
		has7, odd := false, false
		return func() string {
				want := []int{10, 20, 30}
				if has7 {
					want = append([]int{7}, want...)
				}
				if odd {
					want = append(want, 1000)
				}
				if got := s.Contains(7); got != has7 {
					return fmt.Sprintf("Contains(7) = %v, want %v", got, has7)
				}
				wi := -1
				if has7 {
					wi = 0
				}
				if got := s.Index(7); got != wi {
					return fmt.Sprintf("Index(7) = %d, want %d", got, wi)
				}
				if got := s.Index(30); got != len(want)-1-map[bool]int{true: 1}[odd] {
					return fmt.Sprintf("Index(30) = %d in %v", got, want)
				}
				if s.Len() != len(want) {
					return fmt.Sprintf("Len = %d, want %d", s.Len(), len(want))
				}
				for i, w := range want {
					if g := s.Get(i); g != w {
						return fmt.Sprintf("Get(%d) = %d, want %d", i, g, w)
					}
				}
				return ""
			}, func(int) {
				if odd {
					s.Remove(1000)
				} else {
					s.Add(1000)
				}
				odd = !odd
			}, func() {
				if has7 {
					s.Remove(7)
				} else {
					s.Add(7)
				}
				has7 = !has7
			}
	})
}

// Bimap: both lookup directions across runs of Add/Remove.
func Bimap() (int, string) {
	return enum.Wrap(enum.WrapLadder, func() (func() string, func(int), func()) {
		var b maps.Bimap[int, int]
		b.Add(10, 110)
		v7, has7, odd, n := 0, false, false, 0
		return func() string {
				got, ok := b.GetForward(7)
				if ok != has7 || (ok && got != v7) {
					return fmt.Sprintf("GetForward(7) = %d,%v, want %d,%v", got, ok, v7, has7)
				}
				if b.ContainsForward(7) != has7 {
					return fmt.Sprintf("ContainsForward(7) = %v, want %v", !has7, has7)
				}
				if has7 {
					if k, ok := b.GetReverse(v7); !ok || k != 7 {
						return fmt.Sprintf("GetReverse(%d) = %d,%v, want 7,true", v7, k, ok)
					}
				}
				if k, ok := b.GetReverse(v7 - 1); ok && k == 7 {
					return fmt.Sprintf("GetReverse(%d) = 7,true although 7 now maps to %d (present: %v)", v7-1, v7, has7)
				}
				if got, ok := b.GetForward(1000); ok != odd || (ok && got != n) {
					return fmt.Sprintf("GetForward(1000) = %d,%v, want %d,%v", got, ok, n, odd)
				}
				want := 1
				if has7 {
					want++
				}
				if odd {
					want++
				}
				if b.Len() != want {
					return fmt.Sprintf("Len = %d, want %d", b.Len(), want)
				}
				return ""
			}, func(i int) {
				if odd && i%3 == 0 {
					b.RemoveForward(1000)
					odd = false
				} else {
					n = 2000 + i
					b.Add(1000, n)
					odd = true
				}
			}, func() {
				if has7 && v7%2 == 1 {
					b.RemoveReverse(v7)
					has7 = false
				} else {
					v7 += 1
					if v7 < 200 {
						v7 = 201
					}
					b.Add(7, v7)
					has7 = true
				}
			}
	})
}
