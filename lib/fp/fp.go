// Package fp computes a canonical fingerprint of the complete concrete object
// graph reachable from a set of roots, by a read-only reflective walk.
//
// Every field is visited whether exported or not; pointers, maps, channels and
// slice backing arrays are numbered in first-visit order, so aliasing and
// cycles are captured up to renaming; maps are walked in sorted key order;
// slices include their hidden region len..cap. unsafe.Pointer values are
// treated as opaque identities (numbered like pointers, nil distinguished):
// what they point to must be covered by the caller's observations. Function
// values are ignored (they are constant per harness).
//
// Equal fingerprints therefore mean isomorphic concrete graphs, on which
// deterministic code has identical futures. Nothing here names a field of the
// code under test, so harnesses keep compiling when internals are refactored.
package fp

import (
	"fmt"
	"reflect"
	"sort"
	"strconv"
	"strings"
)

type walker struct {
	sb   strings.Builder
	ids  map[pkey]int
	next int
	// arrays: backing arrays of slices seen, to express aliasing between slices
	arrs []arr
	// outer is set on the private walker that renders a map key: identities (pointers, channels)
	// that the enclosing walk has already numbered keep that number, so that map keys which are
	// object identities sort canonically when the objects were reached earlier in the walk
	outer *walker
}

type pkey struct {
	p uintptr
	t reflect.Type
}

type arr struct {
	base, end uintptr
	id        int
}

// Of returns the fingerprint of the graph reachable from the roots (pass pointers).
func Of(roots ...any) string {
	w := &walker{ids: map[pkey]int{}}
	for i, r := range roots {
		if i > 0 {
			w.sb.WriteByte(';')
		}
		if r == nil {
			w.sb.WriteString("nil")
			continue
		}
		w.walk(reflect.ValueOf(r), 0)
	}
	return w.sb.String()
}

func (w *walker) id(p uintptr, t reflect.Type) (int, bool) {
	k := pkey{p, t}
	if w.outer != nil {
		if id, ok := w.outer.ids[k]; ok {
			return 1000000 + id, true
		}
	}
	if id, ok := w.ids[k]; ok {
		return id, true
	}
	w.next++
	w.ids[k] = w.next
	return w.next, false
}

func (w *walker) walk(v reflect.Value, depth int) {
	if depth > 10000 {
		panic("fp: graph too deep")
	}
	switch v.Kind() {
	case reflect.Invalid:
		w.sb.WriteString("nil")
	case reflect.Bool:
		if v.Bool() {
			w.sb.WriteByte('T')
		} else {
			w.sb.WriteByte('F')
		}
	case reflect.Int, reflect.Int8, reflect.Int16, reflect.Int32, reflect.Int64:
		w.sb.WriteString(strconv.FormatInt(v.Int(), 10))
	case reflect.Uint, reflect.Uint8, reflect.Uint16, reflect.Uint32, reflect.Uint64, reflect.Uintptr:
		w.sb.WriteString(strconv.FormatUint(v.Uint(), 10))
	case reflect.Float32, reflect.Float64:
		w.sb.WriteString(strconv.FormatFloat(v.Float(), 'g', -1, 64))
	case reflect.Complex64, reflect.Complex128:
		w.sb.WriteString(fmt.Sprint(v.Complex()))
	case reflect.String:
		w.sb.WriteString(strconv.Quote(v.String()))
	case reflect.Func:
		if v.IsNil() {
			w.sb.WriteString("fn0")
		} else {
			w.sb.WriteString("fn")
		}
	case reflect.UnsafePointer:
		p := v.Pointer()
		if p == 0 {
			w.sb.WriteString("up0")
		} else {
			id, _ := w.id(p, nil)
			w.sb.WriteString("up#" + strconv.Itoa(id))
		}
	case reflect.Chan:
		if v.IsNil() {
			w.sb.WriteString("ch0")
		} else {
			id, _ := w.id(v.Pointer(), nil)
			w.sb.WriteString("ch#" + strconv.Itoa(id) + "/" + strconv.Itoa(v.Len()) + "/" + strconv.Itoa(v.Cap()))
		}
	case reflect.Ptr:
		if v.IsNil() {
			w.sb.WriteString("nil")
			return
		}
		id, seen := w.id(v.Pointer(), v.Type())
		if seen {
			w.sb.WriteString("@" + strconv.Itoa(id))
			return
		}
		w.sb.WriteString("&" + strconv.Itoa(id))
		w.walk(v.Elem(), depth+1)
	case reflect.Interface:
		if v.IsNil() {
			w.sb.WriteString("i0")
			return
		}
		e := v.Elem()
		w.sb.WriteString("i<" + e.Type().String() + ">")
		w.walk(e, depth+1)
	case reflect.Struct:
		w.sb.WriteByte('{')
		for i := 0; i < v.NumField(); i++ {
			if i > 0 {
				w.sb.WriteByte(',')
			}
			w.walk(v.Field(i), depth+1)
		}
		w.sb.WriteByte('}')
	case reflect.Array:
		w.sb.WriteByte('[')
		for i := 0; i < v.Len(); i++ {
			if i > 0 {
				w.sb.WriteByte(',')
			}
			w.walk(v.Index(i), depth+1)
		}
		w.sb.WriteByte(']')
	case reflect.Slice:
		if v.IsNil() {
			w.sb.WriteString("s0")
			return
		}
		n, c := v.Len(), v.Cap()
		w.sb.WriteString("s" + strconv.Itoa(n) + "/" + strconv.Itoa(c))
		if c == 0 {
			return
		}
		base := v.Pointer()
		esz := v.Type().Elem().Size()
		end := base + uintptr(c)*esz
		// aliasing with an already seen backing array?
		for _, a := range w.arrs {
			if base >= a.base && base < a.end && esz > 0 {
				w.sb.WriteString("@a" + strconv.Itoa(a.id) + "+" + strconv.Itoa(int((base-a.base)/esz)))
				if end <= a.end {
					return
				}
			}
		}
		w.next++
		w.arrs = append(w.arrs, arr{base, end, w.next})
		w.sb.WriteString("a" + strconv.Itoa(w.next) + "[")
		full := v.Slice3(0, c, c)
		for i := 0; i < c; i++ {
			if i == n {
				w.sb.WriteByte('|')
			} else if i > 0 {
				w.sb.WriteByte(',')
			}
			w.walk(full.Index(i), depth+1)
		}
		w.sb.WriteByte(']')
	case reflect.Map:
		if v.IsNil() {
			w.sb.WriteString("m0")
			return
		}
		id, seen := w.id(v.Pointer(), v.Type())
		if seen {
			w.sb.WriteString("@m" + strconv.Itoa(id))
			return
		}
		w.sb.WriteString("m" + strconv.Itoa(id) + "{")
		type kv struct {
			ks string
			k  reflect.Value
		}
		var keys []kv
		it := v.MapRange()
		for it.Next() {
			// keys are printed with a private walker: key types in the code
			// under test are plain comparable values (ints, strings, structs of them)
			kw := &walker{ids: map[pkey]int{}, outer: w}
			kw.walk(it.Key(), 0)
			keys = append(keys, kv{kw.sb.String(), it.Key()})
		}
		sort.Slice(keys, func(i, j int) bool { return keys[i].ks < keys[j].ks })
		for i, k := range keys {
			if i > 0 {
				w.sb.WriteByte(',')
			}
			w.sb.WriteString(k.ks + ":")
			w.walk(v.MapIndex(k.k), depth+1)
		}
		w.sb.WriteByte('}')
	default:
		panic("fp: unsupported kind " + v.Kind().String())
	}
}
