package fp

import "testing"

type node struct {
	v    int
	next *node
}

func TestFingerprintDistinguishes(t *testing.T) {
	// aliasing: two pointers to one node vs to two equal nodes
	n := &node{v: 1}
	a := []*node{n, n}
	b := []*node{{v: 1}, {v: 1}}
	if Of(&a) == Of(&b) {
		t.Error("aliasing not captured")
	}
	// renaming: isomorphic graphs get equal fingerprints
	c := []*node{{v: 1}, {v: 1}}
	if Of(&b) != Of(&c) {
		t.Error("isomorphic graphs differ")
	}
	// cycles
	x := &node{v: 1}
	x.next = x
	y := &node{v: 1, next: &node{v: 1}}
	y.next.next = y
	if Of(x) == Of(y) {
		t.Error("cycle length not captured")
	}
	// hidden capacity
	s1 := make([]int, 2, 4)
	s2 := make([]int, 2, 4)
	s2 = s2[:3]
	s2[2] = 9
	s2 = s2[:2]
	if Of(&s1) == Of(&s2) {
		t.Error("hidden region len..cap not captured")
	}
	// maps are order independent, unexported fields are visited
	m1 := map[int]node{1: {v: 1}, 2: {v: 2}}
	m2 := map[int]node{2: {v: 2}, 1: {v: 1}}
	if Of(&m1) != Of(&m2) {
		t.Error("map order leaks into the fingerprint")
	}
	m2[2] = node{v: 3}
	if Of(&m1) == Of(&m2) {
		t.Error("unexported field change not captured")
	}
	// nil vs empty
	var z1 []int
	z2 := []int{}
	if Of(&z1) == Of(&z2) {
		t.Error("nil and empty slices merge")
	}
	// two slices sharing one backing array vs two separate arrays
	back := []int{1, 2, 3, 4}
	sh := [][]int{back[:2], back[2:]}
	sep := [][]int{{1, 2}, {3, 4}}
	if Of(&sh) == Of(&sep) {
		t.Error("shared backing array not captured")
	}
}
