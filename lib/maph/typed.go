package maph

import (
	"fmt"
	"sort"

	"gopkg.in/typ.v4/sync2"
	"verif/lib/fp"
	"verif/lib/seqmc"
	"verif/lib/spell"
)

// T is H for a key type K whose logical keys have several ==-equal spellings (package spell): the
// last logical key of the universe is never stored (pure misses), the others are stored, replaced,
// loaded and deleted under rotating spellings. The model is a map over logical keys.
type T[K comparable] struct {
	U     *spell.U[K]
	M     *sync2.Map[K, int]
	Model map[int]int
}

func NewTyped[K comparable](u *spell.U[K]) *T[K] {
	return &T[K]{U: u, M: new(sync2.Map[K, int]), Model: map[int]int{}}
}

func (x *T[K]) Ops() []seqmc.Op {
	var ops []seqmc.Op
	n := x.U.N() - 1
	for k := 0; k < n; k++ {
		ops = append(ops, seqmc.Op{Name: "Load", A: k}, seqmc.Op{Name: "LoadAndDelete", A: k}, seqmc.Op{Name: "Delete", A: k})
		for v := 1; v <= 2; v++ {
			ops = append(ops, seqmc.Op{Name: "Store", A: k, B: v}, seqmc.Op{Name: "LoadOrStore", A: k, B: v})
		}
	}
	return append(ops, seqmc.Op{Name: "Load", A: n}, seqmc.Op{Name: "Range"})
}

func (x *T[K]) Apply(op seqmc.Op) *seqmc.Fail {
	mv, mok := x.Model[op.A]
	switch op.Name {
	case "Load":
		key := x.U.Key(op.A)
		v, ok := x.M.Load(key)
		if ok != mok || v != mv {
			return seqmc.Failf("Load", "Load(%#v) = (%d,%v), map has (%d,%v) for that key", key, v, ok, mv, mok)
		}
	case "Store":
		x.M.Store(x.U.Key(op.A), op.B)
		x.Model[op.A] = op.B
	case "LoadOrStore":
		key := x.U.Key(op.A)
		v, loaded := x.M.LoadOrStore(key, op.B)
		want := op.B
		if mok {
			want = mv
		} else {
			x.Model[op.A] = op.B
		}
		if loaded != mok || v != want {
			return seqmc.Failf("LoadOrStore", "LoadOrStore(%#v,%d) = (%d,%v), want (%d,%v)", key, op.B, v, loaded, want, mok)
		}
	case "LoadAndDelete":
		key := x.U.Key(op.A)
		v, loaded := x.M.LoadAndDelete(key)
		delete(x.Model, op.A)
		if loaded != mok || v != mv {
			return seqmc.Failf("LoadAndDelete", "LoadAndDelete(%#v) = (%d,%v), map had (%d,%v)", key, v, loaded, mv, mok)
		}
	case "Delete":
		x.M.Delete(x.U.Key(op.A))
		delete(x.Model, op.A)
	case "Range":
		seen := map[int]int{}
		var bad *seqmc.Fail
		x.M.Range(func(k K, v int) bool {
			l := x.U.Logical(k)
			if _, ok := seen[l]; ok {
				bad = seqmc.Failf("Range:twice", "Range visited key %#v twice (two spellings of one key are two entries)", k)
			}
			seen[l] = v
			return true
		})
		if bad != nil {
			return bad
		}
		if len(seen) != len(x.Model) {
			return seqmc.Failf("Range:missed", "Range visited %v (logical keys), map has %v", seen, x.Model)
		}
		for l, v := range seen {
			if w, ok := x.Model[l]; !ok || w != v {
				return seqmc.Failf("Range:value", "Range visited (%d,%d), map has %v", l, v, x.Model)
			}
		}
	}
	return nil
}

func (x *T[K]) Key() string {
	var ks []int
	for k := range x.Model {
		ks = append(ks, k)
	}
	sort.Ints(ks)
	s := fp.Of(&x.U.Keys, x.M) + "|" + fmt.Sprint(x.U.Phase()) + "|"
	for _, k := range ks {
		s += fmt.Sprintf("%d=%d,", k, x.Model[k])
	}
	return s
}

func (x *T[K]) Observe() *seqmc.Fail {
	for pass := 0; pass < 2; pass++ {
		for k := 0; k < x.U.N(); k++ {
			if f := x.Apply(seqmc.Op{Name: "Load", A: k}); f != nil {
				return f
			}
		}
		if f := x.Apply(seqmc.Op{Name: "Range"}); f != nil {
			return f
		}
	}
	return nil
}

// ExploreTyped runs the sequential search for one key universe.
func ExploreTyped[K comparable](r interface{ MarkCapped() }, run func(cfg seqmc.Config) seqmc.Result, mk func() *spell.U[K]) seqmc.Result {
	name := "map-sequential/key type " + mk().Name
	res := run(seqmc.Config{Name: name, MaxStates: 60000, New: func() seqmc.Sys { return NewTyped(mk()) }})
	if !res.Exhaustive {
		r.MarkCapped()
	}
	return res
}

// ModelKey: see H.ModelKey.
func (x *T[K]) ModelKey() string { return fmt.Sprint(x.Model, x.U.Phase()) }
