// Package maph is the sequential SEQ harness of sync2.Map (C04): the real map next to a map[K]V.
package maph

import (
	"fmt"
	"sort"

	"gopkg.in/typ.v4/sync2"
	"verif/lib/fp"
	"verif/lib/seqmc"
)

// H is one harness instance.
type H struct {
	Keys  int
	M     *sync2.Map[int, int]
	Model map[int]int
	Vals  []int // the values stored (default 1, 2)
}

// NewVals is New with another pair of values (e.g. 0 and 2: the zero value is data like any other).
func NewVals(keys int, vals ...int) *H {
	h := New(keys)
	h.Vals = vals
	return h
}

func New(keys int) *H { return &H{Keys: keys, M: new(sync2.Map[int, int]), Model: map[int]int{}} }

func (x *H) Ops() []seqmc.Op {
	var ops []seqmc.Op
	for k := 0; k < x.Keys; k++ {
		ops = append(ops, seqmc.Op{Name: "Load", A: k}, seqmc.Op{Name: "LoadAndDelete", A: k}, seqmc.Op{Name: "Delete", A: k})
		vals := x.Vals
		if vals == nil {
			vals = []int{1, 2}
		}
		for _, v := range vals {
			ops = append(ops, seqmc.Op{Name: "Store", A: k, B: v}, seqmc.Op{Name: "LoadOrStore", A: k, B: v})
		}
	}
	ops = append(ops, seqmc.Op{Name: "Load", A: x.Keys}) // a key that is never stored: pure misses
	ops = append(ops, seqmc.Op{Name: "Range"}, seqmc.Op{Name: "Range", A: 1})
	return ops
}

func (x *H) Apply(op seqmc.Op) *seqmc.Fail {
	mv, mok := x.Model[op.A]
	switch op.Name {
	case "Load":
		v, ok := x.M.Load(op.A)
		if ok != mok || v != mv {
			return seqmc.Failf("Load", "Load(%d) = (%d,%v), map has (%d,%v)", op.A, v, ok, mv, mok)
		}
	case "Store":
		x.M.Store(op.A, op.B)
		x.Model[op.A] = op.B
	case "LoadOrStore":
		v, loaded := x.M.LoadOrStore(op.A, op.B)
		want := op.B
		if mok {
			want = mv
		} else {
			x.Model[op.A] = op.B
		}
		if loaded != mok || v != want {
			return seqmc.Failf("LoadOrStore", "LoadOrStore(%d,%d) = (%d,%v), want (%d,%v)", op.A, op.B, v, loaded, want, mok)
		}
	case "LoadAndDelete":
		v, loaded := x.M.LoadAndDelete(op.A)
		delete(x.Model, op.A)
		if loaded != mok || v != mv {
			return seqmc.Failf("LoadAndDelete", "LoadAndDelete(%d) = (%d,%v), map had (%d,%v)", op.A, v, loaded, mv, mok)
		}
	case "Delete":
		x.M.Delete(op.A)
		delete(x.Model, op.A)
	case "Range":
		seen := map[int]int{}
		calls := 0
		var dup *seqmc.Fail
		x.M.Range(func(k, v int) bool {
			calls++
			if _, ok := seen[k]; ok {
				dup = seqmc.Failf("Range:twice", "Range visited key %d twice", k)
			}
			seen[k] = v
			return op.A == 0 || calls < op.A
		})
		if dup != nil {
			return dup
		}
		for k, v := range seen {
			if w, ok := x.Model[k]; !ok || w != v {
				return seqmc.Failf("Range:value", "Range visited (%d,%d), map has %v", k, v, x.Model)
			}
		}
		if op.A == 0 && len(seen) != len(x.Model) {
			return seqmc.Failf("Range:missed", "Range visited %v, map has %v", seen, x.Model)
		}
		if op.A > 0 {
			want := op.A
			if len(x.Model) < want {
				want = len(x.Model)
			}
			if calls != want {
				return seqmc.Failf("Range:stop", "Range told to stop after %d calls made %d calls on %d keys", op.A, calls, len(x.Model))
			}
		}
	}
	return nil
}

func (x *H) Key() string {
	var ks []int
	for k := range x.Model {
		ks = append(ks, k)
	}
	sort.Ints(ks)
	s := fp.Of(x.M) + "|"
	for _, k := range ks {
		s += fmt.Sprintf("%d=%d,", k, x.Model[k])
	}
	return s
}

func (x *H) Observe() *seqmc.Fail {
	for k := 0; k <= x.Keys; k++ {
		if f := x.Apply(seqmc.Op{Name: "Load", A: k}); f != nil {
			return f
		}
	}
	if f := x.Apply(seqmc.Op{Name: "Range"}); f != nil {
		return f
	}
	for k := 0; k <= x.Keys; k++ {
		if f := x.Apply(seqmc.Op{Name: "Load", A: k}); f != nil {
			return f
		}
	}
	return nil
}

// ModelKey is the layout-independent state key (seqmc falls back to it when the concrete layout of
// the implementation turns out not to be a function of the operation history).
func (x *H) ModelKey() string { return fmt.Sprint(x.Model) }
