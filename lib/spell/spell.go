// Package spell provides small key/element universes for keyed containers in which one logical value
// has several spellings that are EQUAL under == (so a map, a set or a keyed mutex must treat them as
// one key) but differ in representation: +0.0 and -0.0, strings with the same text in different
// memory, interfaces and structs holding those. A harness addresses logical values 0..N-1; successive
// uses rotate through the spellings, so that a value stored under one spelling is looked up, replaced
// and removed under another.
package spell

import "math"

// U is a universe of len(Keys) logical values of type K.
type U[K comparable] struct {
	Name string
	Keys [][]K
	n    []int
}

// Key returns the next spelling of logical value k.
//
//go:norace
func (u *U[K]) Key(k int) K {
	if u.n == nil {
		u.n = make([]int, len(u.Keys))
	}
	u.n[k]++
	return u.Keys[k][u.n[k]%len(u.Keys[k])]
}

// Logical maps a value back to its logical index (-99: none of the universe's values).
func (u *U[K]) Logical(v K) int {
	for k, sp := range u.Keys {
		if sp[0] == v {
			return k
		}
	}
	return -99
}

// N is the number of logical values.
func (u *U[K]) N() int { return len(u.Keys) }

var nz = math.Copysign(0, -1)

func Float64() *U[float64] {
	return &U[float64]{Name: "float64(+0/-0)", Keys: [][]float64{{0, nz}, {1.5}, {-2}}}
}

func String() *U[string] {
	b := []byte("key-x")
	return &U[string]{Name: "string", Keys: [][]string{{"key-x", string(b), string(b[:3]) + "-x"}, {"", string([]byte{})}, {"key-y"}}}
}

func Any() *U[any] {
	return &U[any]{Name: "any(float64,string,int)", Keys: [][]any{{0.0, nz}, {"y", string([]byte("y"))}, {7}}}
}

type FS struct {
	F float64
	S string
}

func Struct() *U[FS] {
	return &U[FS]{Name: "struct{float64,string}", Keys: [][]FS{{{0, "a"}, {nz, string([]byte("a"))}}, {{1, "a"}}, {{0, "b"}}}}
}

func Array() *U[[2]float32] {
	z := float32(nz)
	return &U[[2]float32]{Name: "[2]float32", Keys: [][][2]float32{{{0, 0}, {z, 0}, {0, z}}, {{0, 1}}, {{1, 0}}}}
}

func Complex() *U[complex128] {
	return &U[complex128]{Name: "complex128", Keys: [][]complex128{{0, complex(nz, 0), complex(0, nz)}, {1i}, {1}}}
}

// Pointers: equal pointees, different keys (identity is the key).
func Pointers() *U[*int] {
	return &U[*int]{Name: "*int", Keys: [][]*int{{new(int)}, {new(int)}, {new(int)}}}
}

func Int8() *U[int8] {
	return &U[int8]{Name: "int8", Keys: [][]int8{{-128}, {0}, {127}}}
}

// Phase is the rotation state (part of a harness's state key: it decides the next spellings).
func (u *U[K]) Phase() []int {
	p := make([]int, len(u.Keys))
	for k := range u.n {
		p[k] = u.n[k] % len(u.Keys[k])
	}
	return p
}

// AnyAlike, StringAlike, FloatAlike: DIFFERENT keys that look alike (the same number in different
// dynamic types, a trailing NUL, the smallest positive float next to zero).
func AnyAlike() *U[any] {
	return &U[any]{Name: "any(int 3 / int64 3 / \"3\")", Keys: [][]any{{int(3)}, {int64(3)}, {"3"}}}
}

func StringAlike() *U[string] {
	return &U[string]{Name: "string(a / a+NUL / empty)", Keys: [][]string{{"a", string([]byte("a"))}, {"a\x00"}, {""}}}
}

func FloatAlike() *U[float64] {
	return &U[float64]{Name: "float64(0 / smallest positive / -smallest)", Keys: [][]float64{{0, nz}, {math.SmallestNonzeroFloat64}, {-math.SmallestNonzeroFloat64}}}
}

// Named is a key type with methods (fmt renders it through String, errors through Error).
type Named struct{ N int }

func (n Named) String() string { return "<named " + string(rune('a'+n.N)) + ">" }

type NamedErr struct{ N int }

func (n NamedErr) Error() string { return "err" }

func Stringers() *U[Named] {
	return &U[Named]{Name: "struct with a String method", Keys: [][]Named{{{0}}, {{1}}, {{2}}}}
}

// Errors: interface-typed keys holding comparable error values; NamedErr values render identically.
func Errors() *U[error] {
	return &U[error]{Name: "error", Keys: [][]error{{NamedErr{0}}, {NamedErr{1}}, {NamedErr{2}}}}
}

// Chans: channels as keys (identity).
func Chans() *U[chan int] {
	return &U[chan int]{Name: "chan int", Keys: [][]chan int{{make(chan int)}, {make(chan int, 1)}, {make(chan int)}}}
}

// Liar is a comparable type carrying every conventional method, all of them at odds with ==: Equal
// says yes to everything, Compare/Less/Cmp see no difference, IsZero is true for a non-zero value, and
// String/Error/GoString render all values alike. Code that is specified through == (and through
// fmt.Sprint only where it prints) must not consult them.
type Liar struct{ N int }

func (a Liar) Equal(b Liar) bool  { return true }
func (a Liar) Compare(b Liar) int { return 0 }
func (a Liar) Cmp(b Liar) int     { return 0 }
func (a Liar) Less(b Liar) bool   { return false }
func (a Liar) IsZero() bool       { return a.N == 1 }
func (a Liar) String() string     { return "liar" }
func (a Liar) GoString() string   { return "liar" }
func (a Liar) Hash() uint64       { return 7 }
func (a Liar) Clone() Liar        { return Liar{a.N + 1000} }

func Liars() *U[Liar] {
	return &U[Liar]{Name: "struct whose Equal/Compare/Less/IsZero/String methods disagree with ==", Keys: [][]Liar{{{0}}, {{1}}, {{2}}}}
}
