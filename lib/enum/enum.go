// Package enum is the ENUM engine's bookkeeping: bounded-exhaustive input
// enumeration for stateless functions (explicit-state search of depth 1).
package enum

import (
	"fmt"
	"sync"
	"sync/atomic"

	"verif/lib/ev"
)

type E struct {
	R          *ev.Run
	Inputs     int64 // distinct input configurations enumerated ("states")
	Calls      int64 // calls of the implementation compared with the model ("transitions")
	Nontrivial int64 // inputs that reach the non-degenerate branch

	mu      sync.Mutex
	kept    []kept
	KeptN   int64 // results kept and later re-examined
	keepOff bool
}

type kept struct {
	name   string
	v      any
	snap   string
	replay any
}

// Keep remembers a value that the code under test returned (a slice, a map, a pointer) together
// with its rendering at that moment. The value stays referenced while later calls are made and is
// rendered again when it leaves a window of 48 later results (and at Finish): a result must not
// change because of calls made after it was returned (a scratch buffer or cache shared between calls
// shows here and nowhere else). Callers keep values they own; values the property defines as live
// views (Array2D.Row, Trim results) are not kept across writes to their origin.
func (e *E) Keep(name string, v any, replay any) {
	if e.keepOff {
		return
	}
	k := kept{name, v, fmt.Sprintf("%v", v), replay}
	e.mu.Lock()
	e.kept = append(e.kept, k)
	var old *kept
	if len(e.kept) > 48 {
		o := e.kept[0]
		old = &o
		e.kept = e.kept[1:]
	}
	e.mu.Unlock()
	atomic.AddInt64(&e.KeptN, 1)
	if old != nil {
		e.recheck(*old)
	}
}

func (e *E) recheck(k kept) {
	if now := fmt.Sprintf("%v", k.v); now != k.snap {
		if len(now) > 300 {
			now = now[:300] + "..."
		}
		snap := k.snap
		if len(snap) > 300 {
			snap = snap[:300] + "..."
		}
		e.Fail(k.name+"|result-changed-by-a-later-call", k.replay, "a value returned by %s was %s when it was returned and reads %s after later calls: results are not independent of each other", k.name, snap, now)
	}
}

// Flush re-examines every kept result now.
func (e *E) Flush() {
	e.mu.Lock()
	ks := e.kept
	e.kept = nil
	e.mu.Unlock()
	for _, k := range ks {
		e.recheck(k)
	}
}

func (e *E) Input(nontrivial bool) {
	atomic.AddInt64(&e.Inputs, 1)
	if nontrivial {
		atomic.AddInt64(&e.Nontrivial, 1)
	}
}
func (e *E) Call() { atomic.AddInt64(&e.Calls, 1) }

func (e *E) Fail(sig string, replay any, format string, a ...any) {
	e.R.Report(ev.Violation{Sig: sig, Msg: fmt.Sprintf(format, a...), Replay: replay})
}

// Catch runs f and reports whether it panicked.
func Catch(f func()) (panicked bool, msg string) {
	defer func() {
		if r := recover(); r != nil {
			panicked, msg = true, fmt.Sprint(r)
		}
	}()
	f()
	return
}

func (e *E) Finish(rule string) {
	e.Flush()
	e.R.Set("results_kept_and_re_examined_after_later_calls", e.KeptN)
	e.R.Set("states", e.Inputs)
	e.R.Set("transitions", e.Calls)
	e.R.Set("traces_validated_against_impl", e.Calls)
	e.R.Set("evaluations", e.Calls)
	e.R.Set("distinct_nontrivial", e.Nontrivial)
	e.R.Set("rule", rule)
	e.R.Finish()
}

// LCG is the deterministic pseudo-random sequence of the long-history ("churn") families. The
// families are not samples that decide anything on their own: they drive ONE instance through
// tens of thousands of operations so that behaviour keyed to a count of operations (a counter
// that wraps, periodic maintenance) is reached at all; every step is compared with the model.
type LCG uint32

func (l *LCG) Next(n int) int {
	*l = *l*1664525 + 1013904223
	return int(uint32(*l)>>8) % n
}

// IntTokens extracts the decimal integers (with sign) that occur in s, in order. The String methods of
// the containers are not given a format by the properties; the oracles only require that the rendering
// names the right elements, so they compare these tokens, not the punctuation.
func IntTokens(s string) []int {
	var out []int
	for i := 0; i < len(s); {
		j := i
		if s[j] == '-' && j+1 < len(s) && s[j+1] >= '0' && s[j+1] <= '9' {
			j++
		}
		if s[j] < '0' || s[j] > '9' {
			i++
			continue
		}
		k := j
		n := 0
		for k < len(s) && s[k] >= '0' && s[k] <= '9' {
			n = n*10 + int(s[k]-'0')
			k++
		}
		if j > i {
			n = -n
		}
		out = append(out, n)
		i = k
	}
	return out
}

// SameMultiset reports whether a and b hold the same integers with the same multiplicities.
func SameMultiset(a, b []int) bool {
	if len(a) != len(b) {
		return false
	}
	m := map[int]int{}
	for _, v := range a {
		m[v]++
	}
	for _, v := range b {
		if m[v]--; m[v] < 0 {
			return false
		}
	}
	return true
}

// Wrap runs the "remembered answer across exactly N changes" family: an observer is asked, then a
// run of changes whose LENGTH is N-1, N or N+1 (for every N in ns) is applied - neutral ones that
// leave the observed answer alone and one flip that changes it, first or last in the run - and the
// observer is asked again. It decides observers that remember an answer together with a change
// counter narrower than the number of changes (a counter that wraps after 2^8 / 2^16 changes).
// mk returns a fresh object as three closures; obs returns "" when the observer agrees with the model.
func Wrap(ns []int, mk func() (obs func() string, neutral func(i int), flip func())) (cases int, fail string) {
	for _, n := range ns {
		for _, total := range []int{n - 1, n, n + 1} {
			for _, first := range []bool{false, true} {
				obs, neutral, flip := mk()
				if m := obs(); m != "" {
					return cases, fmt.Sprintf("before any change: %s", m)
				}
				if first {
					flip()
				}
				for i := 0; i < total-1; i++ {
					neutral(i)
				}
				if !first {
					flip()
				}
				cases++
				if m := obs(); m != "" {
					return cases, fmt.Sprintf("observer asked, %d changes applied (the one that changes the answer %s), observer asked again: %s", total, map[bool]string{true: "first", false: "last"}[first], m)
				}
				// and once more after one further flip (an answer remembered by the second call)
				flip()
				if m := obs(); m != "" {
					return cases, fmt.Sprintf("observer asked, %d changes, asked, 1 change, asked again: %s", total, m)
				}
			}
		}
	}
	return cases, ""
}

// WrapLadder is the default ladder of change counts for Wrap.
var WrapLadder = []int{2, 256, 65536, 131072, 1 << 20}
