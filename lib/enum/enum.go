// Package enum is the ENUM engine's bookkeeping: bounded-exhaustive input
// enumeration for stateless functions (explicit-state search of depth 1).
package enum

import (
	"fmt"
	"sync/atomic"

	"verif/lib/ev"
)

type E struct {
	R          *ev.Run
	Inputs     int64 // distinct input configurations enumerated ("states")
	Calls      int64 // calls of the implementation compared with the model ("transitions")
	Nontrivial int64 // inputs that reach the non-degenerate branch
}

func (e *E) Input(nontrivial bool) {
	atomic.AddInt64(&e.Inputs, 1)
	if nontrivial {
		atomic.AddInt64(&e.Nontrivial, 1)
	}
}
func (e *E) Call() { atomic.AddInt64(&e.Calls, 1) }

func (e *E) Fail(sig string, replay any, format string, a ...any) {
	e.R.Report(ev.Violation{Sig: sig, Msg: fmt.Sprintf(format, a...), Replay: replay})
}

// Catch runs f and reports whether it panicked.
func Catch(f func()) (panicked bool, msg string) {
	defer func() {
		if r := recover(); r != nil {
			panicked, msg = true, fmt.Sprint(r)
		}
	}()
	f()
	return
}

func (e *E) Finish(rule string) {
	e.R.Set("states", e.Inputs)
	e.R.Set("transitions", e.Calls)
	e.R.Set("traces_validated_against_impl", e.Calls)
	e.R.Set("evaluations", e.Calls)
	e.R.Set("distinct_nontrivial", e.Nontrivial)
	e.R.Set("rule", rule)
	e.R.Finish()
}

// LCG is the deterministic pseudo-random sequence of the long-history ("churn") families. The
// families are not samples that decide anything on their own: they drive ONE instance through
// tens of thousands of operations so that behaviour keyed to a count of operations (a counter
// that wraps, periodic maintenance) is reached at all; every step is compared with the model.
type LCG uint32

func (l *LCG) Next(n int) int {
	*l = *l*1664525 + 1013904223
	return int(uint32(*l)>>8) % n
}
