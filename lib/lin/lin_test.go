package lin

import "testing"

func TestKV(t *testing.T) {
	// Store(0,5) completes before Load(0) starts: Load must see 5
	ok, _ := CheckKV([Keys]int{}, []Op{{Kind: "Store", Key: 0, Arg: 5, Thread: 0, Inv: 2, Ret: 5}, {Kind: "Load", Key: 0, Val: 5, Ok: true, Thread: 1, Inv: 6, Ret: 9}})
	if !ok {
		t.Error("sequential history rejected")
	}
	ok, _ = CheckKV([Keys]int{}, []Op{{Kind: "Store", Key: 0, Arg: 5, Thread: 0, Inv: 2, Ret: 5}, {Kind: "Load", Key: 0, Thread: 1, Inv: 6, Ret: 9}})
	if ok {
		t.Error("lost store accepted")
	}
	// overlapping: either order is fine
	ok, _ = CheckKV([Keys]int{}, []Op{{Kind: "Store", Key: 0, Arg: 5, Thread: 0, Inv: 2, Ret: 9}, {Kind: "Load", Key: 0, Thread: 1, Inv: 4, Ret: 7}})
	if !ok {
		t.Error("concurrent load before store rejected")
	}
	// two LoadOrStore on an absent key cannot both store
	ok, _ = CheckKV([Keys]int{}, []Op{{Kind: "LoadOrStore", Key: 0, Arg: 1, Val: 1, Thread: 0, Inv: 2, Ret: 9}, {Kind: "LoadOrStore", Key: 0, Arg: 2, Val: 2, Thread: 1, Inv: 4, Ret: 7}})
	if ok {
		t.Error("two successful LoadOrStore stores accepted")
	}
	// Range pseudo-load: a key present and untouched for the whole call must be seen
	ok, _ = CheckKV([Keys]int{3, 0, 0}, []Op{{Kind: "RangeObs", Key: 0, Thread: 100, Inv: 2, Ret: 9}})
	if ok {
		t.Error("Range missing a stable key accepted")
	}
}

func TestSetGroupsAndRegister(t *testing.T) {
	// two overlapping Adds of one value: only one may succeed
	ok, _ := CheckSet([Keys]bool{}, []Op{{Kind: "Add", Key: 0, Ok: true, Thread: 0, Inv: 2, Ret: 9}, {Kind: "Add", Key: 0, Ok: true, Thread: 1, Inv: 4, Ret: 7}})
	if ok {
		t.Error("double successful Add accepted")
	}
	// AddSet({0,1}) returned 1 while value 0 was already present: some assignment works
	ops := []Op{{Kind: "Add", Key: 0, Thread: 100, Inv: 2, Ret: 9}, {Kind: "Add", Key: 1, Thread: 101, Inv: 2, Ret: 9}}
	ok, _ = CheckSetGroups([Keys]bool{true, false, false}, ops, []Group{{Idx: []int{0, 1}, Count: 1}})
	if !ok {
		t.Error("AddSet count 1 rejected")
	}
	ok, _ = CheckSetGroups([Keys]bool{true, false, false}, ops, []Group{{Idx: []int{0, 1}, Count: 2}})
	if ok {
		t.Error("AddSet count 2 accepted although one value was present")
	}
	// register: Swap returns the replaced value; CAS after a store succeeds iff current == old
	ok, _ = CheckRegister(-1, []Op{{Kind: "Store", Arg: 1, Thread: 0, Inv: 2, Ret: 3}, {Kind: "Swap", Arg: 2, Val: 1, Thread: 0, Inv: 4, Ret: 5}, {Kind: "CAS", Key: 2, Arg: 1, Ok: true, Thread: 1, Inv: 6, Ret: 7}, {Kind: "Load", Val: 1, Thread: 1, Inv: 8, Ret: 9}})
	if !ok {
		t.Error("valid register history rejected")
	}
	ok, _ = CheckRegister(-1, []Op{{Kind: "Store", Arg: 1, Thread: 0, Inv: 2, Ret: 3}, {Kind: "CAS", Key: 2, Arg: 5, Ok: true, Thread: 1, Inv: 6, Ret: 7}})
	if ok {
		t.Error("CAS with a wrong old value accepted")
	}
	ok, _ = CheckRegister(-1, []Op{{Kind: "Load", Val: 0, Thread: 0, Inv: 2, Ret: 3}, {Kind: "CAS", Key: 0, Arg: 5, Ok: false, Thread: 1, Inv: 6, Ret: 7}})
	if !ok {
		t.Error("empty register: zero Load / unconstrained CAS rejected")
	}
}
