// Package lin is the linearizability oracle of the SCHED checks: porcupine
// v1.3.0 over the call/return histories recorded under the controlled
// scheduler, with verdicts memoised per distinct history (thousands of
// schedules collapse to tens of histories).
package lin

import (
	"fmt"
	"sort"
	"strings"

	"github.com/anishathalye/porcupine"
)

const Keys = 3

// Op is one recorded API call.
type Op struct {
	Kind     string
	Key, Arg int
	Val      int
	Ok       bool
	Thread   int
	Inv, Ret int
	Dup      bool
}

func (o Op) String() string {
	return fmt.Sprintf("T%d %s(k%d,%d)=(%d,%v)@[%d,%d]", o.Thread, o.Kind, o.Key, o.Arg, o.Val, o.Ok, o.Inv, o.Ret)
}

var memo = map[string]bool{}

func Distinct() int { return len(memo) }

// canon renders a history with stamps replaced by their ranks.
func canon(tag string, ops []Op) string {
	var ts []int
	for _, o := range ops {
		ts = append(ts, o.Inv, o.Ret)
	}
	sort.Ints(ts)
	rank := map[int]int{}
	for _, t := range ts {
		if _, ok := rank[t]; !ok {
			rank[t] = len(rank)
		}
	}
	s := make([]string, len(ops))
	for i, o := range ops {
		s[i] = fmt.Sprintf("%s/%d/%d/%d/%v/%d-%d", o.Kind, o.Key, o.Arg, o.Val, o.Ok, rank[o.Inv], rank[o.Ret])
	}
	sort.Strings(s)
	return tag + strings.Join(s, ";")
}

func outcome(ops []Op) string {
	s := make([]string, 0, len(ops))
	for _, o := range ops {
		if o.Thread < 50 {
			s = append(s, fmt.Sprintf("%d:%s%d=%d%v", o.Thread, o.Kind[:2], o.Key, o.Val, o.Ok))
		}
	}
	sort.Strings(s)
	return strings.Join(s, ",")
}

func run(tag string, model porcupine.Model, ops []Op) (bool, string) {
	key := canon(tag, ops)
	ok, seen := memo[key]
	if !seen {
		pops := make([]porcupine.Operation, len(ops))
		for i, o := range ops {
			pops[i] = porcupine.Operation{ClientId: i, Input: o, Output: o, Call: int64(o.Inv), Return: int64(o.Ret)}
		}
		ok = porcupine.CheckOperations(model, pops)
		memo[key] = ok
	}
	if ok {
		return true, outcome(ops)
	}
	sorted := append([]Op{}, ops...)
	sort.Slice(sorted, func(i, j int) bool { return sorted[i].Inv < sorted[j].Inv })
	var d []string
	for _, o := range sorted {
		d = append(d, o.String())
	}
	return false, strings.Join(d, "  ")
}

// CheckKV: a map from key to value, 0 = absent (stored values are non-zero).
func CheckKV(init [Keys]int, ops []Op) (bool, string) {
	model := porcupine.Model{
		Init: func() any { return init },
		Step: func(state, in, out any) (bool, any) {
			st := state.([Keys]int)
			o := in.(Op)
			cur := st[o.Key]
			switch o.Kind {
			case "Load", "RangeObs":
				return o.Ok == (cur != 0) && o.Val == cur, st
			case "Store":
				st[o.Key] = o.Arg
				return true, st
			case "LoadOrStore":
				if cur != 0 {
					return o.Ok && o.Val == cur, st
				}
				st[o.Key] = o.Arg
				return !o.Ok && o.Val == o.Arg, st
			case "LoadAndDelete":
				st[o.Key] = 0
				return o.Ok == (cur != 0) && o.Val == cur, st
			case "Delete":
				st[o.Key] = 0
				return true, st
			}
			panic("lin: unknown op " + o.Kind)
		},
	}
	return run(fmt.Sprint("kv", init, "|"), model, ops)
}

// CheckSet: membership of Keys values. Ops: Add(Key)->Ok (added), Remove(Key)->Ok (removed),
// Has(Key)->Ok.
func CheckSet(init [Keys]bool, ops []Op) (bool, string) {
	model := porcupine.Model{
		Init: func() any { return init },
		Step: func(state, in, out any) (bool, any) {
			st := state.([Keys]bool)
			o := in.(Op)
			cur := st[o.Key]
			switch o.Kind {
			case "Has":
				return o.Ok == cur, st
			case "Add":
				st[o.Key] = true
				return o.Ok == !cur, st
			case "Remove":
				st[o.Key] = false
				return o.Ok == cur, st
			case "AddIfMember":
				// one element's share of s.AddSet(s): the element is added again only if the walk over
				// the set's own members met it; reporting "nothing gained" is always possible, "gained"
				// only at an instant at which the element is absent (it was removed after the walk met it)
				if !o.Ok {
					return true, st
				}
				st[o.Key] = true
				return !cur, st
			}
			panic("lin: unknown op " + o.Kind)
		},
	}
	return run(fmt.Sprint("set", init, "|"), model, ops)
}

// CheckRegister: one register holding an int, -1 = empty (never stored). Ops:
// Load->Val, Store(Arg), Swap(Arg)->Val, CAS(Key=old,Arg=new)->Ok. An empty register
// reads as 0; CAS on the empty register is unconstrained (either outcome), as the property
// leaves it open, but when it succeeds it stores.
func CheckRegister(init int, ops []Op) (bool, string) {
	type st struct{ v int }
	model := porcupine.NondeterministicModel{
		Init: func() []any { return []any{init} },
		Step: func(state, in, out any) []any {
			cur := state.(int)
			o := in.(Op)
			read := cur
			if cur == -1 {
				read = 0
			}
			switch o.Kind {
			case "Load":
				if o.Val == read {
					return []any{cur}
				}
				return nil
			case "Store":
				return []any{o.Arg}
			case "Swap":
				if o.Val == read {
					return []any{o.Arg}
				}
				return nil
			case "CAS":
				if cur == -1 {
					if o.Ok {
						return []any{o.Arg}
					}
					return []any{cur}
				}
				if o.Ok == (cur == o.Key) {
					if o.Ok {
						return []any{o.Arg}
					}
					return []any{cur}
				}
				return nil
			}
			panic("lin: unknown op " + o.Kind)
		},
		Equal: func(a, b any) bool { return a.(int) == b.(int) },
	}
	_ = st{}
	return run(fmt.Sprint("reg", init, "|"), model.ToModel(), ops)
}

// Group ties pseudo-operations of one composite call (AddSet, RemoveSet, Len) together:
// exactly Count of them have Ok == true, which ones is left open.
type Group struct {
	Idx   []int // indices into ops
	Count int
	Slack int // the number of true flags may be anything in Count-Slack..Count (0: exactly Count)
}

// CheckSetGroups is CheckSet with composite calls decomposed: it succeeds when some
// assignment of the Ok flags inside every group, with the group's count, is linearizable.
func CheckSetGroups(init [Keys]bool, ops []Op, groups []Group) (bool, string) {
	var rec func(g int) (bool, string)
	rec = func(g int) (bool, string) {
		if g == len(groups) {
			return CheckSet(init, ops)
		}
		gr := groups[g]
		n := len(gr.Idx)
		var last string
		for mask := 0; mask < 1<<uint(n); mask++ {
			c := 0
			for i := 0; i < n; i++ {
				if mask>>uint(i)&1 == 1 {
					c++
				}
			}
			if c > gr.Count || c < gr.Count-gr.Slack {
				continue
			}
			for i, ix := range gr.Idx {
				ops[ix].Ok = mask>>uint(i)&1 == 1
			}
			if ok, d := rec(g + 1); ok {
				return true, d
			} else {
				last = d
			}
		}
		if last == "" {
			last = fmt.Sprintf("a composite call reported a count of %d over %d elements", gr.Count, n)
		}
		return false, last
	}
	return rec(0)
}
