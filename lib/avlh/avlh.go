// Package avlh is the SEQ harness shared by C01 (sorted multiset) and C02
// (AVL balance): the real avl.Tree driven next to a sorted-slice model.
package avlh

import (
	"fmt"
	"math"
	"reflect"
	"sort"
	"strings"
	"verif/lib/enum"

	"gopkg.in/typ.v4/avl"
	"verif/lib/fp"
	"verif/lib/seqmc"
)

// K is a struct key used with avl.New and a reversed comparator (a different
// consistent total order than the built-in one).
type K struct{ A int }

type Params struct {
	U        int  // values 0..U-1
	N        int  // size bound
	Distinct bool // never add a value that is already present (shape is then unique)
	Balance  bool // evaluate the AVL balance oracle (C02)
	Struct   bool // use K with a reversed comparator instead of int/NewOrdered
	Clone    bool // offer Clone/Clear transitions
}

// H is one harness instance.
type H[T comparable] struct {
	P     Params
	mk    func(int) T
	un    func(T) int
	cmp   func(a, b T) int
	calls *int
	T     avl.Tree[T]
	model []int // sorted by cmp order of mk(v)
}

func NewInt(p Params) seqmc.Sys {
	calls := new(int)
	h := &H[int]{P: p, mk: func(i int) int { return i }, un: func(i int) int { return i }, calls: calls}
	h.cmp = func(a, b int) int {
		switch {
		case a < b:
			return -1
		case a > b:
			return 1
		}
		return 0
	}
	if p.Balance {
		// same order as NewOrdered, but counting comparator invocations
		h.T = avl.New(func(a, b int) int { *calls++; return h.cmp(a, b) })
	} else {
		h.T = avl.NewOrdered[int]()
	}
	return h
}

func NewStruct(p Params) seqmc.Sys {
	calls := new(int)
	h := &H[K]{P: p, mk: func(i int) K { return K{i} }, un: func(k K) int { return k.A }, calls: calls}
	// reversed, and a legitimate three-way comparator whose results are not just -1/0/+1
	h.cmp = func(a, b K) int { return 3 * (b.A - a.A) }
	h.T = avl.New(func(a, b K) int { *calls++; return h.cmp(a, b) })
	return h
}

func (h *H[T]) count(v int) int {
	n := 0
	for _, m := range h.model {
		if m == v {
			n++
		}
	}
	return n
}

func (h *H[T]) Ops() []seqmc.Op {
	var ops []seqmc.Op
	if len(h.model) < h.P.N {
		for v := 0; v < h.P.U; v++ {
			if h.P.Distinct && h.count(v) > 0 {
				continue
			}
			ops = append(ops, seqmc.Op{Name: "Add", A: v})
		}
	}
	for v := -1; v <= h.P.U; v++ {
		ops = append(ops, seqmc.Op{Name: "Remove", A: v})
	}
	if h.P.Clone {
		ops = append(ops, seqmc.Op{Name: "Clear"}, seqmc.Op{Name: "Clone"}, seqmc.Op{Name: "CloneMutate"})
	}
	return ops
}

func (h *H[T]) less(a, b int) bool { return h.cmp(h.mk(a), h.mk(b)) < 0 }

type obs struct {
	Len           int
	Pre, In, Post []int
}

func (h *H[T]) observe() obs {
	conv := func(s []T) []int {
		r := make([]int, len(s))
		for i, v := range s {
			r[i] = h.un(v)
		}
		return r
	}
	pre, in, post := h.T.SlicePreOrder(), h.T.SliceInOrder(), h.T.SlicePostOrder()
	if Ledger != nil {
		// the returned slices stay referenced and are read again after many later calls (on this and
		// on other trees): a slice that was returned must not change afterwards
		Ledger.Keep("SlicePreOrder", pre, nil)
		Ledger.Keep("SliceInOrder", in, nil)
		Ledger.Keep("SlicePostOrder", post, nil)
	}
	return obs{h.T.Len(), conv(pre), conv(in), conv(post)}
}

// Ledger, when set by a check's main, receives the slices returned by the Slice* observers.
var Ledger *enum.E

func (h *H[T]) Apply(op seqmc.Op) *seqmc.Fail {
	switch op.Name {
	case "Add":
		h.T.Add(h.mk(op.A))
		i := sort.Search(len(h.model), func(i int) bool { return h.less(op.A, h.model[i]) })
		h.model = append(h.model, 0)
		copy(h.model[i+1:], h.model[i:])
		h.model[i] = op.A
	case "Remove":
		present := h.count(op.A) > 0
		var before obs
		if !present {
			before = h.observe()
		}
		got := h.T.Remove(h.mk(op.A))
		if got != present {
			return seqmc.Failf("Remove:result", "Remove(%d) = %v, model says present=%v (contents %v)", op.A, got, present, h.model)
		}
		if present {
			for i, m := range h.model {
				if m == op.A {
					h.model = append(h.model[:i:i], h.model[i+1:]...)
					break
				}
			}
		} else {
			after := h.observe()
			if !reflect.DeepEqual(before, after) {
				return seqmc.Failf("Remove(absent):changed-state", "Remove(%d) of an absent value returned false but changed the tree: before %+v after %+v", op.A, before, after)
			}
		}
	case "Clear":
		h.T.Clear()
		h.model = nil
	case "Clone":
		orig := h.observe()
		c := h.T.Clone()
		old := h.T
		h.T = c
		co := h.observe()
		if co.Len != orig.Len || !reflect.DeepEqual(co.In, orig.In) {
			return seqmc.Failf("Clone:contents", "Clone of %+v has contents %+v", orig, co)
		}
		// shares no state, judged by what can be OBSERVED (sharing that no sequence of calls can see -
		// copy-on-write, a common allocator - is not a defect): the old tree is driven through every
		// kind of mutation, the clone's observers must not move, and the search CONTINUES on the clone
		// with the mutated original still alive, so damage that only shows later is found in the
		// successors of this state (its fingerprint is part of the state key)
		// (three holders at a time: a second clone of the old tree is mutated first, then the old tree)
		c3 := old.Clone()
		for _, victim := range []*avl.Tree[T]{&c3, &old} {
			for i := 0; i <= h.P.U+2; i++ {
				h.cloneStep(victim, i)
				if now := h.observe(); !reflect.DeepEqual(now, co) {
					return seqmc.Failf("Clone:shares-state", "mutation %d of another copy changed this clone: %+v -> %+v", i, co, now)
				}
			}
		}
	case "CloneMutate":
		// the other direction: a clone and the clone's clone are driven through every kind of mutation;
		// the search continues on the ORIGINAL
		before := h.observe()
		c2 := h.T.Clone()
		c3 := c2.Clone()
		for _, victim := range []*avl.Tree[T]{&c2, &c3} {
			for i := 0; i <= h.P.U+2; i++ {
				h.cloneStep(victim, i)
				if now := h.observe(); !reflect.DeepEqual(now, before) {
					return seqmc.Failf("Clone:shares-state", "mutation %d of a clone changed the original tree: %+v -> %+v", i, before, now)
				}
			}
		}
	default:
		panic("unknown op " + op.Name)
	}
	return nil
}

func (h *H[T]) cloneStep(t *avl.Tree[T], i int) {
	switch {
	case i == 0:
		t.Add(h.mk(h.P.U - 1))
	case i == 1:
		t.Add(h.mk(0))
	case i-2 < h.P.U:
		t.Remove(h.mk(i - 2))
	default:
		t.Clear()
	}
}

func (h *H[T]) Key() string { return fp.Of(&h.T) }

func (h *H[T]) Observe() *seqmc.Fail {
	o := h.observe()
	want := append([]int{}, h.model...)
	if o.Len != len(want) {
		return seqmc.Failf("Len", "Len() = %d, model has %d values %v", o.Len, len(want), want)
	}
	if !eq(o.In, want) {
		return seqmc.Failf("InOrder", "SliceInOrder() = %v, want %v", o.In, want)
	}
	if len(o.Pre) != len(want) || len(o.Post) != len(want) {
		return seqmc.Failf("Traversal:length", "pre %v post %v in %v", o.Pre, o.Post, o.In)
	}
	for v := -1; v <= h.P.U; v++ {
		if got, w := h.T.Contains(h.mk(v)), h.count(v) > 0; got != w {
			return seqmc.Failf("Contains", "Contains(%d) = %v, want %v (contents %v, pre-order %v)", v, got, w, want, o.Pre)
		}
	}
	// Walk* agree with Slice*
	for i, pair := range []struct {
		walk func(func(T))
		sl   []int
	}{{h.T.WalkPreOrder, o.Pre}, {h.T.WalkInOrder, o.In}, {h.T.WalkPostOrder, o.Post}} {
		var got []int
		pair.walk(func(v T) { got = append(got, h.un(v)) })
		if !eq(got, pair.sl) {
			return seqmc.Failf("Walk!=Slice", "walk %d visits %v, slice is %v", i, got, pair.sl)
		}
	}
	// String
	{
		vals := make([]T, len(want))
		for i, v := range want {
			vals[i] = h.mk(v)
		}
		// no format is promised: the rendering must name exactly the contents
		_ = vals
		if got := h.T.String(); !enum.SameMultiset(enum.IntTokens(got), want) {
			return seqmc.Failf("String", "String() = %q, contents %v", got, want)
		}
	}
	// observers called from inside a walk's callback (read-only re-entrancy on the same tree): the outer
	// walk must still visit what it visits on its own, and the inner observers must see the whole tree
	for i, pair := range []struct {
		walk func(func(T))
		sl   []int
	}{{h.T.WalkPreOrder, o.Pre}, {h.T.WalkInOrder, o.In}, {h.T.WalkPostOrder, o.Post}} {
		var got []int
		var inner string
		pair.walk(func(v T) {
			got = append(got, h.un(v))
			var a, b, c []int
			h.T.WalkInOrder(func(x T) { a = append(a, h.un(x)) })
			h.T.WalkPreOrder(func(x T) { b = append(b, h.un(x)) })
			for _, x := range h.T.SlicePostOrder() {
				c = append(c, h.un(x))
			}
			str := h.T.String()
			if inner == "" && (!eq(a, o.In) || !eq(b, o.Pre) || !eq(c, o.Post) || h.T.Len() != len(want) || !h.T.Contains(v)) {
				inner = fmt.Sprintf("inside the callback for %d: in-order %v pre-order %v post-order %v Len %d String %q", h.un(v), a, b, c, h.T.Len(), str)
			}
		})
		if inner != "" {
			return seqmc.Failf("Walk:nested-observers", "observers called from the callback of walk %d see a different tree (%s); the tree holds %v", i, inner, want)
		}
		if !eq(got, pair.sl) {
			return seqmc.Failf("Walk:nested-observers", "walk %d whose callback calls other observers of the same tree visits %v, on its own it visits %v", i, got, pair.sl)
		}
	}
	// pre/in/post are three traversals of one binary tree
	shapes := trees(o.Pre, o.In, o.Post, h.P.Balance)
	if len(shapes) == 0 {
		return seqmc.Failf("Traversal:inconsistent", "no binary tree has pre-order %v, in-order %v and post-order %v", o.Pre, o.In, o.Post)
	}
	if h.P.Balance {
		n := len(want)
		okBal := false
		minDepth := 1 << 30
		for _, s := range shapes {
			if s.balanced {
				okBal = true
			}
			if s.height < minDepth {
				minDepth = s.height
			}
		}
		if !okBal {
			return seqmc.Failf("Balance", "tree with pre-order %v / in-order %v is not height-balanced (height %d for %d values)", o.Pre, o.In, minDepth, n)
		}
		bound := depthBound(n)
		if n > 0 && minDepth > bound {
			return seqmc.Failf("Depth", "height %d exceeds 1.4405*log2(n+2) = %d for n=%d", minDepth, bound, n)
		}
		// comparator-call budget of the next Contains, for every value
		budget := 2*bound + 2
		for v := -1; v <= h.P.U; v++ {
			*h.calls = 0
			h.T.Contains(h.mk(v))
			if *h.calls > budget {
				return seqmc.Failf("Cost", "Contains(%d) made %d comparator calls on %d values (budget %d)", v, *h.calls, n, budget)
			}
		}
	}
	return nil
}

// depthBound is floor(1.4405*log2(n+2)), the classical AVL height bound (in levels).
func depthBound(n int) int {
	return int(math.Floor(1.4405 * math.Log2(float64(n+2))))
}

func eq(a, b []int) bool {
	if len(a) != len(b) {
		return false
	}
	for i := range a {
		if a[i] != b[i] {
			return false
		}
	}
	return true
}

type shape struct {
	height   int // levels: empty = 0, leaf = 1
	balanced bool
}

// trees enumerates the shapes of all binary trees whose three traversals are
// the given sequences (unique when values are distinct). When all is false it
// stops at the first tree found.
func trees(pre, in, post []int, all bool) []shape {
	n := len(pre)
	if n == 0 {
		return []shape{{0, true}}
	}
	if len(in) != n || len(post) != n || pre[0] != post[n-1] {
		return nil
	}
	var out []shape
	root := pre[0]
	for i := 0; i < n; i++ {
		if in[i] != root {
			continue
		}
		ls := trees(pre[1:1+i], in[:i], post[:i], all)
		if len(ls) == 0 {
			continue
		}
		rs := trees(pre[1+i:], in[i+1:], post[i:n-1], all)
		for _, l := range ls {
			for _, r := range rs {
				h := l.height
				if r.height > h {
					h = r.height
				}
				d := l.height - r.height
				out = append(out, shape{h + 1, l.balanced && r.balanced && d >= -1 && d <= 1})
				if !all {
					return out
				}
			}
		}
	}
	// de-duplicate
	seen := map[shape]bool{}
	var u []shape
	for _, s := range out {
		if !seen[s] {
			seen[s] = true
			u = append(u, s)
		}
	}
	return u
}

// ---------------------------------------------------------------- removal families

// BuildOrders are deterministic insertion orders of the values 0..n-1.
var BuildOrders = []struct {
	Name string
	F    func(n int) []int
}{
	{"asc", func(n int) []int { return perm(n, func(i int) int { return i }) }},
	{"desc", func(n int) []int { return perm(n, func(i int) int { return n - 1 - i }) }},
	{"level-order", levelOrder},
	{"scramble7", func(n int) []int { return scramble(n, 7) }},
	{"scramble13", func(n int) []int { return scramble(n, 13) }},
	{"inside-out", func(n int) []int {
		var o []int
		lo, hi := (n-1)/2, (n-1)/2+1
		for lo >= 0 || hi < n {
			if lo >= 0 {
				o = append(o, lo)
				lo--
			}
			if hi < n {
				o = append(o, hi)
				hi++
			}
		}
		return o
	}},
	{"zigzag", func(n int) []int {
		var o []int
		for i, j := 0, n-1; i <= j; i, j = i+1, j-1 {
			o = append(o, i)
			if i != j {
				o = append(o, j)
			}
		}
		return o
	}},
}

func perm(n int, f func(int) int) []int {
	o := make([]int, n)
	for i := range o {
		o[i] = f(i)
	}
	return o
}

// scramble is i*m mod n' over the smallest n' >= n coprime with m, filtered to < n: a permutation.
func scramble(n, m int) []int {
	np := n
	for gcd(np, m) != 1 {
		np++
	}
	var o []int
	for i := 0; i < np; i++ {
		if v := (i*m + 3) % np; v < n {
			o = append(o, v)
		}
	}
	return o
}

func gcd(a, b int) int {
	for b != 0 {
		a, b = b, a%b
	}
	return a
}

// levelOrder inserts the median first, then the medians of the halves, ...: a perfectly
// balanced tree without any rotation.
func levelOrder(n int) []int {
	var o []int
	type seg struct{ lo, hi int }
	q := []seg{{0, n - 1}}
	for len(q) > 0 {
		s := q[0]
		q = q[1:]
		if s.lo > s.hi {
			continue
		}
		m := (s.lo + s.hi + 1) / 2
		o = append(o, m)
		q = append(q, seg{s.lo, m - 1}, seg{m + 1, s.hi})
	}
	return o
}

// CheckTree verifies contents (Len, in-order = sorted want, every traversal a permutation) and,
// when balance is set, the AVL balance and depth bound of the tree reconstructed from the
// pre-order and in-order traversals (values must be distinct then).
func CheckTree(t *avl.Tree[int], want []int, balance bool) string {
	if t.Len() != len(want) {
		return fmt.Sprintf("Len = %d, want %d", t.Len(), len(want))
	}
	in, pre := t.SliceInOrder(), t.SlicePreOrder()
	if !eq(in, want) {
		return fmt.Sprintf("in-order %v, want %v", in, want)
	}
	if len(pre) != len(want) {
		return fmt.Sprintf("pre-order has %d values, want %d", len(pre), len(want))
	}
	if !balance {
		return ""
	}
	return CheckShape(in, pre)
}

// CheckShape verifies the AVL balance and the depth bound of the tree reconstructed from its in-order and
// pre-order traversals (distinct values).
func CheckShape(in, pre []int) string {
	pos := make(map[int]int, len(in))
	for i, v := range in {
		pos[v] = i
	}
	idx := 0
	bad := ""
	var rec func(lo, hi int) int
	rec = func(lo, hi int) int {
		if lo > hi || idx >= len(pre) {
			return 0
		}
		root := pre[idx]
		p, ok := pos[root]
		if !ok || p < lo || p > hi {
			if bad == "" {
				bad = fmt.Sprintf("pre-order %v and in-order %v are not traversals of one tree", pre, in)
			}
			return 0
		}
		idx++
		l := rec(lo, p-1)
		r := rec(p+1, hi)
		if d := l - r; (d < -1 || d > 1) && bad == "" {
			bad = fmt.Sprintf("balance violated at node %d: left height %d, right height %d (pre-order %v)", root, l, r, pre)
		}
		if l > r {
			return l + 1
		}
		return r + 1
	}
	h := rec(0, len(in)-1)
	if bad != "" {
		return bad
	}
	if idx != len(pre) {
		return fmt.Sprintf("pre-order %v and in-order %v are not traversals of one tree", pre, in)
	}
	if len(in) > 0 && h > depthBound(len(in)) {
		return fmt.Sprintf("depth %d exceeds 1.4405*log2(n+2) = %d for n=%d", h, depthBound(len(in)), len(in))
	}
	return ""
}

// NewTree builds the int trees of the families below. The default is avl.NewOrdered; Magnitude is the
// same order through avl.New with a comparator that returns differences (any negative / positive
// number is a legitimate answer of a three-way comparator, not only -1 / +1).
var NewTree = func() avl.Tree[int] { return avl.NewOrdered[int]() }

func Magnitude() avl.Tree[int] { return avl.New(func(a, b int) int { return 7 * (a - b) }) }

// RemovalFamilies: for every size n in 1..maxN and every build order, a fresh tree of the values
// 0..n-1 is built and then (a) every single value is removed from it, (b) for n <= pairsN every
// ordered pair of values is removed; the tree is checked after each removal. trace is called
// before each case. It returns the number of cases and the first failure.
func RemovalFamilies(maxN, pairsN int, balance bool, trace func(v any)) (cases int, fail string, replay any) {
	build := func(order []int) avl.Tree[int] {
		t := NewTree()
		for _, v := range order {
			t.Add(v)
		}
		return t
	}
	without := func(n int, gone ...int) []int {
		var w []int
		for v := 0; v < n; v++ {
			skip := false
			for _, g := range gone {
				if g == v {
					skip = true
				}
			}
			if !skip {
				w = append(w, v)
			}
		}
		return w
	}
	for n := 1; n <= maxN; n++ {
		for _, bo := range BuildOrders {
			order := bo.F(n)
			for a := 0; a < n; a++ {
				rp := map[string]any{"family": "build-then-remove", "build_order": bo.Name, "n": n, "remove": []int{a}}
				if trace != nil {
					trace(rp)
				}
				cases++
				t := build(order)
				if !t.Remove(a) {
					return cases, fmt.Sprintf("Remove(%d) returned false on a tree of 0..%d built in %s order", a, n-1, bo.Name), rp
				}
				if m := CheckTree(&t, without(n, a), balance); m != "" {
					return cases, fmt.Sprintf("tree of 0..%d built in %s order, after Remove(%d): %s", n-1, bo.Name, a, m), rp
				}
				if n > pairsN {
					continue
				}
				for b := 0; b < n; b++ {
					if b == a {
						continue
					}
					rp2 := map[string]any{"family": "build-then-remove", "build_order": bo.Name, "n": n, "remove": []int{a, b}}
					if trace != nil {
						trace(rp2)
					}
					cases++
					t2 := build(order)
					t2.Remove(a)
					t2.Remove(b)
					if m := CheckTree(&t2, without(n, a, b), balance); m != "" {
						return cases, fmt.Sprintf("tree of 0..%d built in %s order, after Remove(%d), Remove(%d): %s", n-1, bo.Name, a, b, m), rp2
					}
				}
			}
		}
	}
	return cases, "", nil
}

// Churn drives ONE tree through n operations over `vals` distinct values (duplicates allowed
// when dups is set), checking every call's result against a count model and the whole tree
// (contents and, when balance is set and values are distinct, AVL balance) every 499 calls.
func Churn(n, vals int, dups, balance bool, trace func(any)) (fail string, replay any) {
	t := NewTree()
	count := map[int]int{}
	size := 0
	var x uint32 = 2463534242
	full := func(i int) string {
		var want []int
		for v := 0; v < vals; v++ {
			for k := 0; k < count[v]; k++ {
				want = append(want, v)
			}
		}
		if m := CheckTree(&t, want, balance && !dups); m != "" {
			return fmt.Sprintf("after %d operations on one tree: %s", i, m)
		}
		return ""
	}
	for i := 0; i < n; i++ {
		x = x*1664525 + 1013904223
		v, op := int(x>>8)%vals, int(x>>24)%8
		if trace != nil {
			trace(map[string]any{"family": "churn", "step": i, "op": op, "value": v})
		}
		switch {
		case op < 4 && (dups || count[v] == 0) && size < 3*vals:
			t.Add(v)
			count[v]++
			size++
		case op < 7:
			want := count[v] > 0
			if got := t.Remove(v); got != want {
				return fmt.Sprintf("operation %d: Remove(%d) = %v, want %v (size %d)", i, v, got, want, size), map[string]any{"family": "churn", "step": i}
			}
			if want {
				count[v]--
				size--
			}
		default:
			if i%20000 == 19999 {
				t.Clear()
				count, size = map[int]int{}, 0
			}
		}
		if t.Contains(v) != (count[v] > 0) || t.Len() != size {
			return fmt.Sprintf("operation %d (op %d on %d): Contains = %v want %v, Len = %d want %d", i, op, v, t.Contains(v), count[v] > 0, t.Len(), size), map[string]any{"family": "churn", "step": i}
		}
		if i%499 == 0 {
			if m := full(i + 1); m != "" {
				return m, map[string]any{"family": "churn", "step": i}
			}
		}
	}
	if m := full(n); m != "" {
		return m, map[string]any{"family": "churn", "step": n}
	}
	return "", nil
}

// GoTest renders a failing operation path as a plain Go test against the public API (no
// explorer): the calls, then the observations the sorted-multiset model expects.
func GoTest(p Params, str bool) func(path []seqmc.Op) string {
	return func(path []seqmc.Op) string {
		var sb strings.Builder
		sb.WriteString("package avl_test\n\nimport (\n\t\"reflect\"\n\t\"testing\"\n\n\t\"gopkg.in/typ.v4/avl\"\n)\n\n")
		sb.WriteString("func TestReplay(t *testing.T) {\n")
		val := func(v int) string { return fmt.Sprint(v) }
		if str {
			sb.WriteString("\ttype K struct{ A int }\n\ttr := avl.New(func(a, b K) int { return 3 * (b.A - a.A) }) // reversed order, results beyond -1/0/+1\n")
			val = func(v int) string { return fmt.Sprintf("K{%d}", v) }
		} else {
			sb.WriteString("\ttr := avl.NewOrdered[int]()\n")
		}
		var model []int
		less := func(a, b int) bool {
			if str {
				return a > b
			}
			return a < b
		}
		for _, op := range path {
			switch op.Name {
			case "Add":
				fmt.Fprintf(&sb, "\ttr.Add(%s)\n", val(op.A))
				i := sort.Search(len(model), func(i int) bool { return less(op.A, model[i]) })
				model = append(model, 0)
				copy(model[i+1:], model[i:])
				model[i] = op.A
			case "Remove":
				present := false
				for i, m := range model {
					if m == op.A {
						model = append(model[:i:i], model[i+1:]...)
						present = true
						break
					}
				}
				fmt.Fprintf(&sb, "\tif got := tr.Remove(%s); got != %v {\n\t\tt.Errorf(\"Remove(%s) = %%v, want %v\", got)\n\t}\n", val(op.A), present, val(op.A), present)
			case "Clear":
				sb.WriteString("\ttr.Clear()\n")
				model = nil
			case "Clone":
				sb.WriteString("\told := tr\n\ttr = tr.Clone()\n\told.Add(0)\n\told.Clear() // the original is mutated, the clone must not notice\n")
			case "CloneMutate":
				sb.WriteString("\t{\n\t\tc := tr.Clone()\n\t\tc.Add(0)\n\t\tc.Clear() // a clone is mutated, the original must not notice\n\t}\n")
			}
		}
		vals := make([]string, len(model))
		for i, v := range model {
			vals[i] = val(v)
		}
		typ := "int"
		if str {
			typ = "K"
		}
		fmt.Fprintf(&sb, "\tif tr.Len() != %d {\n\t\tt.Errorf(\"Len = %%d, want %d\", tr.Len())\n\t}\n", len(model), len(model))
		fmt.Fprintf(&sb, "\twant := []%s{%s}\n\tif got := tr.SliceInOrder(); len(got) != len(want) || (len(want) > 0 && !reflect.DeepEqual(got, want)) {\n\t\tt.Errorf(\"SliceInOrder = %%v, want %%v\", got, want)\n\t}\n", typ, strings.Join(vals, ", "))
		sb.WriteString("\tt.Logf(\"pre-order %v post-order %v\", tr.SlicePreOrder(), tr.SlicePostOrder())\n}\n")
		return sb.String()
	}
}

// DeepTree builds the sparsest AVL tree with `levels` levels (a Fibonacci tree: Fib(levels+2)-1 nodes, the
// left subtree one level taller everywhere) by inserting its keys level by level, which needs no rotation,
// and then keeps inserting and removing below its deepest leaf. It reaches descents of more than 32 / 40
// steps, which no tree of fewer than several million nodes has. The shape is read off the pre-order of the
// keys 1..n (in-order is the identity), the AVL condition is checked at every node after each phase.
// It returns the number of nodes, the number of calls and the first failure.
func DeepTree(levels int, trace func(any)) (nodes, calls int, fail string) {
	size := make([]int, levels+1)
	for h := 1; h <= levels; h++ {
		size[h] = 1
		if h >= 2 {
			size[h] = size[h-1] + size[h-2] + 1
		}
	}
	n := size[levels]
	t := NewTree()
	type sub struct{ lo, h int }
	queue := make([]sub, 0, 1<<20)
	queue = append(queue, sub{1, levels})
	for len(queue) > 0 {
		s := queue[0]
		queue = queue[1:]
		if s.h == 0 {
			continue
		}
		root := s.lo + size[s.h-1]
		t.Add(root)
		calls++
		queue = append(queue, sub{s.lo, s.h - 1})
		if s.h >= 2 {
			queue = append(queue, sub{root + 1, s.h - 2})
		}
	}
	queue = nil
	// keys below 1 are added later: the checker works on keys lo..hi
	check := func(what string, lo, hi int) string {
		if trace != nil {
			trace(map[string]any{"family": "deep-tree", "levels": levels, "phase": what})
		}
		pre := t.SlicePreOrder()
		if len(pre) != hi-lo+1 || t.Len() != len(pre) {
			return fmt.Sprintf("%s: Len = %d, pre-order has %d keys, want %d", what, t.Len(), len(pre), hi-lo+1)
		}
		idx := 0
		bad := ""
		var build func(lo, hi int) int
		build = func(lo, hi int) int {
			if lo > hi || bad != "" {
				return 0
			}
			if idx >= len(pre) || pre[idx] < lo || pre[idx] > hi {
				bad = fmt.Sprintf("pre-order position %d does not fit a search tree over %d..%d", idx, lo, hi)
				return 0
			}
			root := pre[idx]
			idx++
			hl := build(lo, root-1)
			hr := build(root+1, hi)
			if d := hl - hr; (d > 1 || d < -1) && bad == "" {
				bad = fmt.Sprintf("balance violated at node %d: left height %d, right height %d", root, hl, hr)
			}
			if hl > hr {
				return hl + 1
			}
			return hr + 1
		}
		height := build(lo, hi)
		if bad == "" && height > depthBound(len(pre)) {
			bad = fmt.Sprintf("depth %d exceeds 1.4405*log2(n+2) = %d for n=%d", height, depthBound(len(pre)), len(pre))
		}
		if bad != "" {
			return fmt.Sprintf("%s (%d nodes, built with %d levels): %s", what, len(pre), levels, bad)
		}
		return ""
	}
	if m := check("after building the sparsest tree level by level", 1, n); m != "" {
		return n, calls, m
	}
	lo := 1
	for i := 0; i < 3; i++ { // below the deepest leaf
		lo--
		t.Add(lo)
		calls++
	}
	if m := check("after 3 insertions below the deepest leaf", lo, n); m != "" {
		return n, calls, m
	}
	for i := 0; i < 60; i++ {
		lo--
		t.Add(lo)
		calls++
	}
	if m := check("after 63 insertions below the deepest leaf", lo, n); m != "" {
		return n, calls, m
	}
	for i := 0; i < 40; i++ { // remove the smallest keys again (deep descents of Remove)
		if !t.Remove(lo) || t.Contains(lo) {
			return n, calls, fmt.Sprintf("Remove(%d) of the smallest key of a %d-level tree failed", lo, levels)
		}
		lo++
		calls += 2
	}
	if m := check("after removing the 40 smallest keys", lo, n); m != "" {
		return n, calls, m
	}
	if !t.Contains(n) || !t.Contains(lo) || t.Contains(n+1) {
		return n, calls, "Contains on the extreme keys of the deep tree"
	}
	return n, calls, ""
}

// ClearReuse: ONE tree is filled with n values, cleared, and filled again (several rounds, ascending and
// scrambled); contents and - when balance is set - the AVL shape are checked after every refill step of
// the first 40 values and at the end of each round. A Clear that keeps something of the old tree around
// (recycled nodes, cached sizes) shows in the refill.
func ClearReuse(n int, balance bool, trace func(any)) (calls int, fail string) {
	t := NewTree()
	for round := 0; round < 3; round++ {
		if trace != nil {
			trace(map[string]any{"family": "clear-reuse", "n": n, "round": round})
		}
		for i := 0; i < n; i++ {
			v := i
			if round == 1 {
				v = (i*7919 + 13) % n
			}
			t.Add(v)
			calls++
		}
		if t.Len() != n {
			return calls, fmt.Sprintf("round %d: Len = %d after adding %d distinct values", round, t.Len(), n)
		}
		if round == 1 {
			want := make([]int, n)
			for i := range want {
				want[i] = i
			}
			if m := CheckTree(&t, want, balance); m != "" {
				return calls, fmt.Sprintf("tree of %d values, round %d (after an earlier Clear): %s", n, round, m)
			}
		}
		t.Clear()
		calls++
		if t.Len() != 0 || t.Contains(0) || len(t.SliceInOrder()) != 0 {
			return calls, fmt.Sprintf("after Clear of %d values: Len %d, Contains(0) %v", n, t.Len(), t.Contains(0))
		}
		var want []int
		for i := 0; i < 40 && i < n; i++ {
			t.Add(i)
			want = append(want, i)
			calls++
			if m := CheckTree(&t, want, balance); m != "" {
				return calls, fmt.Sprintf("a tree of %d values was cleared; refill step %d: %s", n, i, m)
			}
		}
		t.Clear()
	}
	return calls, ""
}

// PanickingComparator: a comparator that panics at its k-th call inside Add / Remove / Contains (the caller
// recovers). Afterwards Len must equal the number of values the walks list, and the contents must be
// either what they were or the completed operation's result.
func PanickingComparator() (cases int, fail string) {
	c1, f := PanickingComparatorT("int", func(i int) int { return i }, func(v int) int { return v })
	if f != "" {
		return c1, f
	}
	// an element type of 520 bytes (insertion / removal strategies that depend on the element size)
	type big [65]int64
	c2, f := PanickingComparatorT("[65]int64", func(i int) big { var b big; b[0], b[64] = int64(i), int64(-i); return b }, func(v big) int { return int(v[0]) })
	return c1 + c2, f
}

// PanickingComparatorT: trees of 0..9 values of element type T; one Add / Remove / Contains whose comparator
// panics at its k-th call, recovered by the caller: the tree holds its old or its new contents with a
// matching Len - and it stays a healthy AVL tree: every value is then removed, one at a time, with the
// balance checked after every removal (a node left half-attached with stale heights shows only later).
func PanickingComparatorT[T comparable](tname string, mk func(int) T, key func(T) int) (cases int, fail string) {
	ints := func(s []T) []int {
		out := make([]int, len(s))
		for i, v := range s {
			out[i] = key(v)
		}
		return out
	}
	for n := 0; n <= 9; n++ {
		for _, op := range []string{"Add", "Remove", "Contains"} {
			for v := -1; v <= 2*n+1; v++ {
				for k := 1; k <= 6; k++ {
					armed, calls := false, 0
					t := avl.New(func(a, b T) int {
						if armed {
							if calls++; calls == k {
								panic("comparator failed")
							}
						}
						return key(a) - key(b)
					})
					var before []int
					for i := 0; i < n; i++ {
						idx := i / 2 // even values, inserted alternately from both ends
						if i%2 == 1 {
							idx = n - 1 - i/2
						}
						t.Add(mk(2 * idx))
						before = append(before, 2*i)
					}
					armed = true
					completed := false
					func() {
						defer func() { recover() }()
						switch op {
						case "Add":
							t.Add(mk(v))
						case "Remove":
							t.Remove(mk(v))
						default:
							t.Contains(mk(v))
						}
						completed = true
					}()
					armed = false
					cases++
					after := append([]int{}, before...)
					switch op {
					case "Add":
						after = append(after, v)
						sort.Ints(after)
					case "Remove":
						if i := sort.SearchInts(after, v); i < len(after) && after[i] == v {
							after = append(after[:i], after[i+1:]...)
						}
					}
					in := ints(t.SliceInOrder())
					okC := eq(in, after) || (!completed && eq(in, before))
					if !okC || t.Len() != len(in) || len(t.SlicePreOrder()) != len(in) {
						return cases, fmt.Sprintf("(%s) tree %v: %s(%d) with a comparator that panics at its call %d (completed=%v, recovered): in-order %v, Len %d; want %v or %v with a matching Len", tname, before, op, v, k, completed, in, t.Len(), before, after)
					}
					distinct := true
					for i := 1; i < len(in); i++ {
						distinct = distinct && in[i] != in[i-1]
					}
					if !distinct {
						continue
					}
					if m := CheckShape(in, ints(t.SlicePreOrder())); m != "" {
						return cases, fmt.Sprintf("(%s) tree %v after %s(%d) whose comparator panicked at its call %d (recovered): %s", tname, before, op, v, k, m)
					}
					rest := append([]int{}, in...)
					for len(rest) > 0 {
						x := rest[len(rest)/2]
						if !t.Remove(mk(x)) {
							return cases, fmt.Sprintf("(%s) tree %v after %s(%d) whose comparator panicked at its call %d (recovered): later Remove(%d) = false", tname, before, op, v, k, x)
						}
						rest = append(rest[:len(rest)/2], rest[len(rest)/2+1:]...)
						got := ints(t.SliceInOrder())
						if !eq(got, rest) {
							return cases, fmt.Sprintf("(%s) tree %v after %s(%d) whose comparator panicked at its call %d (recovered), then Remove(%d): in-order %v, want %v", tname, before, op, v, k, x, got, rest)
						}
						if m := CheckShape(got, ints(t.SlicePreOrder())); m != "" {
							return cases, fmt.Sprintf("(%s) tree %v after %s(%d) whose comparator panicked at its call %d (recovered), then Remove(%d): %s", tname, before, op, v, k, x, m)
						}
					}
				}
			}
		}
	}
	return cases, ""
}

// ModelKey is the layout-independent state key (see seqmc.ModelKeyer).
func (h *H[T]) ModelKey() string { return fmt.Sprint(h.model) }
