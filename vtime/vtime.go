// Package vtime replaces package time in the instrumented build with an
// *untimed* abstraction: a started timer may fire at any later scheduling point
// until it is stopped. This is a superset of every real timing.
package vtime

import (
	"time"
	"unsafe"

	"verif/vrt"
)

type Duration = time.Duration
type Time = time.Time
type Month = time.Month
type Weekday = time.Weekday
type Location = time.Location

const (
	Nanosecond  = time.Nanosecond
	Microsecond = time.Microsecond
	Millisecond = time.Millisecond
	Second      = time.Second
	Minute      = time.Minute
	Hour        = time.Hour
)

// The model clock: every reading of the clock inside a controlled execution is an environment answer -
// either no time has passed since the previous reading, or a long time (an hour) has. Code that
// measures how long something took therefore meets both "instantly" and "far too long" (outside an
// execution the real clock is used).
// The clock never stands still for ever, though: on the default answer the k-th reading of an execution
// is 2^k ns later than the one before (an hour from the 42nd on), and time.Sleep(d) advances it by d - so a
// loop that polls the clock (`for time.Since(start) < d { ... }`) ends after a few dozen rounds on the
// default path instead of looking like a livelock. Every monotone sequence of readings is a legal
// behaviour of a real clock under arbitrary scheduling delays.
var elapsed time.Duration
var readings int
var epoch = time.Unix(1_000_000_000, 0)

// ResetClock is called by the harness-independent reset hook before every execution.
func init() { vrt.RegisterReset("verif/vtime", -1, func() { elapsed, readings = 0, 0 }) }

//go:norace
func Now() Time {
	if !vrt.Running() {
		return time.Now()
	}
	if vrt.Choose(2) == 1 || readings >= 42 {
		elapsed += time.Hour
	} else {
		elapsed += time.Duration(1) << uint(readings)
	}
	readings++
	// the reading is an observation of shared state: it is part of the reading thread's history
	vrt.Observed(uint64(elapsed))
	return epoch.Add(elapsed)
}
func Since(t Time) Duration { return Now().Sub(t) }
func Until(t Time) Duration { return t.Sub(Now()) }
func Unix(s, ns int64) Time                    { return time.Unix(s, ns) }
func ParseDuration(s string) (Duration, error) { return time.ParseDuration(s) }

type Timer struct {
	C       <-chan Time
	c       chan Time
	real    *time.Timer
	stopped bool
	fired   bool
	armed   bool // an environment thread that will deliver a firing exists
	fn      func() // time.AfterFunc
}

//go:norace
func (t *Timer) active() bool { return !t.stopped && !t.fired }

//go:norace
func chanID(c chan Time) unsafe.Pointer { return *(*unsafe.Pointer)(unsafe.Pointer(&c)) }

// NewTimer: under the scheduler the firing is a daemon thread that may run at
// any scheduling point while the timer is active.
//
//go:norace
func NewTimer(d Duration) *Timer {
	if !vrt.Running() {
		rt := time.NewTimer(d)
		return &Timer{C: rt.C, real: rt}
	}
	t := &Timer{c: make(chan Time, 1)}
	t.C = t.c
	t.arm()
	return t
}

// arm starts the environment thread that delivers one firing.
//
//go:norace
func (t *Timer) arm() {
	t.armed = true
	id := chanID(t.c)
	vrt.GoDaemon("timer", func() {
		vrt.PointOp(&vrt.Op{Kind: "timer.fire", Obj: id, Write: true, Ready: t.active})
		t.fired = true
		t.armed = false
		if t.fn != nil {
			t.fn() // time.AfterFunc: f runs in its own goroutine (here: this environment thread)
			return
		}
		select {
		case t.c <- Time{}:
		default:
		}
	})
}

//go:norace
func (t *Timer) Stop() bool {
	if t.real != nil {
		return t.real.Stop()
	}
	if vrt.Running() {
		vrt.PointOp(&vrt.Op{Kind: "timer.Stop", Obj: chanID(t.c), Write: true})
	}
	was := t.active()
	t.stopped = true
	return was
}

// Reset re-arms the timer (untimed: it may fire again at any later point). As with the real
// timer, a value left in C by an earlier firing stays there.
//
//go:norace
func (t *Timer) Reset(d Duration) bool {
	if t.real != nil {
		return t.real.Reset(d)
	}
	if vrt.Running() {
		vrt.PointOp(&vrt.Op{Kind: "timer.Reset", Obj: chanID(t.c), Write: true})
	}
	was := t.active()
	t.stopped, t.fired = false, false
	if !t.armed {
		t.arm()
	}
	return was
}

func After(d Duration) <-chan Time { return NewTimer(d).C }

//go:norace
func Sleep(d Duration) {
	if !vrt.Running() {
		time.Sleep(d)
		return
	}
	vrt.SleepPoint()
	if d > 0 {
		elapsed += d
		// a goroutine that sleeps again and again while nothing else can run oversleeps more and more (any
		// oversleeping is legal): a loop that waits for a deadline by sleeping reaches it within the
		// rounds such a goroutine is given
		extra := d
		for k := vrt.IdleWakes(); k > 0 && extra < 1000*time.Hour; k-- {
			extra *= 2
		}
		if extra > d {
			elapsed += extra
		}
	}
}

//go:norace
func AfterFunc(d Duration, f func()) *Timer {
	if !vrt.Running() {
		return &Timer{real: time.AfterFunc(d, f)}
	}
	// (as with the real one, C is nil; Reset after a firing or a Stop arms it again and f runs again)
	t := &Timer{c: make(chan Time, 1), fn: f}
	t.arm()
	return t
}

// Ticker: an untimed ticker. A tick can be delivered at any scheduling point at which the channel is
// empty (the real ticker drops ticks nobody takes) until Stop; like every timer event it is an
// environment step that the explorer only takes as a costed deviation, or when nothing else can run.
// Bound of the model: at most 3 ticks per ticker and execution are taken while other threads could run
// instead; a tick without which every thread would be stuck is always delivered.
type Ticker struct {
	C       <-chan Time
	c       chan Time
	real    *time.Ticker
	stopped bool
	ticks   int
}

//go:norace
func (t *Ticker) canTick() bool {
	return !t.stopped && len(t.c) == 0 && (t.ticks < 3 || !vrt.OrdinaryEnabled())
}

//go:norace
func NewTicker(d Duration) *Ticker {
	if d <= 0 {
		panic("non-positive interval for NewTicker")
	}
	if !vrt.Running() {
		rt := time.NewTicker(d)
		return &Ticker{C: rt.C, real: rt}
	}
	t := &Ticker{c: make(chan Time, 1)}
	t.C = t.c
	id := *(*unsafe.Pointer)(unsafe.Pointer(&t.c))
	vrt.MarkTimeChan(id)
	vrt.GoDaemon("ticker", func() {
		for {
			vrt.PointOp(&vrt.Op{Kind: "ticker.tick", Obj: id, Write: true, Ready: t.canTick})
			if t.stopped {
				return
			}
			t.ticks++
			select {
			case t.c <- epoch.Add(elapsed):
			default:
			}
		}
	})
	return t
}

//go:norace
func (t *Ticker) Stop() {
	if t.real != nil {
		t.real.Stop()
		return
	}
	if vrt.Running() {
		vrt.PointOp(&vrt.Op{Kind: "ticker.Stop", Obj: *(*unsafe.Pointer)(unsafe.Pointer(&t.c)), Write: true})
	}
	t.stopped = true
}

//go:norace
func (t *Ticker) Reset(d Duration) {
	if t.real != nil {
		t.real.Reset(d)
		return
	}
	t.stopped = false
}

func Tick(d Duration) <-chan Time {
	if d <= 0 {
		return nil
	}
	return NewTicker(d).C
}
