#!/usr/bin/env python3
"""Writes seeded/RESULTS.md from seeded/*/meta.json."""
import json, glob, os
rows = []
for d in sorted(glob.glob('/verif/seeded/C*-*')):
    if not os.path.exists(d + '/meta.json'):
        continue
    m = json.load(open(d + '/meta.json'))
    rd = open(d + '/README.md').read() if os.path.exists(d + '/README.md') else ''
    title = ''
    for line in rd.splitlines():
        t = line.strip().lstrip('#').strip()
        if t:
            title = t[:140]
            break
    rows.append((os.path.basename(d), m['property'], m['our_check']['result'], m['our_check']['signatures'].replace('sig=', '').strip(), title, m.get('what_it_needs_to_manifest', '')[:200]))
with open('/verif/seeded/RESULTS.md', 'w') as f:
    f.write("# Seeded property-breaking changes and the checks that catch them\n\n")
    f.write("Each change was produced by an independent sub-agent that saw only the property text, compiles, passes the\n")
    f.write("repository's 134 tests, and comes with a demonstration that fails with the change and passes without it\n")
    f.write("(confirmed by `seed_verify.sh` in a scratch worktree). `-mN` = round 1, `-hN` = round 2 (designed to stay\n")
    f.write("correct inside small bounds), `-xN` = round 3 (against a described strong verifier), `-b1` = round 4 (breadth),\n")
    f.write("`-r1` = round 5 (value relations, element/key types, thresholds above 2^16, cross-object state, API histories),\n")
    f.write("`-r2` = round 6 (callbacks that re-enter or mutate, element sizes, look-alike keys, self operands, depth thresholds), `-r3` = round 7 (recovered panics, nil interfaces, methods of the element type, far coordinates, crowds), `-sm1..sm3` = round 8 (60 plain small slips, three per property), `-r4` = round 9 (with a property-preserving rewrite per property, see DESIGN), `-o1` = written by hand.\n")
    f.write("Result = tier of `./vcheck.sh <ID>` that reports it.\n\n")
    f.write("| change | result | violation signature(s) | what was changed |\n|---|---|---|---|\n")
    for r in rows:
        f.write(f"| {r[0]} | {r[2]} | `{r[3]}` | {r[4].replace('|', '/')} |\n")
    det = sum(1 for r in rows if r[2].startswith('DETECTED'))
    f.write(f"\n{det} of {len(rows)} detected.\n")
    for d in sorted(glob.glob('/verif/seeded/C*-*')):
        if os.path.exists(d + '/meta.json'):
            m = json.load(open(d + '/meta.json'))
            if m.get('note'):
                f.write(f"\n**{os.path.basename(d)}** - {m['note']}\n")
print(len(rows), "rows")
