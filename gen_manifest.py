#!/usr/bin/env python3
"""Writes MANIFEST.json from the table below (one source of truth for the interface)."""
import json

SEQ = "explicit-state BFS over the real object (replay on fresh instances), fingerprint of the complete concrete state, to fixpoint under stated bounds, vs reference model"
ENUM = "bounded-exhaustive input enumeration (explicit-state search of depth 1) vs reference definition"
SCHED = "stateless schedule exploration of the instrumented real code under a controlled scheduler (preemption/delay bounded or all interleavings, happens-before state cache)"

C = {
 "C01": ("seq", SEQ, "Every reachable concrete tree over a small value universe under a size bound is visited (fixpoint, so histories of every length), with duplicates, absent values, Clear and Clone, and every public observer compared with a sorted-multiset model after every transition (also from inside walk callbacks); an unrelated second instance driven next to every new state; a comparator that panics mid-call; Clear and reuse at 8192-20000 values; beyond the bound, deterministic families (700-value fills, every single/double removal from trees of every size up to 96/300 built in 7 orders, 10^5-10^6-operation churn on one tree). Right level: an invariant over all histories of a sequential structure.", "Values/size bounded as in evidence.configs; comparator is a consistent total order; reflective fingerprint walker is trusted to separate states.", "3.C01"),
 "C02": ("seq", SEQ + "; plus parametrised insertion/deletion families up to n=1100", "All insertion/deletion interleavings over distinct values up to the size bound (9/12) are enumerated to fixpoint and the shape reconstructed from pre+in order must be AVL-balanced with depth <= 1.4405 log2(n+2); insertion/deletion-order families to n=1100, the sparsest AVL tree with 34 (36) levels (15-39 million nodes, descents deeper than 32), Clear-and-reuse at 8192-20000 values, build-then-remove families (every single and double removal) and churn histories cover sizes the BFS cannot.", "Balance beyond the size bound only along the 9 families; O(log n) checked as comparator-call budget, not wall time.", "3.C02"),
 "C03": ("seq", SEQ + "; all ordered pairs of operand layouts x 4 implementation pairings", "Every concrete layout a 3-value sync2.Set can reach (read/dirty/expunged/promoted) and every maps.Set are used as both operands of every binary operation, with operand-unchanged and detachment checks; the layout search starts from the empty set, the nil zero value of maps.Set and every NewSetFrom* result and continues on clones; the same search and algebra over 15 element types (equal-but-differently-spelled values, look-alike keys, types whose methods disagree with ==); Range callbacks that call observers or remove members.", "Universe of 3 values; set enumeration order unconstrained.", "3.C03"),
 "C04": ("sched", SEQ + " for single-goroutine histories; " + SCHED + " with porcupine linearizability checking and the race detector inside every explored schedule", "Sequential: all call sequences of any length over 2-3 keys (fixpoint). Concurrent: every pair of calls from 8 start layouts under ALL interleavings at atomic/mutex granularity, triples and two-call programs under a preemption bound, calls made from inside a Range callback (also on maps of 16385-70001 keys, one goroutine), a panicking callback, unhashable interface keys; key types with several spellings of one key; histories judged by porcupine; data races judged by TSan per schedule.", "Go atomics sequentially consistent; bounds on threads/calls/preemptions as reported; shims (vsync/vatomic) model the documented semantics.", "3.C04"),
 "C05": ("sched", SCHED + " with porcupine set model (composite calls decomposed) and in-schedule race detection", "Pairs of calls under all interleavings, triples and two-call programs under a preemption bound, from every reachable start layout, AddSet/RemoveSet with operands of 32/33 (thorough to 200) values against promoting threads; the set passed to itself; unhashable interface values; per-value alternation of successful Add/Remove is exactly linearizability to a set.", "At most 4 goroutines, 2 values; more goroutines are outside the bound.", "3.C05"),
 "C06": ("seq", SEQ + " with container/list and container/ring driven in lock-step as the reference", "All reachable joint states of two lists with a table of element handles (live, removed, foreign), and of rings up to N cells, to fixpoint; every return value, traversal and neighbour compared with the standard library; Do with relinking callbacks, counts above 2^31 on zero-value rings, scripted lists to 4097 elements and a ring ladder to 70001 (thorough 3*10^6) cells beyond the bound.", "Handle table / cell count bounded; elements orphaned by Init are not reused.", "3.C06"),
 "C07": ("seq", SEQ, "From every initial slice over {0,1,2} and three less functions, every Add/Remove/RemoveAt history under the size bound to fixpoint; sortedness, exact multiset, returned positions, panics outside [0,Len), copy semantics of the constructor; element types of size 0, 1 and 8800 bytes; a less function that panics mid-call.", "Values {0,1,2} (+absent -1,3), size bound as reported.", "3.C07"),
 "C08": ("enum", ENUM + " over all shapes and all operation pairs", "Every shape up to 4x4 (5x5), every coordinate in and out of bounds, every span/rectangle/jagged input, every ordered pair of operations for small shapes, against a cell-grid model with a frame condition; the same model over 12 element types (pointers, interfaces, NaN/-0, slices, maps) with String rendered cell by cell; coordinates far outside incl. those whose product with the width wraps around 2^64; byte arrays of more than 2^25 cells.", "Shapes bounded; values are position labels.", "3.C08"),
 "C09": ("sched", SCHED + " with occupancy/blocking oracles and in-schedule race detection", "Programs of lock/try-lock/read-lock acquisitions over 2 keys by 2-4 threads, fresh and used keys; mutual exclusion via occupancy counters inside critical sections, Try* never blocked in a stable state, cross-key independence via dedicated hold scenarios and the no-block oracle; any deadlock is a violation; 16..4096 keys in use; 7 further key types whose keys have several ==-equal spellings (+0.0/-0.0, equal strings in different memory) or look alike without being equal (int 3 / int64 3 in an interface); two instances side by side; unhashable keys.", "RWMutex modelled with Go's writer preference; ClearKey only on idle keys.", "3.C09"),
 "C10": ("sched", SCHED + " with a delivery-ledger oracle; channels, select, timers, WaitGroup and RWMutex are model objects", "Six publish variants x 0-2(3) subscribers x buffer sizes x timeout on/off x eight concurrent management actions, run to quiescence under delay- and preemption-bounded exhaustive scheduling; exactly-once, order, completion-before-return, delivered-xor-timed-out, close/err behaviour, no panic; plus an explicit-state search to fixpoint over the sequential API (handles kept after removal, retained WithOnly publishers, a second PubSub next to it); crowds of 1100 (4100) subscribers with idle ones.", "Timers untimed (may fire any time); bounds as reported; async variants judged at quiescence. Known findings listed in known_findings.txt.", "3.C10"),
 "C11": ("seq", SEQ, "All reachable Bimap states over K=V={0..3} incl. clones and the zero value, to fixpoint; inverse-bijection invariant and set-of-pairs model after every transition; clone independence after every single mutation; key/value types with several spellings; Range callbacks that observe or remove; a recovered panic of Add leaves no half pair.", "Universe of 4-5 keys/values.", "3.C11"),
 "C12": ("enum", ENUM, "All lengths x spare capacities (dirty hidden region) x positions x inserted/removed lengths; Fill/Repeat for every length; Concat/Clone aliasing in both directions; the same splice model over 10 element types compared by bit pattern / identity (-0.0, NaN, IsZero-method types, pointers, time.Time, zero-size and 8800-byte elements, types with Clone / lying Equal methods).", "Lengths up to the bound in evidence.rule.", "3.C12"),
 "C13": ("enum", ENUM, "All n x all sizes x spare capacities behind the slice: count, piece lengths, concatenation, windows and pairs in order, Func variants receive the same sequence.", "n up to the bound.", "3.C13"),
 "C14": ("enum", ENUM, "All slices over {0,1,2} up to length 5(7), complete callback families (all predicates, all keyers, non-commutative accumulators, failing converters at every position), all small maps; input snapshots and detachment.", "Alphabet of 3 values.", "3.C14"),
 "C15": ("enum", ENUM, "All ternary slices up to length 8(10) and all binary slices up to 15(20) tagged with original indices through all six sort functions; all sorted slices x all targets for the searches; 16 ordered element types with the extremes of their ranges at lengths to 1000 (70000); ShuffleRand determinism over 64 seeds; a less function that panics mid-sort leaves a permutation.", "sort.Sort is insertion sort (stable) below 13 elements, hence binary keys up to 15-20.", "3.C15"),
 "C16": ("seq", SEQ + "; plus fill/drain saw-tooth families up to thousands of elements", "All reachable Queue/Stack states from the zero value under a size bound incl. hidden capacity, drained and reused after every transition; saw-tooth families reach capacity-dependent paths; a one-pass fill of one stack and one queue to 2^21 (2^24) values with Len/Peek after every call, a half drain and a refill at full scale; the zero value as data.", "Values {1,2}; size bound as reported.", "3.C16"),
 "C17": ("sched", SCHED + " with in-schedule race detection", "2-5 (6 at preemption bound 3) concurrent Do callers (own functions with internal yield points) plus a later caller, all three arities, all interleavings: exactly one invocation, same results, completion before return; actions leaving through Goexit/panic; two calls per caller; nested chains of Do over 70-300 (5000) distinct Once values on 1-3 threads; late callers passing a nil function; zero-valued and nil-interface results.", "sync.Once modelled by the standard algorithm over instrumented primitives.", "3.C17"),
 "C18": ("sched", SCHED + " with porcupine register model; Pool hit/miss as enumerated environment answers; in-schedule race detection", "All pairs of 1-2 call programs and triples of calls on AtomicValue under all interleavings; the same register model over 7 element types whose values are alike but different under ==; the zero value as stored value; Pool Get/Put programs with every hit/miss answer, 15..4096 idle items, a replaced New, interface-typed pools with nil values, two instances side by side; token ownership oracle; TSan decides data-race freedom per schedule.", "sync.Pool over-approximated by a multiset with nondeterministic misses.", "3.C18"),
 "C19": ("sched", SCHED + " with a value-conservation oracle; channels, select, timers and context cancellation are model objects", "Every capacity x fill x closed x limit for the queued receivers (never blocked, FIFO, nothing invented); queues of 65537/70000 (thorough 2^20+1) values; helper || peer || timer/canceller under all interleavings with every ready select case tried; threads making two helper calls in a row and triples of helpers under the same conservation oracle; a rival plain receiver plus a closer; negative limits; the zero value and the smallest positive duration.", "Timers untimed; sends on closed channels outside the property.", "3.C19"),
 "C20": ("enum", ENUM, "All pairs and triples of int8/uint8, boundary sets for wider types and floats, every 8/16-bit value and every (strided in quick) 32-bit value for the digit functions, complete truth tables for the utility helpers, Coal and the identities over every argument tuple of length 0..3 for 14 types; references strconv and wide arithmetic.", "64-bit and float ranges covered by boundary sets only.", "3.C20"),
}

EXTRA = {
 "C01": " NewOrdered over the extremes of 10 ordered types in every insertion order. Every observer is also asked across runs of exactly 2^8/2^16/2^17/2^20 (-1/+0/+1) changes (an answer remembered with a narrow change counter); clone independence is judged on observers with three holders at a time.",
 "C02": " The search continues on clones. A comparator that panics at its k-th call (recovered) on int and 520-byte elements, then balance after every further removal.",
 "C03": " Constructors detached from arguments of every shape (map[K]struct{}, maps.Set, named map types). Every constructor, Clone and the algebra again at sizes around every power of two up to 2^17; Has/Len/Slice across runs of exactly 2^k changes.",
 "C04": " NaN keys. Load/Range across runs of exactly 2^k Store/Delete calls. If the concrete layout is not a function of the history the search falls back to reference-model states (reported as layout_fallback).",
 "C06": " A second, depth-bounded search hands stale handles (orphaned by Init) to every call and follows container/list into its ill-formed states (negative Len).",
 "C07": " Contains/Index/Get across runs of exactly 2^k changes; the call under test is the first call on a freshly constructed object.",
 "C09": " Keys that were used 2^8 / 2^16 (-1/+0/+1) times before two or three threads contend for them.",
 "C10": " 2^16+1 unbuffered subscribers that start receiving after the publish call began: one free-running execution per synchronous variant on the real runtime (a family member, not an exploration). Channel operations through package reflect are model operations too.",
 "C11": " Both lookup directions across runs of exactly 2^k changes; three holders (original, clone, clone of the clone) for clone independence.",
 "C08": " Cells that fmt prints specially (nil pointers with pointer-receiver String, error-and-Stringer values).",
 "C12": " The same model at odd lengths in the millions for every function.",
 "C13": " The call after a recovered callback panic / Goexit, for every Func variant.",
 "C14": " The whole battery again after a recovered callback panic of every callback-taking helper.",
 "C18": " CompareAndSwap on uncomparable values that panics and is recovered, then the value is used again by both threads.",
 "C15": " BinarySearchFunc over 2^62+1 .. MaxInt zero-size elements; the next sorts after a recovered panic of less.",
 "C20": " IsZero over every ordered triple of dynamic values under one static interface type (any, interface{IsZero() bool}, fmt.Stringer, error).",
}

checks = []
for pid in sorted(C):
    eng, tech, text, note, ref = C[pid]
    text += EXTRA.get(pid, "")
    checks.append({
        "property_id": pid,
        "quick_cmd": f"./vcheck.sh {pid} quick",
        "thorough_cmd": f"./vcheck.sh {pid} thorough",
        "evidence_file": f"/verif/evidence/{pid}.json",
        "replay_cmd_template": f"./vcheck.sh {pid} replay {{path}}",
        "engine": {"seq": "SEQ", "enum": "ENUM", "sched": "SCHED"}[eng],
        "level_claimed": {"category": "model_checking", "text": text, "design_ref": "DESIGN.md section " + ref},
        "level_note": note,
        "technique": tech,
    })

m = {
 "version": 1,
 "setup_cmd": "./setup.sh",
 "hooks": {
  "guard": "build overlay generated by cmd/vinstr (no guarded source lines in /repo)",
  "enable": "sched_build.sh runs vinstr over the current working tree of /repo/sync2 and /repo/chans and builds the check with `go build -overlay` (plain and -race); SEQ/ENUM checks build /repo as it is",
  "baseline_off_cmd": "cd /repo && GOFLAGS=-mod=mod GOPROXY=off GOSUMDB=off GOTOOLCHAIN=local go test -json -vet=off -count=1 -timeout 25m ./...",
  "source_commits": [],
  "add_only": True,
 },
 "engines": [
  {"name": "SEQ", "path": "lib/seqmc, lib/fp", "serves_properties": ["C01","C02","C03","C04","C06","C07","C11","C16"], "kind_free_text": "explicit-state breadth-first search whose transitions call the real API; reflective fingerprint of the concrete object graph; fixpoint under size bounds"},
  {"name": "ENUM", "path": "lib/enum", "serves_properties": ["C08","C12","C13","C14","C15","C20"], "kind_free_text": "bounded-exhaustive input enumeration against reference definitions"},
  {"name": "SCHED", "path": "vrt, vsync, vatomic, vtime, vcontext, vrand, cmd/vinstr, lib/schk, lib/lin", "serves_properties": ["C04","C05","C09","C10","C17","C18","C19"], "kind_free_text": "controlled scheduler + DFS over schedules of the instrumented real code (overlay rewrite), preemption/delay bounding, happens-before state cache, porcupine, race detector inside every schedule"},
 ],
 "checks": checks,
 "not_applicable": [],
 "notes": "Known findings and repaired defects: known_findings.txt. Fix commits live in /repo (messages start with 'fix:'). All checks rebuild from /repo's working tree on every run (VERIF_REPO=<dir> points them at another copy). SEQ/ENUM checks run in a guarded child process (a crash or hang of the Go runtime becomes a localised violation). 86 seeded changes + 13 reverted fixes with detection results: seeded/RESULTS.md, seeded/regressions/; ./seed_regress.sh re-runs them all.",
}
json.dump(m, open("/verif/MANIFEST.json", "w"), indent=1)
print("wrote MANIFEST.json with", len(checks), "checks")
