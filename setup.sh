#!/bin/bash
# MANIFEST.setup_cmd: build the framework once from files on disk (warms the build cache,
# plain and -race), then run the shim conformance (litmus) suite.
set -u
cd "$(dirname "$0")"; HERE=$(pwd)
export GOFLAGS=-mod=mod GOPROXY=off GOSUMDB=off GOTOOLCHAIN=local
export GOCACHE=${GOCACHE:-$HERE/.work/gocache}
mkdir -p .work/bin evidence
go build ./... || exit 1
for id in c01 c02 c03 c06 c07 c08 c11 c12 c13 c14 c15 c16 c20 c04seq; do
  go build -o .work/bin/$id ./checks/$id || exit 1
done
for id in c04 c05 c09 c10 c17 c18 c19; do
  ./sched_build.sh $id || exit 1
done
go test ./lib/fp ./lib/lin || exit 1
if [ -d litmus ]; then
  # shim conformance; its result is recorded in .work/litmus.json and quoted in the evidence of the
  # SCHED checks. A failure is reported loudly but does not stop the set-up of the other engines.
  ./litmus.sh || echo "WARNING: litmus suite failed (see above); SCHED results are suspect"
fi
./loopvar_test.sh || echo "WARNING: the instrumenting pass changes loop-variable semantics (see above); SCHED results are suspect"
echo "setup ok"
