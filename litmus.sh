#!/bin/bash
# shim conformance: the litmus programs on the real runtime and under the model
set -u
cd "$(dirname "$0")"; HERE=$(pwd)
export GOFLAGS=-mod=mod GOPROXY=off GOSUMDB=off GOTOOLCHAIN=local
export GOCACHE=${GOCACHE:-$HERE/.work/gocache}
mkdir -p .work/bin .work/overlay-litmus
go build -o .work/bin/vinstr ./cmd/vinstr || exit 2
go build -o .work/bin/litmus-real ./litmus/cmd || exit 2
.work/bin/vinstr -repo "$HERE" -mod verif -out "$HERE/.work/overlay-litmus" litmus/progs || exit 2
go build -overlay .work/overlay-litmus/overlay.json -o .work/bin/litmus-model ./litmus/cmd || exit 2
LITMUS_OUT=$HERE/.work/litmus.json .work/bin/litmus-model model $HERE/.work/bin/litmus-real
