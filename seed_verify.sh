#!/bin/bash
# usage: seed_verify.sh <ID> <m>   confirm a seeded change in a scratch worktree, run our check against it, archive it
# (1) patch applies at /repo HEAD, (2) builds and the unedited suite passes, (3) the demonstration fails with
# the change and (4) passes without it, (5) our quick (and if missed, thorough) check reports it.
ID=$1; M=$2; OUT=${3:-out}; NAME=${4:-$M}
SRC=/tmp/seed/$ID/$OUT/$M
export GOFLAGS=-mod=mod GOPROXY=off GOSUMDB=off GOTOOLCHAIN=local
WT=/tmp/sv-$ID-$M
git -C /repo worktree remove --force $WT 2>/dev/null
git -C /repo worktree add -q --detach $WT HEAD || exit 3
res() { echo "$ID/$M: $*"; }
cleanup() { git -C /repo worktree remove --force $WT; }
cd $WT
if ! git apply $SRC/patch.diff 2>/tmp/sv.err; then res "PATCH-DOES-NOT-APPLY $(head -1 /tmp/sv.err)"; cleanup; exit 1; fi
if ! go build ./... 2>/tmp/sv.err; then res "DOES-NOT-BUILD"; cleanup; exit 1; fi
if ! go test -vet=off -count=1 ./... >/tmp/sv.out 2>&1; then res "SUITE-FAILS-WITH-CHANGE"; tail -5 /tmp/sv.out; cleanup; exit 1; fi
suite=pass
demo=$SRC/demo_test.go
dir=$(head -3 $demo | grep -o 'place in: *[a-zA-Z0-9_./]*' | sed 's/place in: *//; s|/$||')
[ -z "$dir" ] && dir=.
cp $demo $WT/$dir/zz_seed_demo_test.go
flags=""
grep -qi -- "-race" $SRC/README.md && flags="-race"
withfail=no
for i in 1 2 3; do
  if ! go test -vet=off -count=1 $flags ./$dir/ >/tmp/sv.with 2>&1; then withfail=yes; break; fi
done
git checkout -q -- . 
without=fail
if go test -vet=off -count=1 $flags ./$dir/ >/tmp/sv.without 2>&1; then without=pass; fi
cleanup
cd /verif
tier=quick
out=$(./seedtest.sh $SRC/patch.diff $ID quick)
if ! echo "$out" | grep -q "exit=1"; then
  tier=thorough
  out=$(./seedtest.sh $SRC/patch.diff $ID thorough)
fi
det=MISSED
echo "$out" | grep -q "exit=1" && det="DETECTED($tier)"
echo "$out" | grep -q "exit=2" && det="INFRA-ERROR"
sig=$(echo "$out" | grep "^VIOLATION" | grep -o 'sig=[^ ]*' | head -3 | tr '\n' ' ')
res "suite=$suite demo_with_change_fails=$withfail demo_without_passes=$without flags=[$flags] check=$det $sig"
if [ "$withfail" = yes ] && [ "$without" = pass ]; then
  d=/verif/seeded/$ID-$NAME
  mkdir -p $d; cp $SRC/patch.diff $d/; cp $demo $d/demo_test.go; [ -f $SRC/README.md ] && cp $SRC/README.md $d/README.md
  python3 - "$ID" "$NAME" "$det" "$sig" "$dir" "$flags" "$SRC" <<'PY'
import json,sys,subprocess
ID,M,det,sig,dir,flags,SRC=sys.argv[1:8]
head=subprocess.check_output(["git","-C","/repo","rev-parse","--short","HEAD"]).decode().strip()
readme=open(f"{SRC}/README.md").read()
needs=""
for line in readme.splitlines():
    l=line.lower()
    if "needs" in l or "manifest" in l or "only" in l:
        needs=line.strip()[:300]; break
json.dump({"property":ID,"mutant":M,"base_commit":head,"what_it_needs_to_manifest":needs,
 "confirmed":{"patch_applies":True,"builds":True,"existing_suite_passes_with_change":True,
   "demo_fails_with_change":True,"demo_passes_without_change":True,
   "demo_command":f"cp demo_test.go <worktree>/{dir}/ && go test -vet=off -count=1 {flags} ./{dir}/"},
 "our_check":{"command":f"git -C /repo apply patch.diff && ./vcheck.sh {ID} quick|thorough; git -C /repo checkout -- .","result":det,"signatures":sig.strip()}},
 open(f"/verif/seeded/{ID}-{M}/meta.json","w"),indent=1)
PY
fi
