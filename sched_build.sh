#!/bin/bash
# builds the instrumented (overlay) plain and race binaries of a SCHED check from /repo's working tree
set -u
cd "$(dirname "$0")"
id=$1
export GOFLAGS=-mod=mod GOPROXY=off GOSUMDB=off GOTOOLCHAIN=local
export GOCACHE=${GOCACHE:-/verif/.work/gocache}
mkdir -p .work/bin
ov=/verif/.work/overlay-$id
rm -rf "$ov"; mkdir -p "$ov"
go build -o .work/bin/vinstr ./cmd/vinstr 2> .work/build-vinstr.log || { cat .work/build-vinstr.log; exit 2; }
.work/bin/vinstr -repo /repo -out "$ov" sync2 chans || exit 2
go build -overlay "$ov/overlay.json" -o .work/bin/$id ./checks/$id 2> .work/build-$id.log || { cat .work/build-$id.log; exit 2; }
if [ "${VERIF_NO_RACE:-}" = "" ]; then
  go build -race -overlay "$ov/overlay.json" -o .work/bin/$id-race ./checks/$id 2> .work/build-$id-race.log || { cat .work/build-$id-race.log; exit 2; }
fi
exit 0
