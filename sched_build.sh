#!/bin/bash
# builds the instrumented (overlay) plain and race binaries of a SCHED check from the repository's working tree
set -u
cd "$(dirname "$0")"; HERE=$(pwd)
id=$1; REPO=${2:-/repo}
export GOFLAGS=-mod=mod GOPROXY=off GOSUMDB=off GOTOOLCHAIN=local
export GOCACHE=${GOCACHE:-$HERE/.work/gocache}
TAG=${VERIF_TAG:-}
MODFLAG=${VERIF_MODFLAG:-}
mkdir -p .work/bin
ov=$HERE/.work/overlay-$id$TAG
rm -rf "$ov"; mkdir -p "$ov"
if [ ! -x .work/bin/vinstr ] || [ cmd/vinstr/main.go -nt .work/bin/vinstr ]; then
  go build -o .work/bin/vinstr.$$ ./cmd/vinstr 2> .work/build-vinstr.log && mv .work/bin/vinstr.$$ .work/bin/vinstr || { cat .work/build-vinstr.log; exit 2; }
fi
.work/bin/vinstr -repo "$REPO" -out "$ov" sync2 chans || exit 2
go build $MODFLAG -overlay "$ov/overlay.json" -o .work/bin/$id$TAG ./checks/$id 2> .work/build-$id$TAG.log || { cat .work/build-$id$TAG.log; exit 2; }
if [ "${VERIF_NO_RACE:-}" = "" ]; then
  go build $MODFLAG -race -overlay "$ov/overlay.json" -o .work/bin/$id$TAG-race ./checks/$id 2> .work/build-$id$TAG-race.log || { cat .work/build-$id$TAG-race.log; exit 2; }
fi
exit 0
