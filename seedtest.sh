#!/bin/bash
# usage: seedtest.sh <patch.diff> <ID> [tier]
# Runs a check against a seeded change WITHOUT touching /repo: the patch is applied in a scratch
# worktree of /repo's HEAD, the check runs against that copy (VERIF_REPO) with its own evidence /
# replay root (VERIF_ROOT), and the worktree is removed afterwards. Safe to run in parallel.
HERE=$(cd "$(dirname "$0")" && pwd)
P=$(readlink -f "$1"); ID=$2; TIER=${3:-quick}
W=/tmp/st-$$-$RANDOM
git -C /repo worktree add -q --detach $W/repo HEAD || exit 3
mkdir -p $W/root; cp $HERE/known_findings.txt $W/root/
if ! git -C $W/repo apply "$P" 2>$W/err; then echo "PATCH-DOES-NOT-APPLY $P: $(head -1 $W/err)"; git -C /repo worktree remove --force $W/repo; rm -rf $W; exit 3; fi
cd $HERE
VERIF_REPO=$W/repo VERIF_ROOT=$W/root timeout 3000 ./vcheck.sh $ID $TIER > $W/log 2>&1; rc=$?
grep -E "^(VIOLATION|OK|INFRA)" $W/log | cut -c1-330 | head -4
echo "exit=$rc"
git -C /repo worktree remove --force $W/repo; rm -rf $W $HERE/.work/overlay-*-$(echo "$W/repo" | md5sum | cut -c1-8) $HERE/.work/bin/*-$(echo "$W/repo" | md5sum | cut -c1-8)* $HERE/.work/go-$(echo "$W/repo" | md5sum | cut -c1-8).*
