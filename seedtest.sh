#!/bin/bash
# usage: seedtest.sh <patch.diff> <ID> [tier]   apply a seeded change to /repo, run the check, undo the change
P=$1; ID=$2; TIER=${3:-quick}
cd /repo || exit 3
if ! git diff --quiet; then echo "repo dirty"; exit 3; fi
git apply "$P" || { echo "PATCH-DOES-NOT-APPLY $P"; exit 3; }
cd /verif
timeout 1200 ./vcheck.sh $ID $TIER > /tmp/seedtest.$$.log 2>&1; rc=$?
git -C /repo checkout -- . ; git -C /repo clean -fdq
grep -E "^(VIOLATION|KNOWN|OK|INFRA)" /tmp/seedtest.$$.log | cut -c1-330 | head -4
echo "exit=$rc"; rm -f /tmp/seedtest.$$.log
