#!/bin/bash
# usage: vcheck.sh <id> quick|thorough        run a check against /repo's working tree
#        vcheck.sh <id> replay <file>         replay a recorded violation
# env:   VERIF_REPO=<dir>  check another copy of the repository (default /repo; used to run the
#                          checks against seeded changes in scratch worktrees, in parallel)
#        VERIF_ROOT=<dir>  where evidence/, .work/replays and known_findings.txt live (default /verif)
set -u
cd "$(dirname "$0")"; HERE=$(pwd)
export GOFLAGS=-mod=mod GOPROXY=off GOSUMDB=off GOTOOLCHAIN=local
export GOCACHE=${GOCACHE:-$HERE/.work/gocache}
export VERIF_ROOT=${VERIF_ROOT:-$HERE}
ID=${1:?id}; MODE=${2:-quick}
id=$(echo "$ID" | tr 'A-Z' 'a-z')
REPO=${VERIF_REPO:-/repo}
TAG=""
mkdir -p .work/bin evidence
export VERIF_MODFLAG=""
if [ "$REPO" != /repo ]; then
  TAG="-$(echo "$REPO" | md5sum | cut -c1-8)"
  sed "s|=> /repo|=> $REPO|" go.mod > $HERE/.work/go$TAG.mod; cp go.sum $HERE/.work/go$TAG.sum
  export VERIF_MODFLAG="-modfile=$HERE/.work/go$TAG.mod"
fi
export VERIF_TAG="$TAG"
mkdir -p .work/bin evidence
SCHED_IDS=" c04 c05 c09 c10 c17 c18 c19 "
bin=$HERE/.work/bin/$id$TAG
if [[ "$SCHED_IDS" == *" $id "* ]]; then
  ./sched_build.sh "$id" "$REPO" || { echo "INFRA-ERROR: build of $id failed"; exit 2; }
  export VERIF_RACE_BIN=$HERE/.work/bin/$id$TAG-race
else
  go build $VERIF_MODFLAG -o "$bin" ./checks/$id 2> .work/build-$id$TAG.log || { cat .work/build-$id$TAG.log; echo "INFRA-ERROR: build of $id failed"; exit 2; }
fi
if [ "$id" = c04 ] && [ "$MODE" != replay ]; then
  # sequential part: plain build (the files of the repository byte for byte), merged by the concurrent part
  go build $VERIF_MODFLAG -o $HERE/.work/bin/c04seq$TAG ./checks/c04seq 2> .work/build-c04seq$TAG.log || { cat .work/build-c04seq$TAG.log; echo "INFRA-ERROR: build of c04seq failed"; exit 2; }
  rm -f $HERE/.work/c04seq$TAG.json
  VERIF_PARTIAL=$HERE/.work/c04seq$TAG.json $HERE/.work/bin/c04seq$TAG "$MODE" || { echo "INFRA-ERROR: c04seq failed"; exit 2; }
  export VERIF_SEQ_PARTIAL=$HERE/.work/c04seq$TAG.json
fi
if [ "$MODE" = replay ]; then
  f=${3:?replay file}
  if grep -q '"config":' "$f"; then
    # a sequential (SEQ) counterexample: an operation list
    if [ "$id" = c04 ]; then
      go build $VERIF_MODFLAG -o $HERE/.work/bin/c04seq$TAG ./checks/c04seq || exit 2
      VERIF_GUARDED=1 VERIF_SEQ_REPLAY=$f exec $HERE/.work/bin/c04seq$TAG quick
    fi
    VERIF_GUARDED=1 VERIF_SEQ_REPLAY=$f exec "$bin" quick
  fi
  if grep -q '"choices":' "$f"; then
    # a schedule (SCHED) counterexample: a choice sequence, re-executed with tracing
    tier=quick; grep -q -- "-thorough-" <<< "$f" && tier=thorough
    VERIF_REPLAY=$f exec "$bin" $tier
  fi
  # a family / enumeration counterexample: the input is named in the file; re-run the check
  VERIF_GUARDED=1 exec "$bin" quick
fi
exec "$bin" "$MODE"
