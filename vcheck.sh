#!/bin/bash
# usage: vcheck.sh <id> quick|thorough        run a check against /repo's working tree
#        vcheck.sh <id> replay <file>         replay a recorded violation
set -u
cd "$(dirname "$0")"
export GOFLAGS=-mod=mod GOPROXY=off GOSUMDB=off GOTOOLCHAIN=local
export GOCACHE=${GOCACHE:-/verif/.work/gocache}
ID=${1:?id}; MODE=${2:-quick}
id=$(echo "$ID" | tr 'A-Z' 'a-z')
mkdir -p .work/bin evidence
SCHED_IDS=" c04 c05 c09 c10 c17 c18 c19 "
bin=/verif/.work/bin/$id
if [[ "$SCHED_IDS" == *" $id "* ]]; then
  ./sched_build.sh "$id" || { echo "INFRA-ERROR: build of $id failed"; exit 2; }
  export VERIF_RACE_BIN=/verif/.work/bin/$id-race
else
  go build -o "$bin" ./checks/$id 2> .work/build-$id.log || { cat .work/build-$id.log; echo "INFRA-ERROR: build of $id failed"; exit 2; }
fi
if [ "$id" = c04 ] && [ "$MODE" != replay ]; then
  # sequential part: plain build (the files of /repo byte for byte), merged by the concurrent part
  go build -o /verif/.work/bin/c04seq ./checks/c04seq 2> .work/build-c04seq.log || { cat .work/build-c04seq.log; echo "INFRA-ERROR: build of c04seq failed"; exit 2; }
  rm -f /verif/.work/c04seq.json
  VERIF_PARTIAL=/verif/.work/c04seq.json /verif/.work/bin/c04seq "$MODE" || { echo "INFRA-ERROR: c04seq failed"; exit 2; }
  export VERIF_SEQ_PARTIAL=/verif/.work/c04seq.json
fi
if [ "$MODE" = replay ]; then
  VERIF_SEQ_REPLAY=${3:?file} VERIF_REPLAY=${3} exec "$bin" quick
fi
exec "$bin" "$MODE"
