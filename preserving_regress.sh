#!/bin/bash
# Runs every check against the archived property-PRESERVING rewrites of the library (seeded/preserving/):
# substantial re-implementations that keep the property. Every check must stay silent (exit 0). 3 at a time.
cd "$(dirname "$0")"
one() {
  d=$1; tier=$2
  id=$(basename $d | cut -d- -f1)
  out=$(./seedtest.sh $d/patch.diff $id $tier 2>&1 | grep -av KNOWN-FINDING)
  if echo "$out" | grep -q "exit=0"; then echo "SILENT   $d"; else echo "ALARM    $d $(echo "$out" | grep -a 'VIOLATION\|INFRA' | head -1 | cut -c1-200)"; fi
}
export -f one
mkdir -p .work
ls -d seeded/preserving/C*-p*/ | xargs -P 3 -I{} bash -c "one {} ${1:-quick}" | tee .work/preserving_regress.log
! grep -q "^ALARM" .work/preserving_regress.log
