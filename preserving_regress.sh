#!/bin/bash
# Runs every check against the archived property-PRESERVING rewrites of the library (seeded/preserving/):
# substantial re-implementations that keep the property. Every check must stay silent (exit 0).
cd "$(dirname "$0")"
bad=0
for d in seeded/preserving/C*-p*/; do
  id=$(basename $d | cut -d- -f1)
  out=$(./seedtest.sh $d/patch.diff $id ${1:-quick} 2>&1 | grep -av KNOWN-FINDING)
  if echo "$out" | grep -q "exit=0"; then echo "SILENT   $d"; else echo "ALARM    $d $(echo "$out" | grep -a 'VIOLATION\|INFRA' | head -1 | cut -c1-200)"; bad=1; fi
done
exit $bad
