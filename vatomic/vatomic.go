// Package vatomic replaces sync/atomic in the instrumented build: one
// scheduling point per call, then the real sync/atomic operation (Go's atomics
// are sequentially consistent, so interleaving semantics is exact).
package vatomic

import (
	"sync/atomic"
	"unsafe"

	"verif/vrt"
)

//go:norace
func pt(kind string, addr unsafe.Pointer, write bool) {
	if vrt.Running() {
		vrt.PointOp(&vrt.Op{Kind: kind, Obj: addr, Write: write})
	}
}

func LoadPointer(addr *unsafe.Pointer) unsafe.Pointer {
	pt("atomic.LoadPointer", unsafe.Pointer(addr), false)
	return atomic.LoadPointer(addr)
}
func StorePointer(addr *unsafe.Pointer, val unsafe.Pointer) {
	pt("atomic.StorePointer", unsafe.Pointer(addr), true)
	atomic.StorePointer(addr, val)
}
func SwapPointer(addr *unsafe.Pointer, new unsafe.Pointer) unsafe.Pointer {
	pt("atomic.SwapPointer", unsafe.Pointer(addr), true)
	return atomic.SwapPointer(addr, new)
}
func CompareAndSwapPointer(addr *unsafe.Pointer, old, new unsafe.Pointer) bool {
	pt("atomic.CompareAndSwapPointer", unsafe.Pointer(addr), true)
	return atomic.CompareAndSwapPointer(addr, old, new)
}

func LoadInt32(addr *int32) int32 {
	pt("atomic.LoadInt32", unsafe.Pointer(addr), false)
	return atomic.LoadInt32(addr)
}
func StoreInt32(addr *int32, v int32) {
	pt("atomic.StoreInt32", unsafe.Pointer(addr), true)
	atomic.StoreInt32(addr, v)
}
func AddInt32(addr *int32, d int32) int32 {
	pt("atomic.AddInt32", unsafe.Pointer(addr), true)
	return atomic.AddInt32(addr, d)
}
func SwapInt32(addr *int32, v int32) int32 {
	pt("atomic.SwapInt32", unsafe.Pointer(addr), true)
	return atomic.SwapInt32(addr, v)
}
func CompareAndSwapInt32(addr *int32, old, new int32) bool {
	pt("atomic.CompareAndSwapInt32", unsafe.Pointer(addr), true)
	return atomic.CompareAndSwapInt32(addr, old, new)
}
func LoadUint32(addr *uint32) uint32 {
	pt("atomic.LoadUint32", unsafe.Pointer(addr), false)
	return atomic.LoadUint32(addr)
}
func StoreUint32(addr *uint32, v uint32) {
	pt("atomic.StoreUint32", unsafe.Pointer(addr), true)
	atomic.StoreUint32(addr, v)
}
func AddUint32(addr *uint32, d uint32) uint32 {
	pt("atomic.AddUint32", unsafe.Pointer(addr), true)
	return atomic.AddUint32(addr, d)
}
func SwapUint32(addr *uint32, v uint32) uint32 {
	pt("atomic.SwapUint32", unsafe.Pointer(addr), true)
	return atomic.SwapUint32(addr, v)
}
func CompareAndSwapUint32(addr *uint32, old, new uint32) bool {
	pt("atomic.CompareAndSwapUint32", unsafe.Pointer(addr), true)
	return atomic.CompareAndSwapUint32(addr, old, new)
}
func LoadInt64(addr *int64) int64 {
	pt("atomic.LoadInt64", unsafe.Pointer(addr), false)
	return atomic.LoadInt64(addr)
}
func StoreInt64(addr *int64, v int64) {
	pt("atomic.StoreInt64", unsafe.Pointer(addr), true)
	atomic.StoreInt64(addr, v)
}
func AddInt64(addr *int64, d int64) int64 {
	pt("atomic.AddInt64", unsafe.Pointer(addr), true)
	return atomic.AddInt64(addr, d)
}
func SwapInt64(addr *int64, v int64) int64 {
	pt("atomic.SwapInt64", unsafe.Pointer(addr), true)
	return atomic.SwapInt64(addr, v)
}
func CompareAndSwapInt64(addr *int64, old, new int64) bool {
	pt("atomic.CompareAndSwapInt64", unsafe.Pointer(addr), true)
	return atomic.CompareAndSwapInt64(addr, old, new)
}
func LoadUint64(addr *uint64) uint64 {
	pt("atomic.LoadUint64", unsafe.Pointer(addr), false)
	return atomic.LoadUint64(addr)
}
func StoreUint64(addr *uint64, v uint64) {
	pt("atomic.StoreUint64", unsafe.Pointer(addr), true)
	atomic.StoreUint64(addr, v)
}
func AddUint64(addr *uint64, d uint64) uint64 {
	pt("atomic.AddUint64", unsafe.Pointer(addr), true)
	return atomic.AddUint64(addr, d)
}
func CompareAndSwapUint64(addr *uint64, old, new uint64) bool {
	pt("atomic.CompareAndSwapUint64", unsafe.Pointer(addr), true)
	return atomic.CompareAndSwapUint64(addr, old, new)
}
func LoadUintptr(addr *uintptr) uintptr {
	pt("atomic.LoadUintptr", unsafe.Pointer(addr), false)
	return atomic.LoadUintptr(addr)
}
func StoreUintptr(addr *uintptr, v uintptr) {
	pt("atomic.StoreUintptr", unsafe.Pointer(addr), true)
	atomic.StoreUintptr(addr, v)
}
func CompareAndSwapUintptr(addr *uintptr, old, new uintptr) bool {
	pt("atomic.CompareAndSwapUintptr", unsafe.Pointer(addr), true)
	return atomic.CompareAndSwapUintptr(addr, old, new)
}

// Value is atomic.Value.
type Value struct{ v atomic.Value }

func (v *Value) Load() any {
	pt("atomic.Value.Load", unsafe.Pointer(v), false)
	return v.v.Load()
}
func (v *Value) Store(x any) {
	pt("atomic.Value.Store", unsafe.Pointer(v), true)
	v.v.Store(x)
}
func (v *Value) Swap(x any) any {
	pt("atomic.Value.Swap", unsafe.Pointer(v), true)
	return v.v.Swap(x)
}
func (v *Value) CompareAndSwap(old, new any) bool {
	pt("atomic.Value.CompareAndSwap", unsafe.Pointer(v), true)
	return v.v.CompareAndSwap(old, new)
}

// Typed atomics.
type Bool struct{ v atomic.Bool }

func (x *Bool) Load() bool   { pt("atomic.Bool.Load", unsafe.Pointer(x), false); return x.v.Load() }
func (x *Bool) Store(b bool) { pt("atomic.Bool.Store", unsafe.Pointer(x), true); x.v.Store(b) }
func (x *Bool) Swap(b bool) bool {
	pt("atomic.Bool.Swap", unsafe.Pointer(x), true)
	return x.v.Swap(b)
}
func (x *Bool) CompareAndSwap(o, n bool) bool {
	pt("atomic.Bool.CompareAndSwap", unsafe.Pointer(x), true)
	return x.v.CompareAndSwap(o, n)
}

type Int32 struct{ v atomic.Int32 }

func (x *Int32) Load() int32   { pt("atomic.Int32.Load", unsafe.Pointer(x), false); return x.v.Load() }
func (x *Int32) Store(b int32) { pt("atomic.Int32.Store", unsafe.Pointer(x), true); x.v.Store(b) }
func (x *Int32) Add(d int32) int32 {
	pt("atomic.Int32.Add", unsafe.Pointer(x), true)
	return x.v.Add(d)
}
func (x *Int32) Swap(b int32) int32 {
	pt("atomic.Int32.Swap", unsafe.Pointer(x), true)
	return x.v.Swap(b)
}
func (x *Int32) CompareAndSwap(o, n int32) bool {
	pt("atomic.Int32.CompareAndSwap", unsafe.Pointer(x), true)
	return x.v.CompareAndSwap(o, n)
}

type Uint32 struct{ v atomic.Uint32 }

func (x *Uint32) Load() uint32   { pt("atomic.Uint32.Load", unsafe.Pointer(x), false); return x.v.Load() }
func (x *Uint32) Store(b uint32) { pt("atomic.Uint32.Store", unsafe.Pointer(x), true); x.v.Store(b) }
func (x *Uint32) Add(d uint32) uint32 {
	pt("atomic.Uint32.Add", unsafe.Pointer(x), true)
	return x.v.Add(d)
}
func (x *Uint32) Swap(b uint32) uint32 {
	pt("atomic.Uint32.Swap", unsafe.Pointer(x), true)
	return x.v.Swap(b)
}
func (x *Uint32) CompareAndSwap(o, n uint32) bool {
	pt("atomic.Uint32.CompareAndSwap", unsafe.Pointer(x), true)
	return x.v.CompareAndSwap(o, n)
}

type Int64 struct{ v atomic.Int64 }

func (x *Int64) Load() int64   { pt("atomic.Int64.Load", unsafe.Pointer(x), false); return x.v.Load() }
func (x *Int64) Store(b int64) { pt("atomic.Int64.Store", unsafe.Pointer(x), true); x.v.Store(b) }
func (x *Int64) Add(d int64) int64 {
	pt("atomic.Int64.Add", unsafe.Pointer(x), true)
	return x.v.Add(d)
}
func (x *Int64) Swap(b int64) int64 {
	pt("atomic.Int64.Swap", unsafe.Pointer(x), true)
	return x.v.Swap(b)
}
func (x *Int64) CompareAndSwap(o, n int64) bool {
	pt("atomic.Int64.CompareAndSwap", unsafe.Pointer(x), true)
	return x.v.CompareAndSwap(o, n)
}

type Uint64 struct{ v atomic.Uint64 }

func (x *Uint64) Load() uint64   { pt("atomic.Uint64.Load", unsafe.Pointer(x), false); return x.v.Load() }
func (x *Uint64) Store(b uint64) { pt("atomic.Uint64.Store", unsafe.Pointer(x), true); x.v.Store(b) }
func (x *Uint64) Add(d uint64) uint64 {
	pt("atomic.Uint64.Add", unsafe.Pointer(x), true)
	return x.v.Add(d)
}
func (x *Uint64) CompareAndSwap(o, n uint64) bool {
	pt("atomic.Uint64.CompareAndSwap", unsafe.Pointer(x), true)
	return x.v.CompareAndSwap(o, n)
}

type Pointer[T any] struct{ v atomic.Pointer[T] }

func (x *Pointer[T]) Load() *T {
	pt("atomic.Pointer.Load", unsafe.Pointer(x), false)
	return x.v.Load()
}
func (x *Pointer[T]) Store(p *T) { pt("atomic.Pointer.Store", unsafe.Pointer(x), true); x.v.Store(p) }
func (x *Pointer[T]) Swap(p *T) *T {
	pt("atomic.Pointer.Swap", unsafe.Pointer(x), true)
	return x.v.Swap(p)
}
func (x *Pointer[T]) CompareAndSwap(o, n *T) bool {
	pt("atomic.Pointer.CompareAndSwap", unsafe.Pointer(x), true)
	return x.v.CompareAndSwap(o, n)
}

// ---- the remaining functions and types of sync/atomic

func SwapUint64(addr *uint64, v uint64) uint64 {
	pt("atomic.SwapUint64", unsafe.Pointer(addr), true)
	return atomic.SwapUint64(addr, v)
}
func SwapUintptr(addr *uintptr, v uintptr) uintptr {
	pt("atomic.SwapUintptr", unsafe.Pointer(addr), true)
	return atomic.SwapUintptr(addr, v)
}
func AddUintptr(addr *uintptr, d uintptr) uintptr {
	pt("atomic.AddUintptr", unsafe.Pointer(addr), true)
	return atomic.AddUintptr(addr, d)
}
func AndInt32(addr *int32, m int32) int32 {
	pt("atomic.AndInt32", unsafe.Pointer(addr), true)
	return atomic.AndInt32(addr, m)
}
func OrInt32(addr *int32, m int32) int32 {
	pt("atomic.OrInt32", unsafe.Pointer(addr), true)
	return atomic.OrInt32(addr, m)
}
func AndUint32(addr *uint32, m uint32) uint32 {
	pt("atomic.AndUint32", unsafe.Pointer(addr), true)
	return atomic.AndUint32(addr, m)
}
func OrUint32(addr *uint32, m uint32) uint32 {
	pt("atomic.OrUint32", unsafe.Pointer(addr), true)
	return atomic.OrUint32(addr, m)
}
func AndInt64(addr *int64, m int64) int64 {
	pt("atomic.AndInt64", unsafe.Pointer(addr), true)
	return atomic.AndInt64(addr, m)
}
func OrInt64(addr *int64, m int64) int64 {
	pt("atomic.OrInt64", unsafe.Pointer(addr), true)
	return atomic.OrInt64(addr, m)
}
func AndUint64(addr *uint64, m uint64) uint64 {
	pt("atomic.AndUint64", unsafe.Pointer(addr), true)
	return atomic.AndUint64(addr, m)
}
func OrUint64(addr *uint64, m uint64) uint64 {
	pt("atomic.OrUint64", unsafe.Pointer(addr), true)
	return atomic.OrUint64(addr, m)
}
func AndUintptr(addr *uintptr, m uintptr) uintptr {
	pt("atomic.AndUintptr", unsafe.Pointer(addr), true)
	return atomic.AndUintptr(addr, m)
}
func OrUintptr(addr *uintptr, m uintptr) uintptr {
	pt("atomic.OrUintptr", unsafe.Pointer(addr), true)
	return atomic.OrUintptr(addr, m)
}

type Uintptr struct{ v atomic.Uintptr }

func (x *Uintptr) Load() uintptr {
	pt("atomic.Uintptr.Load", unsafe.Pointer(x), false)
	return x.v.Load()
}
func (x *Uintptr) Store(b uintptr) { pt("atomic.Uintptr.Store", unsafe.Pointer(x), true); x.v.Store(b) }
func (x *Uintptr) Add(d uintptr) uintptr {
	pt("atomic.Uintptr.Add", unsafe.Pointer(x), true)
	return x.v.Add(d)
}
func (x *Uintptr) Swap(b uintptr) uintptr {
	pt("atomic.Uintptr.Swap", unsafe.Pointer(x), true)
	return x.v.Swap(b)
}
func (x *Uintptr) CompareAndSwap(o, n uintptr) bool {
	pt("atomic.Uintptr.CompareAndSwap", unsafe.Pointer(x), true)
	return x.v.CompareAndSwap(o, n)
}
func (x *Uint64) Swap(b uint64) uint64 {
	pt("atomic.Uint64.Swap", unsafe.Pointer(x), true)
	return x.v.Swap(b)
}
func (x *Int32) And(m int32) int32 {
	pt("atomic.Int32.And", unsafe.Pointer(x), true)
	return x.v.And(m)
}
func (x *Int32) Or(m int32) int32 { pt("atomic.Int32.Or", unsafe.Pointer(x), true); return x.v.Or(m) }
func (x *Uint32) And(m uint32) uint32 {
	pt("atomic.Uint32.And", unsafe.Pointer(x), true)
	return x.v.And(m)
}
func (x *Uint32) Or(m uint32) uint32 {
	pt("atomic.Uint32.Or", unsafe.Pointer(x), true)
	return x.v.Or(m)
}
func (x *Int64) And(m int64) int64 {
	pt("atomic.Int64.And", unsafe.Pointer(x), true)
	return x.v.And(m)
}
func (x *Int64) Or(m int64) int64 { pt("atomic.Int64.Or", unsafe.Pointer(x), true); return x.v.Or(m) }
func (x *Uint64) And(m uint64) uint64 {
	pt("atomic.Uint64.And", unsafe.Pointer(x), true)
	return x.v.And(m)
}
func (x *Uint64) Or(m uint64) uint64 {
	pt("atomic.Uint64.Or", unsafe.Pointer(x), true)
	return x.v.Or(m)
}
