#!/usr/bin/env python3
"""Systematic single-token mutation of the library (a complement to the hand-made seeded changes).

For every anchored source file and every occurrence of a mutable token (comparison, arithmetic,
boolean operators, small constants, `true/false`, `:=`-less `return x` -> zero is NOT attempted) one
mutant is generated in a scratch worktree of /repo (never in /repo itself). A mutant that still
compiles and keeps the package's own tests green is run against the quick checks of the properties
anchored in that file (`./seedtest.sh`). Survivors (tests pass AND all checks pass) are listed for
manual review: each is either an equivalent mutant or a gap.

usage: mutate.py [file ...]      (default: all anchored files)   env MUT_JOBS (default 4), MUT_MAX per file
"""
import json, os, re, subprocess, sys, collections, hashlib, concurrent.futures, shutil

ENV = dict(os.environ, GOFLAGS="-mod=mod", GOPROXY="off", GOSUMDB="off", GOTOOLCHAIN="local")
HERE = os.path.dirname(os.path.abspath(__file__))
REPO = os.environ.get("VERIF_REPO", "/repo")

anch = collections.defaultdict(list)
for l in open(HERE + "/properties.jsonl"):
    p = json.loads(l)
    for f in p["anchors"]["files"]:
        anch[f].append(p["id"])

SWAPS = [
    (r"<=", [">=", "<"]), (r">=", ["<=", ">"]), (r"(?<![<\-=!>:+*/&|])<(?![<\-=])", ["<="]), (r"(?<![>\-=])>(?![>=])", [">="]),
    (r"==", ["!="]), (r"!=", ["=="]), (r"&&", ["||"]), (r"\|\|", ["&&"]),
    (r"(?<![+\w\)\]]) ?\+ ?1\b", [" - 1", " + 0"]), (r" - 1\b", [" + 1", " - 0"]), (r"\+\+", ["--"]), (r"--", ["++"]),
    (r"\btrue\b", ["false"]), (r"\bfalse\b", ["true"]), (r" \+ ", [" - "]), (r" - ", [" + "]),
    (r"\[0\]", ["[1]"]), (r"\b0\b", ["1"]), (r"\b1\b", ["0", "2"]),
    (r"!(?=[a-zA-Z(])", [""]),
]


def deletions(src):
    """statement deletion: every line that is one simple statement is replaced by an empty line"""
    out = []
    depth = 0
    for ln, line in enumerate(src.split("\n")):
        s = line.strip()
        d0 = depth
        depth += line.count("{") - line.count("}")
        if d0 < 1 or not line.startswith("\t") or not s or s.startswith("//"):
            continue
        if s.endswith("{") or s.startswith("}") or s.endswith(",") or s.endswith("(") or s.startswith("case ") or s.startswith("default:") or s.startswith("return") or s.startswith("var ") or s.startswith("panic(") or ":=" in s or s.startswith("break") or s.startswith("continue") or s.startswith("go "):
            continue
        if s.count("(") != s.count(")") or s.count("{") != s.count("}"):
            continue
        out.append((ln, line, ""))
    return out


def mutants(src):
    if os.environ.get("MUT_MODE") == "delete":
        return deletions(src)
    out = []
    lines = src.split("\n")
    in_block = False
    for ln, line in enumerate(lines):
        s = line.strip()
        if s.startswith("/*"):
            in_block = True
        if in_block:
            if "*/" in s:
                in_block = False
            continue
        if not s or s.startswith("//") or s.startswith("import") or s.startswith("package") or s.startswith('"'):
            continue
        code = line.split("//")[0]
        if 'panic(fmt' in code or 'Sprintf' in code and '"' in code:
            continue
        for pat, reps in SWAPS:
            for m in re.finditer(pat, code):
                # skip inside string literals (odd number of quotes before)
                if code[:m.start()].count('"') % 2 == 1 or code[:m.start()].count("'") % 2 == 1:
                    continue
                for r in reps:
                    new = code[:m.start()] + r + code[m.end():] + line[len(code):]
                    if new != line:
                        out.append((ln, line, new))
    return out


def run(cmd, cwd=None, timeout=900):
    try:
        p = subprocess.run(cmd, cwd=cwd, env=ENV, stdout=subprocess.PIPE, stderr=subprocess.STDOUT, timeout=timeout, text=True)
        return p.returncode, p.stdout
    except subprocess.TimeoutExpired:
        return 124, "timeout"


def one(job):
    f, idx, ln, old, new = job
    wt = f"/tmp/mut-{os.getpid()}-{idx}"
    run(["git", "-C", REPO, "worktree", "remove", "--force", wt])
    rc, out = run(["git", "-C", REPO, "worktree", "add", "-q", "--detach", wt, "HEAD"])
    if rc != 0:
        return (f, ln, old, new, "INFRA worktree " + out[-200:])
    try:
        path = os.path.join(wt, f)
        lines = open(path).read().split("\n")
        lines[ln] = new
        open(path, "w").write("\n".join(lines))
        pkg = "./" + os.path.dirname(f) if os.path.dirname(f) else "."
        rc, out = run(["go", "build", "./..."], cwd=wt, timeout=300)
        if rc != 0:
            return (f, ln, old, new, "NOBUILD")
        rc, out = run(["go", "test", "-vet=off", "-count=1", "-timeout", "120s", "./..."], cwd=wt, timeout=400)
        if rc != 0:
            return (f, ln, old, new, "KILLED-BY-SUITE")
        rc, diff = run(["git", "diff"], cwd=wt)
        patch = f"/tmp/mut-{os.getpid()}-{idx}.diff"
        open(patch, "w").write(diff)
        verdicts = []
        for pid in anch[f]:
            rc, out = run([HERE + "/seedtest.sh", patch, pid, "quick"], cwd=HERE, timeout=1500)
            if "exit=1" in out:
                sig = re.findall(r"sig=(\S+)", out)
                os.remove(patch)
                return (f, ln, old, new, f"DETECTED {pid} {sig[0] if sig else ''}")
            verdicts.append(pid + ("=ok" if "exit=0" in out else "=infra"))
        keep = HERE + f"/.work/survivors/{os.path.basename(f)}-{ln+1}-{hashlib.md5(new.encode()).hexdigest()[:6]}.diff"
        os.makedirs(os.path.dirname(keep), exist_ok=True)
        shutil.move(patch, keep)
        return (f, ln, old, new, "SURVIVED " + " ".join(verdicts) + " " + keep)
    finally:
        run(["git", "-C", REPO, "worktree", "remove", "--force", wt])


def main():
    files = sys.argv[1:] or sorted(anch)
    jobs = []
    mx = int(os.environ.get("MUT_MAX", "100000"))
    for f in files:
        src = open(os.path.join(REPO, f)).read()
        ms = mutants(src)
        step = max(1, len(ms) // mx) if mx < len(ms) else 1
        for i, (ln, old, new) in enumerate(ms[::step]):
            jobs.append((f, len(jobs), ln, old, new))
    print(f"{len(jobs)} mutants over {len(files)} files", flush=True)
    counts = collections.Counter()
    with concurrent.futures.ThreadPoolExecutor(max_workers=int(os.environ.get("MUT_JOBS", "4"))) as ex:
        for f, ln, old, new, verdict in ex.map(one, jobs):
            counts[verdict.split()[0]] += 1
            print(f"{verdict.split()[0]:16s} {f}:{ln+1}: {old.strip()[:70]}  ->  {new.strip()[:70]}  [{' '.join(verdict.split()[1:3])}]", flush=True)
    print(dict(counts))


if __name__ == "__main__":
    main()
