#!/bin/bash
# Regression test of the instrumenting pass: the rewritten copy of a package from a module whose go.mod says
# "go 1.18" must keep per-LOOP loop variables (a //line directive in the generated file used to make the
# compiler forget the file's language version and switch to per-iteration variables: a different program).
set -e
export GOFLAGS=-mod=mod GOPROXY=off GOSUMDB=off GOTOOLCHAIN=local
HERE=$(cd "$(dirname "$0")" && pwd)
T=$(mktemp -d)
trap 'rm -rf $T' EXIT
mkdir -p $T/dep/p $T/out
cat > $T/dep/go.mod <<'EOT'
module example.com/dep
go 1.18
EOT
cat > $T/dep/p/p.go <<'EOT'
package p

import "sync"

// Collect captures the loop variable in closures that run after the loop.
func Collect() []int {
	var mu sync.Mutex
	var fs []func() int
	for _, v := range []int{1, 2, 3} {
		fs = append(fs, func() int { mu.Lock(); defer mu.Unlock(); return v })
	}
	var out []int
	for _, f := range fs {
		out = append(out, f())
	}
	return out
}
EOT
cat > $T/go.mod <<EOT
module example.com/main
go 1.23
require (
	example.com/dep v0.0.0
	verif v0.0.0
)
replace example.com/dep => ./dep
replace verif => $HERE
EOT
cat > $T/main.go <<'EOT'
package main

import (
	"fmt"

	"example.com/dep/p"
)

func main() { fmt.Println(p.Collect()) }
EOT
(cd $HERE && go build -o $T/vinstr ./cmd/vinstr)
$T/vinstr -repo $T/dep -out $T/out -mod example.com/dep p >/dev/null
cd $T
plain=$(go run . 2>&1)
instr=$(go run -overlay $T/out/overlay.json . 2>&1)
if [ "$plain" != "[3 3 3]" ] || [ "$instr" != "$plain" ]; then
  echo "LOOPVAR-TEST FAILED: plain build prints $plain, instrumented build prints $instr"; exit 1
fi
echo "loopvar test ok: plain and instrumented builds both print $plain"
