module verif

go 1.23

replace gopkg.in/typ.v4 => /repo

require gopkg.in/typ.v4 v4.0.0-00010101000000-000000000000
