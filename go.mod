module verif

go 1.23

replace gopkg.in/typ.v4 => /repo

require (
	github.com/anishathalye/porcupine v1.3.0
	gopkg.in/typ.v4 v4.0.0-00010101000000-000000000000
)
