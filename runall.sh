#!/bin/bash
# runs every check of a tier sequentially and prints one line per check
TIER=${1:-quick}
cd "$(dirname "$0")"
for i in 01 02 03 04 05 06 07 08 09 10 11 12 13 14 15 16 17 18 19 20; do
  s=$(date +%s.%N)
  out=$(timeout ${2:-3600} ./vcheck.sh C$i $TIER 2>&1); rc=$?
  e=$(date +%s.%N)
  printf "C%s rc=%d %.1fs %s\n" $i $rc $(echo "$e - $s" | bc) "$(echo "$out" | grep -E '^(OK|VIOLATION|INFRA)' | head -2 | cut -c1-160 | tr '\n' ' ')"
done
