// Package vrand replaces math/rand in the instrumented build: the package-level generator is seeded
// with a constant before every execution (an automatically seeded generator would make schedules
// unrepeatable; every sequence of numbers is a possible behaviour of the real one).
package vrand

import (
	"math/rand"
	"sync"

	"verif/vrt"
)

type (
	Rand     = rand.Rand
	Source   = rand.Source
	Source64 = rand.Source64
	Zipf     = rand.Zipf
)

var (
	mu sync.Mutex // the real generator locks too
	g  = rand.New(rand.NewSource(1))
)

func init() {
	vrt.RegisterReset("verif/vrand", -1, func() { mu.Lock(); g = rand.New(rand.NewSource(1)); mu.Unlock() })
}

func New(src Source) *Rand                             { return rand.New(src) }
func NewSource(seed int64) Source                      { return rand.NewSource(seed) }
func NewZipf(r *Rand, s, v float64, imax uint64) *Zipf { return rand.NewZipf(r, s, v, imax) }

func Seed(seed int64)      { mu.Lock(); g.Seed(seed); mu.Unlock() }
func Int() int             { mu.Lock(); defer mu.Unlock(); return g.Int() }
func Intn(n int) int       { mu.Lock(); defer mu.Unlock(); return g.Intn(n) }
func Int31() int32         { mu.Lock(); defer mu.Unlock(); return g.Int31() }
func Int31n(n int32) int32 { mu.Lock(); defer mu.Unlock(); return g.Int31n(n) }
func Int63() int64         { mu.Lock(); defer mu.Unlock(); return g.Int63() }
func Int63n(n int64) int64 { mu.Lock(); defer mu.Unlock(); return g.Int63n(n) }
func Uint32() uint32       { mu.Lock(); defer mu.Unlock(); return g.Uint32() }
func Uint64() uint64       { mu.Lock(); defer mu.Unlock(); return g.Uint64() }
func Float32() float32     { mu.Lock(); defer mu.Unlock(); return g.Float32() }
func Float64() float64     { mu.Lock(); defer mu.Unlock(); return g.Float64() }
func ExpFloat64() float64  { mu.Lock(); defer mu.Unlock(); return g.ExpFloat64() }
func NormFloat64() float64 { mu.Lock(); defer mu.Unlock(); return g.NormFloat64() }
func Perm(n int) []int     { mu.Lock(); defer mu.Unlock(); return g.Perm(n) }
func Shuffle(n int, swap func(i, j int)) {
	mu.Lock()
	defer mu.Unlock()
	g.Shuffle(n, swap)
}
func Read(p []byte) (int, error) { mu.Lock(); defer mu.Unlock(); return g.Read(p) }
