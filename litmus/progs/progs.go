// Package progs holds the shim-conformance (litmus) programs: tiny concurrent programs
// written against the real sync / sync/atomic / time packages and plain channel syntax.
// They are built twice: as they are (real runtime) and through the instrumenting overlay
// (model). For every program the set of outcomes over ALL model schedules must equal the
// expected set, and every outcome observed on the real runtime must be in it.
package progs

import (
	"context"
	"fmt"
	"reflect"
	"runtime"
	"sync"
	"sync/atomic"
	"time"
)

type Prog struct {
	Name   string
	Run    func() string
	Expect []string // exactly the model's outcome set
}

// catch runs f and turns a panic into an outcome string.
func catch(f func() string) (out string) {
	defer func() {
		if r := recover(); r != nil {
			out = "PANIC:" + fmt.Sprint(r)
		}
	}()
	return f()
}

var (
	gMu    sync.Mutex
	gCount int
)

var All = []Prog{
	{"chan/unbuffered-rendezvous", func() string {
		ch := make(chan int)
		var wg sync.WaitGroup
		wg.Add(1)
		go func() { defer wg.Done(); ch <- 7 }()
		v := <-ch
		wg.Wait()
		return fmt.Sprint(v)
	}, []string{"7"}},
	{"chan/buffered-fifo", func() string {
		ch := make(chan int, 2)
		ch <- 1
		ch <- 2
		l := len(ch)
		a, b := <-ch, <-ch
		return fmt.Sprint(l, cap(ch), a, b, len(ch))
	}, []string{"2 2 1 2 0"}},
	{"chan/buffered-sender-blocks-until-recv", func() string {
		ch := make(chan int, 1)
		var order []string
		var mu sync.Mutex
		var wg sync.WaitGroup
		wg.Add(1)
		go func() {
			defer wg.Done()
			ch <- 1
			ch <- 2
			mu.Lock()
			order = append(order, "sent2")
			mu.Unlock()
		}()
		a := <-ch
		b := <-ch
		wg.Wait()
		return fmt.Sprint(a, b, order)
	}, []string{"1 2 [sent2]"}},
	{"chan/recv-closed-empty", func() string {
		ch := make(chan int)
		close(ch)
		v, ok := <-ch
		w := <-ch
		return fmt.Sprint(v, ok, w)
	}, []string{"0 false 0"}},
	{"chan/recv-closed-drains-buffer-first", func() string {
		ch := make(chan int, 2)
		ch <- 5
		close(ch)
		a, ok1 := <-ch
		b, ok2 := <-ch
		return fmt.Sprint(a, ok1, b, ok2)
	}, []string{"5 true 0 false"}},
	{"chan/send-on-closed-panics", func() string {
		return catch(func() string {
			ch := make(chan int, 1)
			close(ch)
			ch <- 1
			return "sent"
		})
	}, []string{"PANIC:send on closed channel"}},
	{"chan/close-of-closed-panics", func() string {
		return catch(func() string {
			ch := make(chan int)
			close(ch)
			close(ch)
			return "closed twice"
		})
	}, []string{"PANIC:close of closed channel"}},
	{"chan/close-of-nil-panics", func() string {
		return catch(func() string {
			var ch chan int
			close(ch)
			return "closed nil"
		})
	}, []string{"PANIC:close of nil channel"}},
	{"chan/nil-channel-never-ready", func() string {
		var ch chan int
		select {
		case v := <-ch:
			return fmt.Sprint("recv", v)
		case ch <- 1:
			return "sent"
		default:
			return "default"
		}
	}, []string{"default"}},
	{"select/default-when-none-ready", func() string {
		a, b := make(chan int), make(chan int, 1)
		b <- 1
		select {
		case <-a:
			return "a"
		case b <- 2:
			return "b"
		default:
			return "default"
		}
	}, []string{"default"}},
	{"select/two-ready-either", func() string {
		a, b := make(chan int, 1), make(chan int, 1)
		a <- 1
		b <- 2
		select {
		case v := <-a:
			return fmt.Sprint("a", v)
		case v := <-b:
			return fmt.Sprint("b", v)
		}
	}, []string{"a1", "b2"}},
	{"select/ready-case-beats-default", func() string {
		a := make(chan int, 1)
		a <- 3
		select {
		case v, ok := <-a:
			return fmt.Sprint(v, ok)
		default:
			return "default"
		}
	}, []string{"3 true"}},
	{"select/send-and-recv-between-selects", func() string {
		ch := make(chan int)
		res := make(chan string, 2)
		for i := 0; i < 2; i++ {
			i := i
			go func() {
				select {
				case ch <- 10 + i:
					res <- fmt.Sprint("s", i)
				case v := <-ch:
					res <- fmt.Sprint("r", i, "=", v)
				}
			}()
		}
		x, y := <-res, <-res
		if x > y {
			x, y = y, x
		}
		return x + " " + y
	}, []string{"r0=11 s1", "r1=10 s0"}},
	{"chan/blocked-sender-woken-by-close-panics", func() string {
		ch := make(chan int)
		out := make(chan string, 1)
		started := make(chan struct{})
		go func() {
			out <- catch(func() string {
				close(started)
				ch <- 1
				return "sent"
			})
		}()
		<-started
		close(ch)
		r := <-out
		if r == "sent" {
			return "impossible: sent"
		}
		return r
	}, []string{"PANIC:send on closed channel"}},
	{"chan/range-until-close", func() string {
		ch := make(chan int, 1)
		go func() {
			for i := 1; i <= 3; i++ {
				ch <- i
			}
			close(ch)
		}()
		sum := 0
		for v := range ch {
			sum = sum*10 + v
		}
		return fmt.Sprint(sum)
	}, []string{"123"}},
	{"chan/two-senders-one-receiver-order", func() string {
		ch := make(chan int)
		var wg sync.WaitGroup
		for i := 1; i <= 2; i++ {
			i := i
			wg.Add(1)
			go func() { defer wg.Done(); ch <- i }()
		}
		a, b := <-ch, <-ch
		wg.Wait()
		return fmt.Sprint(a, b)
	}, []string{"1 2", "2 1"}},
	{"mutex/mutual-exclusion-counter", func() string {
		var mu sync.Mutex
		n := 0
		var wg sync.WaitGroup
		for i := 0; i < 2; i++ {
			wg.Add(1)
			go func() {
				defer wg.Done()
				mu.Lock()
				t := n
				n = t + 1
				mu.Unlock()
			}()
		}
		wg.Wait()
		return fmt.Sprint(n)
	}, []string{"2"}},
	{"mutex/trylock", func() string {
		var mu sync.Mutex
		a := mu.TryLock()
		b := mu.TryLock()
		mu.Unlock()
		c := mu.TryLock()
		return fmt.Sprint(a, b, c)
	}, []string{"true false true"}},
	{"mutex/trylock-races-with-holder", func() string {
		var mu sync.Mutex
		got := make(chan bool, 1)
		mu.Lock()
		go func() { got <- mu.TryLock() }()
		mu.Unlock()
		return fmt.Sprint(<-got)
	}, []string{"false", "true"}},
	{"rwmutex/readers-share-writers-exclude", func() string {
		var mu sync.RWMutex
		mu.RLock()
		a := mu.TryRLock()
		b := mu.TryLock()
		mu.RUnlock()
		mu.RUnlock()
		c := mu.TryLock()
		d := mu.TryRLock()
		mu.Unlock()
		return fmt.Sprint(a, b, c, d)
	}, []string{"true false true false"}},
	{"rwmutex/pending-writer-holds-back-new-readers", func() string {
		var mu sync.RWMutex
		mu.RLock()
		locked := make(chan struct{})
		go func() { mu.Lock(); close(locked); mu.Unlock() }()
		r := mu.TryRLock() // false once the writer has announced itself, true before
		if r {
			mu.RUnlock()
		}
		mu.RUnlock()
		<-locked
		return fmt.Sprint(r)
	}, []string{"false", "true"}},
	{"rwmutex/writer-waits-for-readers", func() string {
		var mu sync.RWMutex
		var order []string
		var omu sync.Mutex
		note := func(s string) { omu.Lock(); order = append(order, s); omu.Unlock() }
		mu.RLock()
		done := make(chan struct{})
		go func() { mu.Lock(); note("W"); mu.Unlock(); close(done) }()
		note("R")
		mu.RUnlock()
		<-done
		return fmt.Sprint(order)
	}, []string{"[R W]"}},
	{"waitgroup/wait-after-done", func() string {
		var wg sync.WaitGroup
		x := 0
		wg.Add(2)
		for i := 0; i < 2; i++ {
			go func() { x++; wg.Done() }()
		}
		wg.Wait()
		return "ok"
	}, []string{"ok"}},
	{"waitgroup/negative-counter-panics", func() string {
		return catch(func() string {
			var wg sync.WaitGroup
			wg.Add(1)
			wg.Done()
			wg.Done()
			return "no panic"
		})
	}, []string{"PANIC:sync: negative WaitGroup counter"}},
	{"once/runs-once-and-waits", func() string {
		var o sync.Once
		n := int32(0)
		flag := false
		var wg sync.WaitGroup
		seen := make([]bool, 2)
		for i := 0; i < 2; i++ {
			i := i
			wg.Add(1)
			go func() {
				defer wg.Done()
				o.Do(func() { atomic.AddInt32(&n, 1); flag = true })
				seen[i] = flag
			}()
		}
		wg.Wait()
		return fmt.Sprint(n, seen)
	}, []string{"1 [true true]"}},
	{"atomic/add-and-cas", func() string {
		var n int32
		var wins int32
		var wg sync.WaitGroup
		for i := 0; i < 2; i++ {
			wg.Add(1)
			go func() {
				defer wg.Done()
				atomic.AddInt32(&n, 1)
				if atomic.CompareAndSwapInt32(&wins, 0, 1) {
					atomic.AddInt32(&n, 10)
				}
			}()
		}
		wg.Wait()
		return fmt.Sprint(atomic.LoadInt32(&n), atomic.LoadInt32(&wins))
	}, []string{"12 1"}},
	{"atomic/value", func() string {
		var v atomic.Value
		a := v.Load()
		v.Store(5)
		b := v.Swap(6)
		c := v.CompareAndSwap(5, 7)
		d := v.CompareAndSwap(6, 7)
		return fmt.Sprint(a, b, c, d, v.Load())
	}, []string{"<nil> 5 false true 7"}},
	{"atomic/lost-update-without-atomicity", func() string {
		var n int32
		var wg sync.WaitGroup
		for i := 0; i < 2; i++ {
			wg.Add(1)
			go func() {
				defer wg.Done()
				t := atomic.LoadInt32(&n)
				atomic.StoreInt32(&n, t+1)
			}()
		}
		wg.Wait()
		return fmt.Sprint(atomic.LoadInt32(&n))
	}, []string{"1", "2"}},
	{"timer/ready-channel-or-timer", func() string {
		ch := make(chan int, 1)
		ch <- 1
		t := time.NewTimer(time.Hour)
		select {
		case <-ch:
			return fmt.Sprint("chan stop=", t.Stop())
		case <-t.C:
			return "timer"
		}
	}, []string{"chan stop=false", "chan stop=true", "timer"}},
	{"timer/fires-when-nothing-else-can-happen", func() string {
		select {
		case <-time.After(time.Millisecond):
			return "fired"
		}
	}, []string{"fired"}},
	{"timer/reset-after-fire", func() string {
		t := time.NewTimer(time.Millisecond)
		<-t.C
		was := t.Reset(time.Millisecond)
		<-t.C
		return fmt.Sprint("fired twice, Reset=", was)
	}, []string{"fired twice, Reset=false"}},
	{"timer/stop-then-reset", func() string {
		t := time.NewTimer(time.Hour)
		stopped := t.Stop()
		was := t.Reset(time.Millisecond)
		<-t.C
		return fmt.Sprint(stopped, was)
	}, []string{"false false", "true false"}},
	{"pool/put-get", func() string {
		p := sync.Pool{New: func() any { return "new" }}
		p.Put("old")
		return fmt.Sprint(p.Get())
	}, []string{"new", "old"}},
	{"global/package-level-mutex-and-counter", func() string {
		// state kept at package level: an execution that the explorer cuts short while gMu is held
		// must not leave it locked for the next one (generated resets, see cmd/vinstr)
		gMu.Lock()
		start := gCount
		gMu.Unlock()
		var wg sync.WaitGroup
		for i := 0; i < 2; i++ {
			wg.Add(1)
			go func() {
				defer wg.Done()
				gMu.Lock()
				gCount++
				gMu.Unlock()
			}()
		}
		wg.Wait()
		gMu.Lock()
		defer gMu.Unlock()
		return fmt.Sprint(gCount - start)
	}, []string{"2"}},
	{"context/cancel-vs-send", func() string {
		ctx, cancel := context.WithCancel(context.Background())
		ch := make(chan int)
		go func() { cancel() }()
		go func() {
			select {
			case ch <- 1:
			case <-ctx.Done():
			}
		}()
		select {
		case v := <-ch:
			return fmt.Sprint("got ", v)
		case <-ctx.Done():
			return fmt.Sprint("cancelled ", ctx.Err())
		}
	}, []string{"cancelled context canceled", "got 1"}},
	{"context/timeout-fires-when-nothing-else-can-happen", func() string {
		ctx, cancel := context.WithTimeout(context.Background(), time.Millisecond)
		defer cancel()
		<-ctx.Done()
		return fmt.Sprint(ctx.Err())
	}, []string{"context deadline exceeded"}},
	{"context/parent-cancels-child", func() string {
		parent, cancel := context.WithCancel(context.Background())
		child, cancel2 := context.WithTimeout(context.WithValue(parent, "k", 1), time.Hour)
		defer cancel2()
		go cancel()
		<-child.Done()
		return fmt.Sprint(child.Err(), parent.Err(), child.Value("k"))
		// timers are untimed in the model: the one-hour deadline may also win
	}, []string{"context canceled context canceled 1", "context deadline exceeded <nil> 1", "context deadline exceeded context canceled 1"}},
	{"context/timeout-vs-receive", func() string {
		ctx, cancel := context.WithTimeout(context.Background(), 20*time.Millisecond)
		defer cancel()
		ch := make(chan int, 1)
		go func() { ch <- 5 }()
		select {
		case v := <-ch:
			return fmt.Sprint(v)
		case <-ctx.Done():
			return "timeout"
		}
	}, []string{"5", "timeout"}},
	{"spin/gosched-wait", func() string {
		// a polite waiting loop: the waiter must not starve the thread it waits for
		var flag atomic.Bool
		go func() { flag.Store(true) }()
		n := 0
		for !flag.Load() {
			runtime.Gosched()
			n++
		}
		return "done"
	}, []string{"done"}},
	{"spin/busy-wait-on-an-atomic", func() string {
		var flag atomic.Int32
		go func() { flag.Store(1) }()
		for flag.Load() == 0 {
		}
		return "done"
	}, []string{"done"}},
	{"ticker/poll-until-done", func() string {
		var done atomic.Bool
		go func() { done.Store(true) }()
		tk := time.NewTicker(time.Millisecond)
		defer tk.Stop()
		n := 0
		for range tk.C {
			n++
			if done.Load() {
				break
			}
		}
		return "done"
	}, []string{"done"}},
	{"reflect/select-send-or-recv", func() string {
		a, b := make(chan int), make(chan int, 1)
		go func() { a <- 1 }()
		go func() { b <- 2 }()
		out := ""
		for i := 0; i < 2; i++ {
			k, v, ok := reflect.Select([]reflect.SelectCase{
				{Dir: reflect.SelectRecv, Chan: reflect.ValueOf(a)},
				{Dir: reflect.SelectRecv, Chan: reflect.ValueOf(b)},
				{Dir: reflect.SelectSend}, // zero Chan: never ready
			})
			out += fmt.Sprint(k, v.Int(), ok, " ")
		}
		return out
	}, []string{"0 1 true 1 2 true ", "1 2 true 0 1 true "}},
	{"reflect/try-and-close", func() string {
		c := make(chan string, 1)
		v := reflect.ValueOf(c)
		out := fmt.Sprint(v.TrySend(reflect.ValueOf("x")), v.TrySend(reflect.ValueOf("y")))
		x, ok := v.TryRecv()
		out += fmt.Sprint(" ", x.String(), ok)
		x, ok = v.TryRecv()
		out += fmt.Sprint(" ", x.IsValid(), ok)
		done := make(chan bool)
		go func() { v.Send(reflect.ValueOf("z")); v.Close(); done <- true }()
		x, ok = v.Recv()
		out += fmt.Sprint(" ", x.String(), ok)
		<-done
		x, ok = v.Recv()
		out += fmt.Sprint(" ", x.String() == "", ok)
		k, _, _ := reflect.Select([]reflect.SelectCase{{Dir: reflect.SelectSend, Chan: reflect.ValueOf(make(chan int)), Send: reflect.ValueOf(1)}, {Dir: reflect.SelectDefault}})
		return out + fmt.Sprint(" ", k)
	}, []string{"true false xtrue false false ztrue true false 1"}},
	{"server-goroutine/parked-after-use", func() string {
		// a goroutine that owns the state and serves requests for ever: parked, not deadlocked, at the end
		req := make(chan func(*int))
		go func() {
			n := 0
			for f := range req {
				f(&n)
			}
		}()
		out := make(chan int, 2)
		var wg sync.WaitGroup
		for i := 0; i < 2; i++ {
			wg.Add(1)
			go func() {
				defer wg.Done()
				req <- func(n *int) { *n++; out <- *n }
			}()
		}
		wg.Wait()
		return fmt.Sprint(<-out + <-out)
	}, []string{"3"}},
	{"afterfunc/reset-runs-again", func() string {
		got := make(chan int, 4)
		n := 0
		var tm *time.Timer
		tm = time.AfterFunc(time.Microsecond, func() { n++; got <- n })
		a := <-got
		tm.Reset(time.Microsecond)
		b := <-got
		stopped := tm.Stop()
		return fmt.Sprint(a, b, stopped)
	}, []string{"1 2 false"}},
	{"finalizer/never-required", func() string {
		type box struct{ v int }
		b := &box{7}
		runtime.SetFinalizer(b, func(*box) {})
		runtime.KeepAlive(b)
		return fmt.Sprint(b.v)
	}, []string{"7"}},
	{"janitor/sleeps-for-ever", func() string {
		// a background goroutine that never ends must not keep the execution alive (nor count as a deadlock)
		var n atomic.Int64
		go func() {
			for {
				time.Sleep(time.Millisecond)
				n.Add(1)
			}
		}()
		done := make(chan bool)
		go func() { done <- true }()
		<-done
		return "done"
	}, []string{"done"}},
	{"janitor/ticker-for-ever", func() string {
		var n atomic.Int64
		tk := time.NewTicker(time.Millisecond)
		go func() {
			for range tk.C {
				n.Add(1)
			}
		}()
		var mu sync.Mutex
		mu.Lock()
		go func() { mu.Unlock() }()
		mu.Lock()
		return "done"
	}, []string{"done"}},
	{"clock/poll-until-deadline", func() string {
		start := time.Now()
		rounds := 0
		for time.Since(start) < 50*time.Microsecond {
			rounds++
		}
		deadline := time.Now().Add(20 * time.Microsecond)
		for time.Now().Before(deadline) {
			time.Sleep(5 * time.Microsecond)
		}
		return "done"
	}, []string{"done"}},
	{"pool/nil-new", func() string {
		var p sync.Pool
		return fmt.Sprint(p.Get())
	}, []string{"<nil>"}},
}
