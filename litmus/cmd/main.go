// litmus runs the shim-conformance programs: `litmus real` executes each program repeatedly
// on the real runtime and prints the observed outcome sets as JSON; `litmus model <real-binary>`
// explores ALL schedules of the rewritten programs under the controlled scheduler and requires
//   model outcome set == expected set   and   real outcome set ⊆ model outcome set.
package main

import (
	"encoding/json"
	"fmt"
	"os"
	"os/exec"
	"sort"
	"time"

	"verif/litmus/progs"
	"verif/vrt"
)

func main() {
	if len(os.Args) > 1 && os.Args[1] == "real" {
		out := map[string][]string{}
		for _, p := range progs.All {
			set := map[string]bool{}
			for i := 0; i < 300; i++ {
				ch := make(chan string, 1)
				go func() { ch <- p.Run() }()
				select {
				case s := <-ch:
					set[s] = true
				case <-time.After(2 * time.Second):
					set["DEADLOCK(real run timed out)"] = true
					i = 1 << 30
				}
			}
			for s := range set {
				out[p.Name] = append(out[p.Name], s)
			}
			sort.Strings(out[p.Name])
		}
		json.NewEncoder(os.Stdout).Encode(out)
		return
	}
	real := map[string][]string{}
	if len(os.Args) > 2 {
		b, err := exec.Command(os.Args[2], "real").Output()
		if err != nil || json.Unmarshal(b, &real) != nil {
			fmt.Println("LITMUS-ERROR: real run failed:", err)
			os.Exit(2)
		}
	}
	failed, execs, cachedExecs := 0, int64(0), int64(0)
	for _, p := range progs.All {
		var result string
		body := func(s *vrt.Sched) { result = ""; s.Spawn("main", func() { result = p.Run() }) }
		explore := func(bound int, cache bool) (map[string]bool, int64) {
			set := map[string]bool{}
			st := vrt.Explore(vrt.Options{MaxBound: bound, Cache: cache}, body, func(x *vrt.Exec) bool {
				switch {
				case x.Panic != "":
					set["UNCAUGHT-PANIC:"+x.Panic] = true
				case x.Deadlock:
					set["DEADLOCK"] = true
				case x.Livelock:
					set["LIVELOCK"] = true
				default:
					set[result] = true
				}
				return true
			})
			return set, st.Executions
		}
		set, n := explore(-1, false)
		st := struct{ Executions int64 }{n}
		execs += n
		// state-cache soundness self-test: the happens-before cache must not change the set of
		// outcomes, neither unbounded nor under a preemption bound
		cacheOK := true
		for _, bound := range []int{-1, 1} {
			plain, _ := explore(bound, false)
			cached, m := explore(bound, true)
			cachedExecs += m
			if fmt.Sprint(keys(plain)) != fmt.Sprint(keys(cached)) {
				cacheOK = false
				fmt.Printf("CACHE-MISMATCH %s bound=%d: without cache %v, with cache %v\n", p.Name, bound, keys(plain), keys(cached))
			}
		}
		var got []string
		for s := range set {
			got = append(got, s)
		}
		sort.Strings(got)
		want := append([]string{}, p.Expect...)
		sort.Strings(want)
		ok := fmt.Sprint(got) == fmt.Sprint(want) && cacheOK
		for _, r := range real[p.Name] {
			if !set[r] {
				ok = false
			}
		}
		status := "ok  "
		if !ok {
			status = "FAIL"
			failed++
		}
		fmt.Printf("%s %-48s schedules=%-6d model=%v real=%v\n", status, p.Name, st.Executions, got, real[p.Name])
		if !ok {
			fmt.Printf("     expected %v\n", want)
		}
	}
	sum := map[string]any{"programs": len(progs.All), "failed": failed, "model_schedules": execs, "cache_selftest_schedules": cachedExecs}
	b, _ := json.Marshal(sum)
	if f := os.Getenv("LITMUS_OUT"); f != "" {
		os.WriteFile(f, b, 0o644)
	}
	fmt.Printf("litmus: %d programs, %d failed, %d model schedules\n", len(progs.All), failed, execs)
	if failed > 0 {
		os.Exit(1)
	}
}

func keys(m map[string]bool) []string {
	var l []string
	for k := range m {
		l = append(l, k)
	}
	sort.Strings(l)
	return l
}
