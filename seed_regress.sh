#!/bin/bash
# Runs the property's check (quick, then thorough if missed) against every archived seeded change
# and every reverted fix, 3 at a time, and prints one line each. Exit 1 if any is missed.
cd "$(dirname "$0")"; HERE=$(pwd)
jobs_file=$(mktemp)
for d in seeded/C*-*/; do
  id=$(basename $d | cut -d- -f1)
  grep -q "NOT-COUNTED\|beyond bounds" $d/meta.json 2>/dev/null && continue   # see the note in its meta.json
  echo "$d/patch.diff $id" >> $jobs_file
done
declare -A REV=( [064554a]=C10 [c03c8aa]=C19 [d7d73a9]=C18 [eb5ad18]=C08 [50b589b]=C08 [e8d8af7]=C07 [16c3907]=C20 [55ee4f6]=C14 [f65aaf5]=C14 [745e40a]=C13 [24eca2f]=C02 [e99941d]=C01 [d54b309]=C01 )
for h in "${!REV[@]}"; do echo "seeded/regressions/revert-$h.diff ${REV[$h]}" >> $jobs_file; done
one() {
  p=$1; id=$2
  out=$(./seedtest.sh $p $id quick 2>&1); tier=quick
  if ! echo "$out" | grep -q "exit=1"; then out=$(./seedtest.sh $p $id thorough 2>&1); tier=thorough; fi
  if echo "$out" | grep -q "exit=1"; then echo "DETECTED($tier) $p $(echo "$out" | grep '^VIOLATION' | grep -o 'sig=[^ ]*' | head -2 | tr '\n' ' ')"; else echo "MISSED $p $(echo "$out" | grep -E '^(OK|INFRA|PATCH)' | head -1 | cut -c1-120)"; fi
}
export -f one
mkdir -p $HERE/.work; cat $jobs_file | xargs -P 4 -L 1 bash -c 'one $0 $1' | tee $HERE/.work/seed_regress.log
rm -f $jobs_file
! grep -q "^MISSED" $HERE/.work/seed_regress.log
