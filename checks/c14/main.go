// C14: functional slice and map helpers equal their reference definitions.
package main

import (
	"errors"
	"fmt"
	"reflect"
	"sort"
	"strconv"

	"gopkg.in/typ.v4/maps"
	"gopkg.in/typ.v4/sets"
	"gopkg.in/typ.v4/slices"
	"gopkg.in/typ.v4/sync2"
	"verif/lib/enum"
	"verif/lib/ev"
)

// E is a position-tagged element: V is what callbacks look at, P the original position.
type E struct{ V, P int }

var e *enum.E

// afterPanic prefixes the messages of the family that re-runs the battery after a failed callback.
var afterPanic string

func fail(sig string, in any, format string, a ...any) {
	if afterPanic != "" {
		format = afterPanic + format
		sig += "|after-panic"
	}
	e.Fail(sig, map[string]any{"input": fmt.Sprint(in), "fn": sig}, "input %v: "+format, append([]any{in}, a...)...)
}

func call(sig string, in any, f func()) bool {
	e.Call()
	if p, m := enum.Catch(f); p {
		fail(sig+"|panic", in, "panicked: %s", m)
		return false
	}
	return true
}

func main() {
	ev.GuardFor("C14")
	r := ev.Start("C14")
	defer r.FinishOnPanic()
	e = &enum.E{R: r}
	maxLen := ev.Pick(r, 5, 8)
	var all [][]int
	var gen func(cur []int)
	gen = func(cur []int) {
		all = append(all, append([]int{}, cur...))
		if len(cur) == maxLen {
			return
		}
		for v := 0; v < 3; v++ {
			gen(append(cur, v))
		}
	}
	gen(nil)
	for idx, base := range all {
		for _, asNil := range []bool{false, true} {
			if asNil && len(base) > 0 {
				continue
			}
			var s []int
			if !asNil {
				s = append(make([]int, 0, len(base)+2), base...)
			}
			e.Input(len(base) >= 2)
			if idx%97 == 5 {
				r.Sample(fmt.Sprint(base))
			}
			checkSlice(s, base)
		}
	}
	// Large-size family: long slices over the same alphabet in structured patterns (thresholds of
	// append growth, map growth inside GroupBy/CountBy/Except, any fast path behind a length test)
	for _, n := range []int{8, 9, 15, 16, 17, 31, 32, 33, 64, 65, 100, 129, 257} {
		for _, pat := range []func(i int) int{
			func(i int) int { return i % 3 },
			func(i int) int { return (i * i) % 3 },
			func(i int) int { return (i / 7) % 3 },
			func(i int) int { return (i*2654435761 + 7) % 1000003 % 3 },
			func(i int) int { return 1 },
		} {
			base := make([]int, n)
			for i := range base {
				base[i] = pat(i)
			}
			s := append(make([]int, 0, n+3), base...)
			e.Input(true)
			checkSlice(s, base)
		}
	}
	// a callback that panics at its k-th invocation, recovered by the caller: every helper must work as
	// before afterwards (state kept between calls: pooled scratch lists, recycled builders)
	{
		in := []int{0, 1, 2, 1, 0, 2, 2}
		boom := func(k int) func() {
			n := 0
			return func() {
				n++
				if n == k {
					panic("callback failed")
				}
			}
		}
		type fc struct {
			name string
			run  func(tick func())
		}
		fcs := []fc{
			{"Filter", func(t func()) { slices.Filter(in, func(int) bool { t(); return true }) }},
			{"Map", func(t func()) { slices.Map(in, func(v int) int { t(); return v }) }},
			{"MapErr", func(t func()) { slices.MapErr(in, func(v int) (int, error) { t(); return v, nil }) }},
			{"Fold", func(t func()) { slices.Fold(in, 0, func(a, v int) int { t(); return a + v }) }},
			{"FoldReverse", func(t func()) { slices.FoldReverse(in, 0, func(a, v int) int { t(); return a + v }) }},
			{"GroupBy", func(t func()) { slices.GroupBy(in, func(v int) int { t(); return v }) }},
			{"CountBy", func(t func()) { slices.CountBy(in, func(v int) int { t(); return v }) }},
			{"DistinctFunc", func(t func()) { slices.DistinctFunc(in, func(a, b int) bool { t(); return a == b }) }},
			{"IndexFunc", func(t func()) { slices.IndexFunc(in, func(int) bool { t(); return false }) }},
			{"ContainsFunc", func(t func()) { slices.ContainsFunc(in, 5, func(a, b int) bool { t(); return false }) }},
			{"Any", func(t func()) { slices.Any(in, func(int) bool { t(); return false }) }},
			{"All", func(t func()) { slices.All(in, func(int) bool { t(); return true }) }},
			{"TrimFunc", func(t func()) { slices.TrimFunc(in, func(int) bool { t(); return true }) }},
			{"TrimLeftFunc", func(t func()) { slices.TrimLeftFunc(in, func(int) bool { t(); return true }) }},
			{"TrimRightFunc", func(t func()) { slices.TrimRightFunc(in, func(int) bool { t(); return true }) }},
		}
		for _, f := range fcs {
			for k := 1; k <= 3; k++ {
				func() {
					defer func() { recover() }()
					f.run(boom(k))
				}()
				for _, base := range [][]int{{0, 1, 2, 1, 0, 2, 2}, {2, 2, 1}, {1}} {
					sz := fmt.Sprintf("after %s's callback panicked at invocation %d: ", f.name, k)
					afterPanic = sz
					e.Input(true)
					checkSlice(append(make([]int, 0, len(base)+2), base...), base)
					afterPanic = ""
				}
			}
		}
	}
	checkManyKeys()
	checkMaps()
	checkBigMaps()
	allTypedHelpers()
	e.Finish(fmt.Sprintf("every slice over {0,1,2} of length <= %d (nil and empty separately), position-tagged where order matters; callbacks: non-commutative accumulators, all 8 predicates, all 27 keyers, two equality relations, MapErr failing at every position, every exclude slice of length <= 2, every unwanted subset, every index -1..len; every partial map {0,1,2}->{0,1}; inputs snapshotted before and compared after each call, results scribbled to show detachment; results of earlier calls re-examined after later calls; the ==-based helpers (Index, Contains, Except, ExceptSet, Trim, Distinct, GroupBy, CountBy, HasKey, KeyOf, ContainsValue) over 8 element types whose values have several ==-equal spellings, every sequence up to length 4; non-trivial = length >= 2", maxLen))
}

func tagged(s []int) []E {
	if s == nil {
		return nil
	}
	t := make([]E, len(s), len(s)+2)
	for i, v := range s {
		t[i] = E{v, i}
	}
	return t
}

func unchanged(sig string, s, snap []int) {
	if !reflect.DeepEqual(append([]int{}, s...), append([]int{}, snap...)) {
		fail(sig+"|input-modified", snap, "input became %v", s)
	}
}

func checkSlice(s, snap []int) {
	n := len(s)
	// ---- Fold / FoldReverse with non-commutative accumulators
	{
		want := 7
		for _, v := range snap {
			want = want*10 + v
		}
		var got int
		if call("Fold", snap, func() { got = slices.Fold(s, 7, func(st, v int) int { return st*10 + v }) }) && got != want {
			fail("Fold|result", snap, "Fold(seed 7, s*10+v) = %d, want %d", got, want)
		}
		ws := "^"
		for _, v := range snap {
			ws += strconv.Itoa(v)
		}
		var gs string
		if call("Fold", snap, func() { gs = slices.Fold(s, "^", func(st string, v int) string { return st + strconv.Itoa(v) }) }) && gs != ws {
			fail("Fold|result", snap, "Fold(seed \"^\", concat) = %q, want %q", gs, ws)
		}
		want = 7
		wr := "^"
		for i := n - 1; i >= 0; i-- {
			want = want*10 + snap[i]
			wr += strconv.Itoa(snap[i])
		}
		if call("FoldReverse", snap, func() { got = slices.FoldReverse(s, 7, func(st, v int) int { return st*10 + v }) }) && got != want {
			fail("FoldReverse|result", snap, "FoldReverse(seed 7, s*10+v) = %d, want %d", got, want)
		}
		if call("FoldReverse", snap, func() { gs = slices.FoldReverse(s, "^", func(st string, v int) string { return st + strconv.Itoa(v) }) }) && gs != wr {
			fail("FoldReverse|result", snap, "FoldReverse(seed \"^\", concat) = %q, want %q", gs, wr)
		}
		unchanged("Fold", s, snap)
	}
	ts := tagged(s)
	tsnap := append([]E{}, ts...)
	tsSame := func(sig string) {
		if len(ts) != len(tsnap) || (len(ts) > 0 && !reflect.DeepEqual(ts, tsnap)) {
			fail(sig+"|input-modified", snap, "input became %v", ts)
		}
	}
	// ---- Map / MapErr
	{
		var got []int
		var order []int
		if call("Map", snap, func() { got = slices.Map(ts, func(x E) int { order = append(order, x.P); return x.V*10 + x.P }) }) {
			want := make([]int, n)
			for i, v := range snap {
				want[i] = v*10 + i
			}
			if len(got) != n || (n > 0 && !reflect.DeepEqual(got, want)) {
				fail("Map|result", snap, "Map = %v, want %v", got, want)
			}
		}
		tsSame("Map")
		for failAt := 0; failAt <= n; failAt++ {
			boom := errors.New("boom")
			var res []int
			var err error
			calls := 0
			if !call("MapErr", snap, func() {
				res, err = slices.MapErr(ts, func(x E) (int, error) {
					calls++
					if x.P == failAt {
						return 0, boom
					}
					return x.V*10 + x.P, nil
				})
			}) {
				continue
			}
			if failAt < n {
				if err != boom || res != nil {
					fail("MapErr|error", snap, "MapErr failing at %d returned (%v,%v), want (nil,boom)", failAt, res, err)
				}
				if calls != failAt+1 {
					fail("MapErr|did-not-stop", snap, "MapErr failing at %d made %d conversions, want %d (stops at the first error)", failAt, calls, failAt+1)
				}
			} else {
				want := make([]int, n)
				for i, v := range snap {
					want[i] = v*10 + i
				}
				if err != nil || len(res) != n || (n > 0 && !reflect.DeepEqual(res, want)) {
					fail("MapErr|result", snap, "MapErr = (%v,%v), want (%v,nil)", res, err, want)
				}
			}
		}
		tsSame("MapErr")
	}
	// ---- predicates: Filter, Any, All, IndexFunc, Trim*Func
	for mask := 0; mask < 8; mask++ {
		pred := func(v int) bool { return mask>>uint(v)&1 == 1 }
		var wantF []E
		any, allp, idx := false, true, -1
		for i, v := range snap {
			if pred(v) {
				wantF = append(wantF, E{v, i})
				any = true
				if idx < 0 {
					idx = i
				}
			} else {
				allp = false
			}
		}
		var gotF []E
		if call("Filter", snap, func() { gotF = slices.Filter(ts, func(x E) bool { return pred(x.V) }) }) {
			if len(gotF) != len(wantF) || (len(wantF) > 0 && !reflect.DeepEqual(gotF, wantF)) {
				fail("Filter|result", snap, "Filter(mask %03b) = %v, want %v", mask, gotF, wantF)
			}
			gotF = append(gotF, E{-1, -1})
			for i := range gotF {
				gotF[i] = E{-9, -9}
			}
			tsSame("Filter|shares-memory")
		}
		var b bool
		if call("Any", snap, func() { b = slices.Any(s, pred) }) && b != any {
			fail("Any|result", snap, "Any(mask %03b) = %v", mask, b)
		}
		if call("All", snap, func() { b = slices.All(s, pred) }) && b != allp {
			fail("All|result", snap, "All(mask %03b) = %v", mask, b)
		}
		var gi int
		if call("IndexFunc", snap, func() { gi = slices.IndexFunc(s, pred) }) && gi != idx {
			fail("IndexFunc|result", snap, "IndexFunc(mask %03b) = %d, want %d", mask, gi, idx)
		}
		// Trim family: trimmed while `unwanted` is true
		lo, hi := 0, n
		for lo < hi && pred(snap[lo]) {
			lo++
		}
		hiR := n
		for hiR > 0 && pred(snap[hiR-1]) {
			hiR--
		}
		for hi > lo && pred(snap[hi-1]) {
			hi--
		}
		var unw []int
		for v := 0; v < 3; v++ {
			if pred(v) {
				unw = append(unw, v)
			}
		}
		type tc struct {
			name string
			f    func() []int
			want []int
		}
		for _, c := range []tc{
			{"TrimFunc", func() []int { return slices.TrimFunc(s, pred) }, snap[lo:hi]},
			{"TrimLeftFunc", func() []int { return slices.TrimLeftFunc(s, pred) }, snap[lo:]},
			{"TrimRightFunc", func() []int { return slices.TrimRightFunc(s, pred) }, snap[:hiR]},
			{"Trim", func() []int { return slices.Trim(s, unw) }, snap[lo:hi]},
			{"TrimLeft", func() []int { return slices.TrimLeft(s, unw) }, snap[lo:]},
			{"TrimRight", func() []int { return slices.TrimRight(s, unw) }, snap[:hiR]},
		} {
			var got []int
			if call(c.name, snap, func() { got = c.f() }) && !eqInts(got, c.want) {
				fail(c.name+"|result", snap, "%s(unwanted %v) = %v, want %v", c.name, unw, got, c.want)
			}
		}
		unchanged("predicates", s, snap)
	}
	// ---- Index, Contains, ContainsFunc
	for v := 0; v <= 3; v++ {
		wi := -1
		for i, x := range snap {
			if x == v {
				wi = i
				break
			}
		}
		var gi int
		var gb bool
		if call("Index", snap, func() { gi = slices.Index(s, v) }) && gi != wi {
			fail("Index|result", snap, "Index(%d) = %d, want %d", v, gi, wi)
		}
		if call("Contains", snap, func() { gb = slices.Contains(s, v) }) && gb != (wi >= 0) {
			fail("Contains|result", snap, "Contains(%d) = %v", v, gb)
		}
		for qi, eqf := range []func(a, b int) bool{func(a, b int) bool { return a == b }, func(a, b int) bool { return a%2 == b%2 }} {
			want := false
			for _, x := range snap {
				if eqf(x, v) {
					want = true
				}
			}
			if call("ContainsFunc", snap, func() { gb = slices.ContainsFunc(s, v, eqf) }) && gb != want {
				fail("ContainsFunc|result", snap, "ContainsFunc(%d, relation %d) = %v", v, qi, gb)
			}
		}
	}
	// ---- DistinctFunc with relations that are NOT equivalences (a tolerance, a successor test). "First
	// occurrences" then has more than one reading (compare with the kept values or with all earlier
	// values; which argument comes first), so only what every reading implies is required: the result is
	// a subsequence of the input that keeps the first element, no two kept elements are related both
	// ways, and every dropped element is related (one way or the other) to an earlier input element.
	for qi, rel := range []func(a, b int) bool{func(a, b int) bool { return a-b <= 1 && b-a <= 1 }, func(a, b int) bool { return a+1 == b }} {
		var gotT []E
		if call("DistinctFunc", snap, func() { gotT = slices.DistinctFunc(ts, func(a, b E) bool { return rel(a.V, b.V) }) }) {
			bad := ""
			kept := map[int]bool{}
			for i, g := range gotT {
				if g.P < 0 || g.P >= len(snap) || snap[g.P] != g.V || (i > 0 && gotT[i-1].P >= g.P) {
					bad = "is not a subsequence of the input"
					break
				}
				kept[g.P] = true
				for _, h := range gotT[:i] {
					if rel(h.V, g.V) && rel(g.V, h.V) {
						bad = fmt.Sprintf("keeps both %d and %d, which the relation holds for in both directions", h.V, g.V)
					}
				}
			}
			if bad == "" && len(snap) > 0 && !kept[0] {
				bad = "drops the first element"
			}
			for i := range snap {
				if bad != "" || kept[i] {
					continue
				}
				related := false
				for _, u := range snap[:i] {
					if rel(u, snap[i]) || rel(snap[i], u) {
						related = true
					}
				}
				if !related {
					bad = fmt.Sprintf("drops element %d (= %d), which is related to no earlier element", i, snap[i])
				}
			}
			if bad != "" {
				fail("DistinctFunc|result", snap, "DistinctFunc(non-equivalence relation %d) = %v: %s", qi, gotT, bad)
			}
		}
	}
	// ---- Distinct / DistinctFunc
	{
		var want []int
		for _, v := range snap {
			if !in(want, v) {
				want = append(want, v)
			}
		}
		var got []int
		if call("Distinct", snap, func() { got = slices.Distinct(s) }) {
			if !eqInts(got, want) {
				fail("Distinct|result", snap, "Distinct = %v, want %v", got, want)
			}
			got = append(got, -1)
			for i := range got {
				got[i] = -5
			}
			unchanged("Distinct|shares-memory", s, snap)
		}
		for qi, eqf := range []func(a, b int) bool{func(a, b int) bool { return a == b }, func(a, b int) bool { return a%2 == b%2 }} {
			var wantT []E
			for i, v := range snap {
				dup := false
				for _, w := range wantT {
					if eqf(w.V, v) {
						dup = true
					}
				}
				if !dup {
					wantT = append(wantT, E{v, i})
				}
			}
			var gotT []E
			if call("DistinctFunc", snap, func() { gotT = slices.DistinctFunc(ts, func(a, b E) bool { return eqf(a.V, b.V) }) }) {
				if len(gotT) != len(wantT) || (len(wantT) > 0 && !reflect.DeepEqual(gotT, wantT)) {
					fail("DistinctFunc|result", snap, "DistinctFunc(relation %d) = %v, want %v (first occurrences, original order)", qi, gotT, wantT)
				}
				gotT = append(gotT, E{})
				for i := range gotT {
					gotT[i] = E{-5, -5}
				}
				tsSame("DistinctFunc|shares-memory")
			}
		}
	}
	// ---- Except / ExceptSet
	{
		excl := [][]int{nil, {}}
		for a := 0; a <= 3; a++ {
			excl = append(excl, []int{a})
			for b := 0; b <= 3; b++ {
				excl = append(excl, []int{a, b})
			}
		}
		for _, ex := range excl {
			exSnap := append([]int{}, ex...)
			var want []int
			for _, v := range snap {
				if !in(ex, v) {
					want = append(want, v)
				}
			}
			var got []int
			if call("Except", snap, func() { got = slices.Except(s, ex) }) {
				if !eqInts(got, want) {
					fail("Except|result", snap, "Except(%v) = %v, want %v", ex, got, want)
				}
				got = append(got, -1)
				for i := range got {
					got[i] = -5
				}
				unchanged("Except|shares-memory", s, snap)
				if !eqInts(ex, exSnap) {
					fail("Except|input-modified", snap, "exclude slice %v became %v", exSnap, ex)
				}
			}
			for si, mkset := range []func() sets.Set[int]{
				func() sets.Set[int] { return maps.NewSetFromSlice(ex) },
				func() sets.Set[int] { return sync2.NewSetFromSlice(ex) },
			} {
				set := mkset()
				if call("ExceptSet", snap, func() { got = slices.ExceptSet(s, set) }) {
					if !eqInts(got, want) {
						fail("ExceptSet|result", snap, "ExceptSet(%v, implementation %d) = %v, want %v", ex, si, got, want)
					}
					got = append(got, -1)
					for i := range got {
						got[i] = -5
					}
					unchanged("ExceptSet|shares-memory", s, snap)
					if set.Len() != len(slices.Distinct(exSnap)) {
						fail("ExceptSet|input-modified", snap, "exclude set changed: %v", set)
					}
				}
			}
		}
	}
	// ---- GroupBy / CountBy with all 27 keyers
	for km := 0; km < 27; km++ {
		key := func(v int) int {
			d := km
			for i := 0; i < v; i++ {
				d /= 3
			}
			return d % 3
		}
		var order []int
		groups := map[int][]E{}
		for i, v := range snap {
			k := key(v)
			if _, ok := groups[k]; !ok {
				order = append(order, k)
			}
			groups[k] = append(groups[k], E{v, i})
		}
		var gg []slices.Grouping[int, E]
		if call("GroupBy", snap, func() { gg = slices.GroupBy(ts, func(x E) int { return key(x.V) }) }) {
			ok := len(gg) == len(order)
			total := 0
			for i := 0; ok && i < len(gg); i++ {
				ok = gg[i].Key == order[i] && reflect.DeepEqual(gg[i].Values, groups[order[i]])
				total += len(gg[i].Values)
			}
			if !ok || total != n {
				fail("GroupBy|result", snap, "GroupBy(keyer %d) = %v, want keys %v with members %v", km, gg, order, groups)
			}
			for i := range gg {
				gg[i].Values = append(gg[i].Values, E{})
				for j := range gg[i].Values {
					gg[i].Values[j] = E{-5, -5}
				}
			}
			tsSame("GroupBy|shares-memory")
		}
		var cc []slices.Counting[int]
		if call("CountBy", snap, func() { cc = slices.CountBy(ts, func(x E) int { return key(x.V) }) }) {
			ok := len(cc) == len(order)
			for i := 0; ok && i < len(cc); i++ {
				ok = cc[i].Key == order[i] && cc[i].Count == len(groups[order[i]])
			}
			if !ok {
				fail("CountBy|result", snap, "CountBy(keyer %d) = %v, want keys %v of %v", km, cc, order, groups)
			}
		}
	}
	tsSame("GroupBy")
	// ---- TryGet / SafeGet / SafeGetOr / Last
	for i := -2; i <= n+1; i++ {
		inb := i >= 0 && i < n
		var v int
		var ok bool
		if call("TryGet", snap, func() { v, ok = slices.TryGet(s, i) }) {
			if ok != inb || (inb && v != snap[i]) || (!inb && v != 0) {
				fail("TryGet|result", snap, "TryGet(%d) = (%d,%v)", i, v, ok)
			}
		}
		if call("SafeGet", snap, func() { v = slices.SafeGet(s, i) }) {
			if (inb && v != snap[i]) || (!inb && v != 0) {
				fail("SafeGet|result", snap, "SafeGet(%d) = %d", i, v)
			}
		}
		if call("SafeGetOr", snap, func() { v = slices.SafeGetOr(s, i, 42) }) {
			if (inb && v != snap[i]) || (!inb && v != 42) {
				fail("SafeGetOr|result", snap, "SafeGetOr(%d,42) = %d", i, v)
			}
		}
	}
	{
		e.Call()
		var v int
		p, _ := enum.Catch(func() { v = slices.Last(s) })
		if n == 0 && !p {
			fail("Last|no-panic", snap, "Last of an empty slice did not panic (returned %d)", v)
		}
		if n > 0 && (p || v != snap[n-1]) {
			fail("Last|result", snap, "Last = %d (panicked %v)", v, p)
		}
	}
	unchanged("final", s, snap)
	keepResults(s, ts, snap)
}

// keepResults makes one more call of every function that returns a new slice and hands the results
// to the ledger of lib/enum: they stay referenced and are read again after dozens of later calls on
// other inputs - a value that was returned must not change because of calls made afterwards.
func keepResults(s []int, ts []E, snap []int) {
	in := map[string]any{"input": fmt.Sprint(snap)}
	enum.Catch(func() {
		e.Keep("Map", slices.Map(ts, func(x E) int { return x.V*10 + x.P }), in)
		r, _ := slices.MapErr(ts, func(x E) (int, error) { return x.V + 100, nil })
		e.Keep("MapErr", r, in)
		e.Keep("Filter", slices.Filter(ts, func(x E) bool { return x.V != 1 }), in)
		e.Keep("Distinct", slices.Distinct(s), in)
		e.Keep("DistinctFunc", slices.DistinctFunc(ts, func(a, b E) bool { return a.V == b.V }), in)
		e.Keep("Except", slices.Except(s, []int{1}), in)
		e.Keep("ExceptSet", slices.ExceptSet(s, maps.NewSetFromSlice([]int{0})), in)
		e.Keep("GroupBy", slices.GroupBy(ts, func(x E) int { return x.V % 2 }), in)
		e.Keep("CountBy", slices.CountBy(ts, func(x E) int { return x.V % 2 }), in)
		e.Keep("Pairs", slices.Pairs(s), in)
		e.Keep("Concat", slices.Concat(s, s), in)
		e.Keep("Clone", slices.Clone(s), in)
	})
}

func checkMaps() {
	// every partial map {0,1,2} -> {0,1}, nil and non-nil empty separately
	for code := 0; code < 27; code++ {
		for _, asNil := range []bool{false, true} {
			if asNil && code != 0 {
				continue
			}
			var m map[int]int
			if !asNil {
				m = map[int]int{}
			}
			d := code
			for k := 0; k < 3; k++ {
				if d%3 > 0 {
					m[k] = d%3 - 1
				}
				d /= 3
			}
			snap := map[int]int{}
			for k, v := range m {
				snap[k] = v
			}
			e.Input(len(m) >= 2)
			same := func(sig string) {
				if len(m) != len(snap) {
					fail(sig+"|input-modified", snap, "map became %v", m)
					return
				}
				for k, v := range snap {
					if w, ok := m[k]; !ok || w != v {
						fail(sig+"|input-modified", snap, "map became %v", m)
						return
					}
				}
			}
			var c map[int]int
			if call("maps.Clone", snap, func() { c = maps.Clone(m) }) {
				if c == nil || !reflect.DeepEqual(c, snap) {
					fail("maps.Clone|result", snap, "Clone = %v", c)
				} else {
					c[7] = 7
					delete(c, 0)
					c[1] = 99
					same("maps.Clone|shares-memory")
					c2 := maps.Clone(m)
					if m != nil {
						m[8] = 8
						delete(m, 8)
					}
					if !reflect.DeepEqual(c2, snap) {
						fail("maps.Clone|shares-memory", snap, "changing the original changed the clone: %v", c2)
					}
				}
			}
			var keys, vals []int
			if call("maps.Keys", snap, func() { keys = maps.Keys(m) }) {
				sort.Ints(keys)
				var want []int
				for k := 0; k < 3; k++ {
					if _, ok := snap[k]; ok {
						want = append(want, k)
					}
				}
				if !eqInts(keys, want) {
					fail("maps.Keys|result", snap, "Keys = %v (sorted), want %v", keys, want)
				}
			}
			if call("maps.Values", snap, func() { vals = maps.Values(m) }) {
				sort.Ints(vals)
				var want []int
				for _, v := range snap {
					want = append(want, v)
				}
				sort.Ints(want)
				if !eqInts(vals, want) {
					fail("maps.Values|result", snap, "Values = %v (sorted), want %v", vals, want)
				}
			}
			for v := -1; v <= 2; v++ {
				exists := false
				for _, w := range snap {
					if w == v {
						exists = true
					}
				}
				var k int
				var ok, cv bool
				if call("maps.KeyOf", snap, func() { k, ok = maps.KeyOf(m, v) }) {
					if ok != exists || (ok && snap[k] != v) || (!ok && k != 0) {
						fail("maps.KeyOf|result", snap, "KeyOf(%d) = (%d,%v)", v, k, ok)
					} else if ok {
						if _, has := snap[k]; !has {
							fail("maps.KeyOf|result", snap, "KeyOf(%d) = key %d which is not in the map", v, k)
						}
					}
				}
				if call("maps.ContainsValue", snap, func() { cv = maps.ContainsValue(m, v) }) && cv != exists {
					fail("maps.ContainsValue|result", snap, "ContainsValue(%d) = %v", v, cv)
				}
			}
			for k := -1; k <= 3; k++ {
				_, want := snap[k]
				var got bool
				if call("maps.HasKey", snap, func() { got = maps.HasKey(m, k) }) && got != want {
					fail("maps.HasKey|result", snap, "HasKey(%d) = %v", k, got)
				}
			}
			same("maps")
			// Clear (on a copy, last)
			cp := map[int]int{}
			if asNil {
				cp = nil
			}
			for k, v := range snap {
				cp[k] = v
			}
			enum.Catch(func() {
				in := map[string]any{"input": fmt.Sprint(snap)}
				ks := maps.Keys(m)
				sort.Ints(ks)
				vs := maps.Values(m)
				sort.Ints(vs)
				e.Keep("maps.Keys", ks, in)
				e.Keep("maps.Values", vs, in)
				e.Keep("maps.Clone", maps.Clone(m), in)
			})
			if call("maps.Clear", snap, func() { maps.Clear(cp) }) && len(cp) != 0 {
				fail("maps.Clear|result", snap, "after Clear the map holds %v", cp)
			}
			if cp != nil {
				cp[1] = 1 // still usable
				if len(cp) != 1 {
					fail("maps.Clear|unusable", snap, "map unusable after Clear: %v", cp)
				}
			}
		}
	}
}

func in(s []int, v int) bool {
	for _, x := range s {
		if x == v {
			return true
		}
	}
	return false
}

func eqInts(a, b []int) bool {
	if len(a) != len(b) {
		return false
	}
	for i := range a {
		if a[i] != b[i] {
			return false
		}
	}
	return true
}

// checkBigMaps: the map helpers on maps that have grown through several bucket splits.
func checkBigMaps() {
	for _, n := range []int{9, 17, 33, 65, 200} {
		m := map[int]int{}
		for k := 0; k < n; k++ {
			m[k*3] = k % 5
		}
		snap := maps.Clone(m)
		e.Input(true)
		c := maps.Clone(m)
		e.Call()
		if !reflect.DeepEqual(c, m) {
			fail("maps.Clone|result", n, "clone of a %d-entry map differs", n)
		}
		c[-1] = 1
		delete(c, 0)
		if !reflect.DeepEqual(m, snap) {
			fail("maps.Clone|shares-memory", n, "writing to the clone changed a %d-entry map", n)
		}
		keys, vals := maps.Keys(m), maps.Values(m)
		e.Call()
		e.Call()
		sort.Ints(keys)
		sort.Ints(vals)
		wantV := []int{}
		for k := 0; k < n; k++ {
			if len(keys) != n || keys[k] != k*3 {
				fail("maps.Keys|result", n, "Keys of a %d-entry map wrong at %d", n, k)
				break
			}
			wantV = append(wantV, k%5)
		}
		sort.Ints(wantV)
		if !eqInts(vals, wantV) {
			fail("maps.Values|result", n, "Values of a %d-entry map: %v", n, vals)
		}
		for v := -1; v <= 5; v++ {
			k, ok := maps.KeyOf(m, v)
			e.Call()
			exists := v >= 0 && v < 5 && v < n
			if ok != exists || (ok && m[k] != v) {
				fail("maps.KeyOf|result", n, "KeyOf(%d) on a %d-entry map = (%d,%v)", v, n, k, ok)
			}
			if maps.ContainsValue(m, v) != exists {
				fail("maps.ContainsValue|result", n, "ContainsValue(%d) on a %d-entry map", v, n)
			}
		}
		for k := -1; k <= 3*n; k++ {
			if maps.HasKey(m, k) != (k >= 0 && k%3 == 0 && k/3 < n) {
				fail("maps.HasKey|result", n, "HasKey(%d) on a %d-entry map", k, n)
			}
		}
		if !reflect.DeepEqual(m, snap) {
			fail("maps|input-modified", n, "a %d-entry map was modified", n)
		}
		maps.Clear(m)
		e.Call()
		if len(m) != 0 {
			fail("maps.Clear|result", n, "Clear left %d entries of %d", len(m), n)
		}
	}
}

// checkManyKeys: the order- and key-sensitive helpers on inputs with many DISTINCT values
// (17..130), where result slices and internal maps grow several times.
func checkManyKeys() {
	for _, k := range []int{5, 16, 17, 18, 33, 65, 130} {
		for _, reps := range []int{1, 2, 3} {
			for _, pat := range []func(i, n int) int{
				func(i, n int) int { return i % k },
				func(i, n int) int { return (k - 1 - i%k + k) % k },
				func(i, n int) int { return (i * 7919) % k },
				func(i, n int) int { return (i / reps) % k },
			} {
				n := k*reps + 1
				in := make([]int, n)
				for i := range in {
					in[i] = pat(i, n)
				}
				s := append(make([]int, 0, n+1), in...)
				ts := tagged(s)
				e.Input(true)
				// reference: first-appearance order
				var order []int
				groups := map[int][]E{}
				for i, v := range in {
					if _, ok := groups[v]; !ok {
						order = append(order, v)
					}
					groups[v] = append(groups[v], E{v, i})
				}
				var gg []slices.Grouping[int, E]
				if call("GroupBy", "many-keys", func() { gg = slices.GroupBy(ts, func(x E) int { return x.V }) }) {
					ok := len(gg) == len(order)
					total := 0
					for i := 0; ok && i < len(gg); i++ {
						ok = gg[i].Key == order[i] && reflect.DeepEqual(gg[i].Values, groups[order[i]])
						total += len(gg[i].Values)
					}
					if !ok || total != n {
						fail("GroupBy|result", fmt.Sprintf("%d distinct keys x%d", k, reps), "GroupBy over %d elements with %d distinct keys: groups differ from the reference (sizes sum to %d, want %d)", n, k, total, n)
					}
				}
				var cc []slices.Counting[int]
				if call("CountBy", "many-keys", func() { cc = slices.CountBy(ts, func(x E) int { return x.V }) }) {
					ok := len(cc) == len(order)
					for i := 0; ok && i < len(cc); i++ {
						ok = cc[i].Key == order[i] && cc[i].Count == len(groups[order[i]])
					}
					if !ok {
						fail("CountBy|result", fmt.Sprintf("%d distinct keys x%d", k, reps), "CountBy over %d elements with %d distinct keys differs from the reference", n, k)
					}
				}
				var d []int
				if call("Distinct", "many-keys", func() { d = slices.Distinct(s) }) && !eqInts(d, order) {
					fail("Distinct|result", fmt.Sprintf("%d distinct keys x%d", k, reps), "Distinct over %d distinct values: %v, want %v", k, d, order)
				}
				var dt []E
				if call("DistinctFunc", "many-keys", func() { dt = slices.DistinctFunc(ts, func(a, b E) bool { return a.V == b.V }) }) {
					ok := len(dt) == len(order)
					for i := 0; ok && i < len(dt); i++ {
						ok = dt[i] == groups[order[i]][0]
					}
					if !ok {
						fail("DistinctFunc|result", fmt.Sprintf("%d distinct keys x%d", k, reps), "DistinctFunc over %d distinct values differs from the reference (first occurrences)", k)
					}
				}
				var excl []int
				for v := 0; v < k; v += 2 {
					excl = append(excl, v)
				}
				var wantEx []int
				for _, v := range in {
					if v%2 != 0 {
						wantEx = append(wantEx, v)
					}
				}
				var ex []int
				if call("Except", "many-keys", func() { ex = slices.Except(s, excl) }) && !eqInts(ex, wantEx) {
					fail("Except|result", fmt.Sprintf("%d distinct keys x%d", k, reps), "Except(%d excluded values) differs from the reference", len(excl))
				}
				for _, set := range []sets.Set[int]{maps.NewSetFromSlice(excl), sync2.NewSetFromSlice(excl)} {
					if call("ExceptSet", "many-keys", func() { ex = slices.ExceptSet(s, set) }) && !eqInts(ex, wantEx) {
						fail("ExceptSet|result", fmt.Sprintf("%d distinct keys x%d", k, reps), "ExceptSet(%d excluded values) differs from the reference", len(excl))
					}
				}
				for _, q := range []int{0, k / 2, k - 1, k} {
					wi := -1
					for i, v := range in {
						if v == q {
							wi = i
							break
						}
					}
					if slices.Index(s, q) != wi || slices.Contains(s, q) != (wi >= 0) {
						fail("Index|result", fmt.Sprintf("%d distinct keys x%d", k, reps), "Index/Contains(%d) wrong on %d elements", q, n)
					}
				}
				fl := slices.Filter(ts, func(x E) bool { return x.V%3 == 0 })
				j := 0
				for _, x := range tsFromInts(in) {
					if x.V%3 == 0 {
						if j >= len(fl) || fl[j] != x {
							fail("Filter|result", fmt.Sprintf("%d distinct keys x%d", k, reps), "Filter over %d elements differs from the reference at match %d", n, j)
							break
						}
						j++
					}
				}
				if j != len(fl) {
					fail("Filter|result", fmt.Sprintf("%d distinct keys x%d", k, reps), "Filter returned %d elements, want %d", len(fl), j)
				}
				mp := slices.Map(s, func(v int) int { return v * 2 })
				for i, v := range in {
					if len(mp) != n || mp[i] != v*2 {
						fail("Map|result", fmt.Sprintf("%d distinct keys x%d", k, reps), "Map over %d elements wrong at %d", n, i)
						break
					}
				}
				if got, want := slices.Fold(s, 0, func(st, v int) int { return st*31 + v }), func() int {
					st := 0
					for _, v := range in {
						st = st*31 + v
					}
					return st
				}(); got != want {
					fail("Fold|result", fmt.Sprintf("%d distinct keys x%d", k, reps), "Fold over %d elements = %d, want %d", n, got, want)
				}
				unchanged("many-keys", s, in)
			}
		}
	}
}

func tsFromInts(in []int) []E {
	t := make([]E, len(in))
	for i, v := range in {
		t[i] = E{v, i}
	}
	return t
}
