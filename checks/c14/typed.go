package main

import (
	"fmt"

	"gopkg.in/typ.v4/maps"
	"gopkg.in/typ.v4/slices"
	"verif/lib/enum"
	"verif/lib/spell"
)

// typedHelpers runs the helpers that compare elements with == over ONE element type whose logical
// values have several ==-equal spellings (package spell): every sequence of logical values up to
// length 4, each occurrence spelled by rotation. Reference: the naive definition over logical indices.
// Where the property says WHICH element is kept ("first occurrences"), the kept element must be that
// very occurrence, spelling included.
func typedHelpers[K comparable](mk func() *spell.U[K]) {
	name := mk().Name
	render := func(v K) string { return fmt.Sprintf("%#v", v) }
	var seqs [][]int
	var gen func(cur []int)
	n := mk().N()
	gen = func(cur []int) {
		seqs = append(seqs, append([]int{}, cur...))
		if len(cur) == 4 {
			return
		}
		for v := 0; v < n; v++ {
			gen(append(cur, v))
		}
	}
	gen(nil)
	for _, lg := range seqs {
		u := mk()
		s := make([]K, len(lg))
		for i, l := range lg {
			s[i] = u.Key(l)
		}
		snap := append([]K{}, s...)
		in := map[string]any{"element_type": name, "logical": fmt.Sprint(lg)}
		e.Input(len(lg) > 1)
		bad := func(fn, format string, a ...any) {
			e.Fail(fn+"|result", in, "[]%s %v (logical %v): "+format, append([]any{name, snap, lg}, a...)...)
		}
		enum.Catch(func() {
			for l := 0; l < n; l++ {
				for range u.Keys[l] {
					probe := u.Key(l)
					wantIdx := -1
					for i, x := range lg {
						if x == l {
							wantIdx = i
							break
						}
					}
					e.Call()
					if got := slices.Index(s, probe); got != wantIdx {
						bad("Index", "Index(%s) = %d, want %d", render(probe), got, wantIdx)
					}
					if got := slices.Contains(s, probe); got != (wantIdx >= 0) {
						bad("Contains", "Contains(%s) = %v", render(probe), got)
					}
					// Except / Trim with that one value, spelled differently from the elements
					var wantEx []string
					for i, x := range lg {
						if x != l {
							wantEx = append(wantEx, render(snap[i]))
						}
					}
					var gotEx []string
					for _, v := range slices.Except(s, []K{probe}) {
						gotEx = append(gotEx, render(v))
					}
					if fmt.Sprint(gotEx) != fmt.Sprint(wantEx) {
						bad("Except", "Except(%s) = %v, want %v", render(probe), gotEx, wantEx)
					}
					gotEx = nil
					for _, v := range slices.ExceptSet(s, maps.NewSetFromSlice([]K{probe})) {
						gotEx = append(gotEx, render(v))
					}
					if fmt.Sprint(gotEx) != fmt.Sprint(wantEx) {
						bad("ExceptSet", "ExceptSet(%s) = %v, want %v", render(probe), gotEx, wantEx)
					}
					lo, hi := 0, len(lg)
					for lo < hi && lg[lo] == l {
						lo++
					}
					for hi > lo && lg[hi-1] == l {
						hi--
					}
					if got := slices.Trim(s, []K{probe}); len(got) != hi-lo || (len(got) > 0 && &got[0] != &s[lo]) {
						bad("Trim", "Trim(%s) has length %d, want s[%d:%d]", render(probe), len(got), lo, hi)
					}
				}
			}
			// Distinct: the first occurrence of every logical value, as spelled there
			var wantD []string
			seen := map[int]bool{}
			firstAt := map[int]int{}
			var order []int
			for i, x := range lg {
				if !seen[x] {
					seen[x] = true
					firstAt[x] = i
					order = append(order, x)
					wantD = append(wantD, render(snap[i]))
				}
			}
			var gotD []string
			e.Call()
			for _, v := range slices.Distinct(s) {
				gotD = append(gotD, render(v))
			}
			if fmt.Sprint(gotD) != fmt.Sprint(wantD) {
				bad("Distinct", "Distinct = %v, want the first occurrences %v", gotD, wantD)
			}
			// GroupBy / CountBy with the element itself as the key
			e.Call()
			gg := slices.GroupBy(s, func(v K) K { return v })
			if len(gg) != len(order) {
				bad("GroupBy", "GroupBy(identity) has %d groups, want %d", len(gg), len(order))
			} else {
				for gi, g := range gg {
					l := order[gi]
					var wantM, gotM []string
					for i, x := range lg {
						if x == l {
							wantM = append(wantM, render(snap[i]))
						}
					}
					for _, v := range g.Values {
						gotM = append(gotM, render(v))
					}
					if u.Logical(g.Key) != l || fmt.Sprint(gotM) != fmt.Sprint(wantM) {
						bad("GroupBy", "GroupBy(identity): group %d has key %s and members %v, want logical key %d and members %v", gi, render(g.Key), gotM, l, wantM)
					}
				}
			}
			e.Call()
			cc := slices.CountBy(s, func(v K) K { return v })
			if len(cc) != len(order) {
				bad("CountBy", "CountBy(identity) has %d groups, want %d", len(cc), len(order))
			} else {
				for gi, c := range cc {
					cnt := 0
					for _, x := range lg {
						if x == order[gi] {
							cnt++
						}
					}
					if u.Logical(c.Key) != order[gi] || c.Count != cnt {
						bad("CountBy", "CountBy(identity): group %d = (%s, %d), want logical key %d x %d", gi, render(c.Key), c.Count, order[gi], cnt)
					}
				}
			}
			// a map with these logical keys: HasKey / KeyOf / ContainsValue under every spelling
			m := map[K]K{}
			for i, x := range lg {
				m[snap[i]] = u.Key((x + 1) % n)
			}
			for l := 0; l < n; l++ {
				for range u.Keys[l] {
					probe := u.Key(l)
					e.Call()
					if got := maps.HasKey(m, probe); got != seen[l] {
						bad("maps.HasKey", "HasKey(%s) = %v on a map with logical keys %v", render(probe), got, order)
					}
					wantHas := seen[(l+n-1)%n]
					if got := maps.ContainsValue(m, probe); got != wantHas {
						bad("maps.ContainsValue", "ContainsValue(%s) = %v, want %v", render(probe), got, wantHas)
					}
					k, ok := maps.KeyOf(m, probe)
					if ok != wantHas || (ok && u.Logical(k) != (l+n-1)%n) {
						bad("maps.KeyOf", "KeyOf(%s) = (%s,%v), want logical key %d (present %v)", render(probe), render(k), ok, (l+n-1)%n, wantHas)
					}
				}
			}
		})
		for i := range s {
			if render(s[i]) != render(snap[i]) {
				e.Fail("typed|input-modified", in, "[]%s: the input was modified: %v -> %v", name, snap, s)
				break
			}
		}
	}
}

// longUnwanted: Trim / TrimLeft / TrimRight / Except with long lists of unwanted values (9..40 values, most
// of them not in the slice; a set-based fast path behind a length threshold) on ints, and on []any slices
// that hold one slice-valued element (== between an int and a slice is simply false; only hashing fails).
func longUnwanted() {
	for _, extra := range []int{6, 7, 8, 9, 15, 16, 17, 40} {
		for mask := 0; mask < 8; mask++ {
			var unwanted []int
			for v := 0; v < 3; v++ {
				if mask>>uint(v)&1 == 1 {
					unwanted = append(unwanted, v)
				}
			}
			for i := 0; i < extra; i++ {
				unwanted = append(unwanted, 50+i)
			}
			isUn := func(v int) bool { return v >= 50 && v < 50+extra || (v >= 0 && v < 3 && mask>>uint(v)&1 == 1) }
			for code := 0; code < 243; code++ { // every slice over {0,1,2} of length 5
				sl := make([]int, 5)
				for i, d := 0, code; i < 5; i, d = i+1, d/3 {
					sl[i] = d % 3
				}
				lo, hi := 0, 5
				for lo < hi && isUn(sl[lo]) {
					lo++
				}
				hiR := 5
				for hiR > 0 && isUn(sl[hiR-1]) {
					hiR--
				}
				for hi > lo && isUn(sl[hi-1]) {
					hi--
				}
				in := map[string]any{"slice": fmt.Sprint(sl), "unwanted": len(unwanted), "mask": mask}
				e.Input(true)
				enum.Catch(func() {
					e.Call()
					if got := slices.Trim(sl, unwanted); fmt.Sprint(got) != fmt.Sprint(sl[lo:hi]) {
						e.Fail("Trim|result", in, "Trim(%v, %d unwanted values %v...) = %v, want %v", sl, len(unwanted), unwanted[:min(4, len(unwanted))], got, sl[lo:hi])
					}
					if got := slices.TrimLeft(sl, unwanted); fmt.Sprint(got) != fmt.Sprint(sl[lo:]) {
						e.Fail("TrimLeft|result", in, "TrimLeft(%v, %d unwanted values) = %v, want %v", sl, len(unwanted), got, sl[lo:])
					}
					if got := slices.TrimRight(sl, unwanted); fmt.Sprint(got) != fmt.Sprint(sl[:hiR]) {
						e.Fail("TrimRight|result", in, "TrimRight(%v, %d unwanted values) = %v, want %v", sl, len(unwanted), got, sl[:hiR])
					}
					var wantEx []int
					for _, v := range sl {
						if !isUn(v) {
							wantEx = append(wantEx, v)
						}
					}
					if got := slices.Except(sl, unwanted); fmt.Sprint(got) != fmt.Sprint(wantEx) && !(len(got) == 0 && len(wantEx) == 0) {
						e.Fail("Except|result", in, "Except(%v, %d excluded values) = %v, want %v", sl, len(unwanted), got, wantEx)
					}
				})
			}
		}
	}
	// interface elements, one of them a slice
	hole := any([]int{9})
	for _, extra := range []int{1, 9, 20} {
		var unwanted []any
		for i := 0; i < extra; i++ {
			unwanted = append(unwanted, i)
		}
		sl := []any{0, 1, hole, "x", 1, 0}
		in := map[string]any{"slice": "[0 1 [9] x 1 0]", "unwanted": extra}
		e.Input(true)
		e.Call()
		if p, m := enum.Catch(func() {
			if got := slices.Trim(sl, unwanted); len(got) != 2 && extra > 1 || extra == 1 && len(got) != 4 {
				e.Fail("Trim|result", in, "Trim([]any{0,1,[]int{9},\"x\",1,0}, the ints 0..%d) has length %d", extra-1, len(got))
			}
			if i := slices.Index(sl, any("x")); i != 3 {
				e.Fail("Index|result", in, "Index of \"x\" in a []any holding a slice = %d", i)
			}
			if !slices.Contains(sl, any(1)) || slices.Contains(sl, any(7)) {
				e.Fail("Contains|result", in, "Contains on a []any holding a slice")
			}
		}); p {
			e.Fail("Trim|panic", in, "helpers on a []any that holds a slice-valued element (compared only with ints and strings) panicked: %s", m)
		}
	}
}

func allTypedHelpers() {
	longUnwanted()
	typedHelpers(spell.Float64)
	typedHelpers(spell.String)
	typedHelpers(spell.Any)
	typedHelpers(spell.Struct)
	typedHelpers(spell.Array)
	typedHelpers(spell.Complex)
	typedHelpers(spell.Pointers)
	typedHelpers(spell.Int8)
	typedHelpers(spell.Liars)
	typedHelpers(spell.Stringers)
	typedHelpers(spell.Errors)
	typedHelpers(spell.Chans)
	typedHelpers(spell.AnyAlike)
	typedHelpers(spell.StringAlike)
	typedHelpers(spell.FloatAlike)
}
