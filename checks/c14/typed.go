package main

import (
	"fmt"

	"gopkg.in/typ.v4/maps"
	"gopkg.in/typ.v4/slices"
	"verif/lib/enum"
	"verif/lib/spell"
)

// typedHelpers runs the helpers that compare elements with == over ONE element type whose logical
// values have several ==-equal spellings (package spell): every sequence of logical values up to
// length 4, each occurrence spelled by rotation. Reference: the naive definition over logical indices.
// Where the property says WHICH element is kept ("first occurrences"), the kept element must be that
// very occurrence, spelling included.
func typedHelpers[K comparable](mk func() *spell.U[K]) {
	name := mk().Name
	render := func(v K) string { return fmt.Sprintf("%#v", v) }
	var seqs [][]int
	var gen func(cur []int)
	n := mk().N()
	gen = func(cur []int) {
		seqs = append(seqs, append([]int{}, cur...))
		if len(cur) == 4 {
			return
		}
		for v := 0; v < n; v++ {
			gen(append(cur, v))
		}
	}
	gen(nil)
	for _, lg := range seqs {
		u := mk()
		s := make([]K, len(lg))
		for i, l := range lg {
			s[i] = u.Key(l)
		}
		snap := append([]K{}, s...)
		in := map[string]any{"element_type": name, "logical": fmt.Sprint(lg)}
		e.Input(len(lg) > 1)
		bad := func(fn, format string, a ...any) {
			e.Fail(fn+"|result", in, "[]%s %v (logical %v): "+format, append([]any{name, snap, lg}, a...)...)
		}
		enum.Catch(func() {
			for l := 0; l < n; l++ {
				for range u.Keys[l] {
					probe := u.Key(l)
					wantIdx := -1
					for i, x := range lg {
						if x == l {
							wantIdx = i
							break
						}
					}
					e.Call()
					if got := slices.Index(s, probe); got != wantIdx {
						bad("Index", "Index(%s) = %d, want %d", render(probe), got, wantIdx)
					}
					if got := slices.Contains(s, probe); got != (wantIdx >= 0) {
						bad("Contains", "Contains(%s) = %v", render(probe), got)
					}
					// Except / Trim with that one value, spelled differently from the elements
					var wantEx []string
					for i, x := range lg {
						if x != l {
							wantEx = append(wantEx, render(snap[i]))
						}
					}
					var gotEx []string
					for _, v := range slices.Except(s, []K{probe}) {
						gotEx = append(gotEx, render(v))
					}
					if fmt.Sprint(gotEx) != fmt.Sprint(wantEx) {
						bad("Except", "Except(%s) = %v, want %v", render(probe), gotEx, wantEx)
					}
					gotEx = nil
					for _, v := range slices.ExceptSet(s, maps.NewSetFromSlice([]K{probe})) {
						gotEx = append(gotEx, render(v))
					}
					if fmt.Sprint(gotEx) != fmt.Sprint(wantEx) {
						bad("ExceptSet", "ExceptSet(%s) = %v, want %v", render(probe), gotEx, wantEx)
					}
					lo, hi := 0, len(lg)
					for lo < hi && lg[lo] == l {
						lo++
					}
					for hi > lo && lg[hi-1] == l {
						hi--
					}
					if got := slices.Trim(s, []K{probe}); len(got) != hi-lo || (len(got) > 0 && &got[0] != &s[lo]) {
						bad("Trim", "Trim(%s) has length %d, want s[%d:%d]", render(probe), len(got), lo, hi)
					}
				}
			}
			// Distinct: the first occurrence of every logical value, as spelled there
			var wantD []string
			seen := map[int]bool{}
			firstAt := map[int]int{}
			var order []int
			for i, x := range lg {
				if !seen[x] {
					seen[x] = true
					firstAt[x] = i
					order = append(order, x)
					wantD = append(wantD, render(snap[i]))
				}
			}
			var gotD []string
			e.Call()
			for _, v := range slices.Distinct(s) {
				gotD = append(gotD, render(v))
			}
			if fmt.Sprint(gotD) != fmt.Sprint(wantD) {
				bad("Distinct", "Distinct = %v, want the first occurrences %v", gotD, wantD)
			}
			// GroupBy / CountBy with the element itself as the key
			e.Call()
			gg := slices.GroupBy(s, func(v K) K { return v })
			if len(gg) != len(order) {
				bad("GroupBy", "GroupBy(identity) has %d groups, want %d", len(gg), len(order))
			} else {
				for gi, g := range gg {
					l := order[gi]
					var wantM, gotM []string
					for i, x := range lg {
						if x == l {
							wantM = append(wantM, render(snap[i]))
						}
					}
					for _, v := range g.Values {
						gotM = append(gotM, render(v))
					}
					if u.Logical(g.Key) != l || fmt.Sprint(gotM) != fmt.Sprint(wantM) {
						bad("GroupBy", "GroupBy(identity): group %d has key %s and members %v, want logical key %d and members %v", gi, render(g.Key), gotM, l, wantM)
					}
				}
			}
			e.Call()
			cc := slices.CountBy(s, func(v K) K { return v })
			if len(cc) != len(order) {
				bad("CountBy", "CountBy(identity) has %d groups, want %d", len(cc), len(order))
			} else {
				for gi, c := range cc {
					cnt := 0
					for _, x := range lg {
						if x == order[gi] {
							cnt++
						}
					}
					if u.Logical(c.Key) != order[gi] || c.Count != cnt {
						bad("CountBy", "CountBy(identity): group %d = (%s, %d), want logical key %d x %d", gi, render(c.Key), c.Count, order[gi], cnt)
					}
				}
			}
			// a map with these logical keys: HasKey / KeyOf / ContainsValue under every spelling
			m := map[K]K{}
			for i, x := range lg {
				m[snap[i]] = u.Key((x + 1) % n)
			}
			for l := 0; l < n; l++ {
				for range u.Keys[l] {
					probe := u.Key(l)
					e.Call()
					if got := maps.HasKey(m, probe); got != seen[l] {
						bad("maps.HasKey", "HasKey(%s) = %v on a map with logical keys %v", render(probe), got, order)
					}
					wantHas := seen[(l+n-1)%n]
					if got := maps.ContainsValue(m, probe); got != wantHas {
						bad("maps.ContainsValue", "ContainsValue(%s) = %v, want %v", render(probe), got, wantHas)
					}
					k, ok := maps.KeyOf(m, probe)
					if ok != wantHas || (ok && u.Logical(k) != (l+n-1)%n) {
						bad("maps.KeyOf", "KeyOf(%s) = (%s,%v), want logical key %d (present %v)", render(probe), render(k), ok, (l+n-1)%n, wantHas)
					}
				}
			}
		})
		for i := range s {
			if render(s[i]) != render(snap[i]) {
				e.Fail("typed|input-modified", in, "[]%s: the input was modified: %v -> %v", name, snap, s)
				break
			}
		}
	}
}

func allTypedHelpers() {
	typedHelpers(spell.Float64)
	typedHelpers(spell.String)
	typedHelpers(spell.Any)
	typedHelpers(spell.Struct)
	typedHelpers(spell.Array)
	typedHelpers(spell.Complex)
	typedHelpers(spell.Pointers)
	typedHelpers(spell.Int8)
	typedHelpers(spell.Liars)
	typedHelpers(spell.Stringers)
	typedHelpers(spell.Errors)
	typedHelpers(spell.Chans)
	typedHelpers(spell.AnyAlike)
	typedHelpers(spell.StringAlike)
	typedHelpers(spell.FloatAlike)
}
