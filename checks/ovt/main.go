package main

import (
	"fmt"
	"gopkg.in/typ.v4/chans"
	"gopkg.in/typ.v4/sync2"
)

func main() {
	var m sync2.Map[int, int]
	m.Store(1, 2)
	v, ok := m.Load(1)
	fmt.Println(v, ok)
	var ps chans.PubSub[string]
	s := ps.Sub()
	go func() { for x := range s { fmt.Println("got", x) } }()
	ps.PubWait("hi")
	ps.UnsubAll()
	var km sync2.KeyedMutex[string]
	km.LockKey("a"); km.UnlockKey("a")
	var o sync2.Once1[int]
	fmt.Println(o.Do(func() int { return 7 }))
	p := sync2.Pool[int]{New: func() int { return 3 }}
	fmt.Println(p.Get())
}
