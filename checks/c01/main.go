// C01: the AVL tree is a sorted multiset under every operation history.
package main

import (
	"gopkg.in/typ.v4"
	"gopkg.in/typ.v4/avl"
	"math"
	"sort"
	"verif/lib/enum"

	"fmt"
	"time"

	"verif/lib/avlh"
	"verif/lib/ev"
	"verif/lib/seqmc"
)

func main() {
	ev.GuardFor("C01")
	r := ev.Start("C01")
	defer r.FinishOnPanic()
	r.SetDeadline(ev.Pick(r, 50*time.Second, 900*time.Second))
	type cfg struct {
		name string
		p    avlh.Params
		str  bool
	}
	cfgs := []cfg{
		{"int-dups", avlh.Params{U: ev.Pick(r, 4, 5), N: ev.Pick(r, 8, 10), Clone: true}, false},
		{"struct-reversed-dups", avlh.Params{U: 3, N: ev.Pick(r, 7, 9), Clone: true}, true},
		{"int-distinct", avlh.Params{U: ev.Pick(r, 8, 11), N: ev.Pick(r, 8, 11), Distinct: true, Clone: true}, false},
	}
	avlh.Ledger = &enum.E{R: r}
	states, trans, depth := 0, 0, 0
	var parts []string
	for _, c := range cfgs {
		c := c
		res := seqmc.Explore(r, seqmc.Config{Name: c.name, GoTest: avlh.GoTest(c.p, c.str), New: func() seqmc.Sys {
			if c.str {
				return avlh.NewStruct(c.p)
			}
			return avlh.NewInt(c.p)
		}})
		states += res.States
		trans += res.Transitions
		if res.MaxDepth > depth {
			depth = res.MaxDepth
		}
		parts = append(parts, fmt.Sprintf("%s: U=%d N=%d states=%d transitions=%d depth=%d fixpoint=%v", c.name, c.p.U, c.p.N, res.States, res.Transitions, res.MaxDepth, res.Exhaustive))
		if !res.Exhaustive {
			r.MarkCapped()
		}
	}
	// Large-size families: up to 700 values with duplicates, three insertion and three removal
	// orders, against the sorted-multiset model after every call (Len, in-order slice, Contains,
	// Remove results incl. absent values); Clone at several sizes.
	famCalls := 0
	// every family runs twice: on avl.NewOrdered and on avl.New with a comparator that answers with
	// differences (any negative / positive number, not only -1 / +1)
	for _, kind := range []string{"NewOrdered", "difference-comparator"} {
		if kind != "NewOrdered" {
			avlh.NewTree = avlh.Magnitude
		}
		for _, mod := range []int{1000003, 7, 1} {
			for _, ins := range []string{"asc", "desc", "scramble"} {
				for _, del := range []string{"asc", "desc", "scramble"} {
					if msg := family(ev.Pick(r, 260, 700), mod, ins, del, &famCalls); msg != "" {
						r.Report(ev.Violation{Sig: "family|contents", Msg: "(" + kind + " tree) " + msg, Replay: map[string]any{"family": ins + "/" + del, "mod": mod, "tree": kind}})
					}
				}
			}
		}
		r.Set("large_size_family_calls", famCalls)
		// build-then-remove families: every size up to the bound, 7 build orders, every single
		// removal (and every ordered pair of removals for the smaller sizes), checked after each
		{
			var tr func(any)
			if ev.Tracing() {
				tr = ev.Trace
			}
			cases, msg, rp := avlh.RemovalFamilies(ev.Pick(r, 96, 300), ev.Pick(r, 30, 60), false, tr)
			if msg != "" {
				r.Report(ev.Violation{Sig: "family|contents", Msg: "(" + kind + " tree) " + msg, Replay: rp})
			}
			r.Set("removal_family_cases", cases)
		}
		// long-history churn: one tree, tens of thousands of operations (behaviour keyed to a count of
		// operations), with and without duplicates
		for _, dups := range []bool{false, true} {
			var tr func(any)
			if ev.Tracing() {
				tr = ev.Trace
			}
			if msg, rp := avlh.Churn(ev.Pick(r, 140000, 600000), 97, dups, false, tr); msg != "" {
				r.Report(ev.Violation{Sig: "family|churn", Msg: "(" + kind + " tree) " + msg, Replay: rp})
			}
		}
	}
	// Clear and reuse at sizes up to 20000 (on both comparator kinds: NewTree is whatever the last pass set)
	for _, n := range ev.Pick(r, []int{3, 100, 8192, 20000}, []int{3, 100, 8192, 20000, 70000, 300000}) {
		var tr func(any)
		if ev.Tracing() {
			tr = ev.Trace
		}
		if _, msg := avlh.ClearReuse(n, false, tr); msg != "" {
			r.Report(ev.Violation{Sig: "family|clear-reuse", Msg: msg, Replay: map[string]any{"family": "clear-reuse", "n": n}})
		}
	}
	// NewOrdered over the extremes of the ordered element types, every insertion order of 5 boundary
	// values (a comparator computed by subtraction overflows when two values are 2^63 apart)
	{
		cases := 0
		orderedExtremes("int", []int{math.MinInt, -2, 0, 3, math.MaxInt}, &cases, r)
		orderedExtremes("int64", []int64{math.MinInt64, -2, 0, 3, math.MaxInt64}, &cases, r)
		orderedExtremes("int32", []int32{math.MinInt32, -2, 0, 3, math.MaxInt32}, &cases, r)
		orderedExtremes("int8", []int8{math.MinInt8, -2, 0, 3, math.MaxInt8}, &cases, r)
		orderedExtremes("uint64", []uint64{0, 1, 1 << 63, 1<<63 + 1, math.MaxUint64}, &cases, r)
		orderedExtremes("uint8", []uint8{0, 1, 127, 128, 255}, &cases, r)
		orderedExtremes("uintptr", []uintptr{0, 1, 1 << 63, 1<<63 + 1, math.MaxUint64}, &cases, r)
		orderedExtremes("float64", []float64{math.Inf(-1), -math.MaxFloat64, 0, math.SmallestNonzeroFloat64, math.Inf(1)}, &cases, r)
		orderedExtremes("float32", []float32{float32(math.Inf(-1)), -math.MaxFloat32, 0, math.SmallestNonzeroFloat32, float32(math.Inf(1))}, &cases, r)
		orderedExtremes("string", []string{"", "\x00", "a", "a\x00", "\xff\xff"}, &cases, r)
		r.Set("ordered_extremes_family_cases", cases)
	}
	// an answer remembered across exactly 2^k changes (every observer, both flip directions)
	for _, present := range []bool{false, true} {
		cases, msg := enum.Wrap(enum.WrapLadder, func() (func() string, func(int), func()) {
			t := avlh.NewTree()
			want := []int{10, 20, 30}
			for _, v := range want {
				t.Add(v)
			}
			has7, odd := false, false
			flip := func() {
				if has7 {
					t.Remove(7)
				} else {
					t.Add(7)
				}
				has7 = !has7
			}
			if present {
				flip()
			}
			return func() string {
					w := append([]int{}, want...)
					if has7 {
						w = append([]int{7}, w...)
					}
					if odd {
						w = append(w, 1000)
					}
					if got := t.Contains(7); got != has7 {
						return fmt.Sprintf("Contains(7) = %v, want %v", got, has7)
					}
					return avlh.CheckTree(&t, w, false)
				}, func(int) {
					if odd {
						t.Remove(1000)
					} else {
						t.Add(1000)
					}
					odd = !odd
				}, flip
		})
		if msg != "" {
			r.Report(ev.Violation{Sig: "family|wrap", Msg: msg, Replay: map[string]any{"family": "wrap", "present_first": present}})
		}
		r.Set("wrap_family_cases", cases)
	}
	if cases, msg := avlh.PanickingComparator(); msg != "" {
		r.Report(ev.Violation{Sig: "family|panicking-comparator", Msg: msg, Replay: map[string]any{"family": "panicking-comparator"}})
	} else {
		r.Set("panicking_comparator_cases", cases)
	}
	r.Set("churn_family_operations", 2*ev.Pick(r, 140000, 600000))
	r.Set("states", states)
	r.Set("transitions", trans)
	r.Set("traces_validated_against_impl", trans)
	r.Set("max_depth", depth)
	r.Set("configs", parts)
	r.Set("rule", "explicit-state BFS to fixpoint over the real avl.Tree; state = fingerprint of the complete concrete tree; alphabet Add(v), Remove(v) incl. absent values below/inside/above the universe, Clear, Clone (search continues on the clone); after every transition every public observer is compared with a sorted-multiset model PLUS deterministic families beyond the exhaustive bound (large sizes, every single/double removal from trees built in 7 orders, long one-instance churn histories): see the *_family_* counters")
	avlh.Ledger.Flush()
	r.Set("results_kept_and_re_examined_after_later_calls", avlh.Ledger.KeptN)
	r.Assume("comparators are total orders consistent with == (the struct configuration and the second pass of every family use comparators whose results are multiples of the difference, not -1/0/+1); universe and size bound as listed in configs")
	r.Finish()
}

func order(kind string, n int) []int {
	o := make([]int, n)
	for i := range o {
		switch kind {
		case "asc":
			o[i] = i
		case "desc":
			o[i] = n - 1 - i
		default:
			o[i] = (i*7919 + 13) % n // 7919 is prime: a permutation when n is not a multiple of it
		}
	}
	return o
}

// family drives one large tree; values are i % mod (duplicates when mod is small).
func family(n, mod int, ins, del string, calls *int) string {
	t := avlh.NewTree()
	var model []int // sorted
	check := func(what string) string {
		*calls++
		if t.Len() != len(model) {
			return fmt.Sprintf("%s: Len = %d, want %d", what, t.Len(), len(model))
		}
		in := t.SliceInOrder()
		if len(in) != len(model) {
			return fmt.Sprintf("%s: in-order has %d values, want %d", what, len(in), len(model))
		}
		for i := range in {
			if in[i] != model[i] {
				return fmt.Sprintf("%s: in-order[%d] = %d, want %d (n=%d)", what, i, in[i], model[i], len(model))
			}
		}
		return ""
	}
	for step, i := range order(ins, n) {
		v := i % mod
		if ev.Tracing() {
			ev.Trace(map[string]any{"family": ins + "/" + del, "mod": mod, "step": step, "op": "Add", "value": v})
		}
		t.Add(v)
		k := sort.SearchInts(model, v+1)
		model = append(model, 0)
		copy(model[k+1:], model[k:])
		model[k] = v
		if step%7 == 0 || step > n-20 {
			if m := check(fmt.Sprintf("after %d Adds (%s, mod %d)", step+1, ins, mod)); m != "" {
				return m
			}
		}
		if !t.Contains(v) || t.Contains(-1) || t.Remove(n+5) {
			return fmt.Sprintf("after Add(%d): Contains(%d)=%v Contains(-1)=%v (or Remove of an absent value succeeded)", v, v, t.Contains(v), t.Contains(-1))
		}
	}
	if n >= 50 {
		c := t.Clone()
		if c.Len() != t.Len() || fmt.Sprint(c.SliceInOrder()) != fmt.Sprint(t.SliceInOrder()) {
			return fmt.Sprintf("Clone of a %d-element tree differs", n)
		}
		c.Add(-5)
		c.Remove(model[len(model)/2])
		if m := check("after mutating a clone, the original"); m != "" {
			return m
		}
	}
	for step, i := range order(del, n) {
		v := i % mod
		if ev.Tracing() {
			ev.Trace(map[string]any{"family": ins + "/" + del, "mod": mod, "insertions": n, "removal_step": step, "op": "Remove", "value": v})
		}
		k := sort.SearchInts(model, v)
		present := k < len(model) && model[k] == v
		if got := t.Remove(v); got != present {
			return fmt.Sprintf("Remove(%d) = %v, want %v at size %d (%s/%s mod %d)", v, got, present, len(model), ins, del, mod)
		}
		if present {
			model = append(model[:k], model[k+1:]...)
		}
		if step%7 == 0 || step > n-20 {
			if m := check(fmt.Sprintf("after %d Removes (%s)", step+1, del)); m != "" {
				return m
			}
		}
		if present && mod > n && t.Contains(v) {
			return fmt.Sprintf("Contains(%d) still true after removing its only occurrence", v)
		}
	}
	return ""
}

// orderedExtremes: vals is strictly ascending; every permutation is inserted into an avl.NewOrdered tree,
// with one value twice, and one value removed afterwards.
func orderedExtremes[T typ.Ordered](tname string, vals []T, cases *int, r *ev.Run) {
	n := len(vals)
	perm := make([]int, n)
	for i := range perm {
		perm[i] = i
	}
	var rec func(k int)
	failed := false
	rec = func(k int) {
		if failed {
			return
		}
		if k == n {
			t := avl.NewOrdered[T]()
			for _, i := range perm {
				t.Add(vals[i])
			}
			t.Add(vals[perm[0]])
			*cases++
			want := append([]T{}, vals...)
			want = append(want[:perm[0]+1], want[perm[0]:]...)
			got := t.SliceInOrder()
			ok := len(got) == len(want) && t.Len() == len(want)
			for i := 0; ok && i < len(want); i++ {
				ok = got[i] == want[i]
			}
			for _, v := range vals {
				ok = ok && t.Contains(v)
			}
			if ok {
				rm := vals[perm[n-1]]
				ok = t.Remove(rm) && t.Len() == n
				if rm != vals[perm[0]] {
					ok = ok && !t.Contains(rm)
				}
			}
			if !ok {
				failed = true
				order := make([]T, n)
				for j, i := range perm {
					order[j] = vals[i]
				}
				r.Report(ev.Violation{Sig: "family|ordered-extremes", Msg: fmt.Sprintf("avl.NewOrdered[%s]: values added in the order %v (the first one twice): in-order %v, want %v (then Remove/Contains/Len)", tname, order, got, want), Replay: map[string]any{"family": "ordered-extremes", "type": tname, "order": fmt.Sprint(order)}})
			}
			return
		}
		for i := k; i < n; i++ {
			perm[k], perm[i] = perm[i], perm[k]
			rec(k + 1)
			perm[k], perm[i] = perm[i], perm[k]
		}
	}
	rec(0)
}
