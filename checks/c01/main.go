// C01: the AVL tree is a sorted multiset under every operation history.
package main

import (
	"fmt"
	"time"

	"verif/lib/avlh"
	"verif/lib/ev"
	"verif/lib/seqmc"
)

func main() {
	r := ev.Start("C01")
	r.SetDeadline(ev.Pick(r, 50*time.Second, 900*time.Second))
	type cfg struct {
		name string
		p    avlh.Params
		str  bool
	}
	cfgs := []cfg{
		{"int-dups", avlh.Params{U: ev.Pick(r, 3, 4), N: ev.Pick(r, 6, 8), Clone: true}, false},
		{"struct-reversed-dups", avlh.Params{U: 3, N: ev.Pick(r, 5, 7), Clone: true}, true},
		{"int-distinct", avlh.Params{U: ev.Pick(r, 6, 8), N: ev.Pick(r, 6, 8), Distinct: true, Clone: true}, false},
	}
	states, trans, depth := 0, 0, 0
	var parts []string
	for _, c := range cfgs {
		c := c
		res := seqmc.Explore(r, seqmc.Config{Name: c.name, New: func() seqmc.Sys {
			if c.str {
				return avlh.NewStruct(c.p)
			}
			return avlh.NewInt(c.p)
		}})
		states += res.States
		trans += res.Transitions
		if res.MaxDepth > depth {
			depth = res.MaxDepth
		}
		parts = append(parts, fmt.Sprintf("%s: U=%d N=%d states=%d transitions=%d depth=%d fixpoint=%v", c.name, c.p.U, c.p.N, res.States, res.Transitions, res.MaxDepth, res.Exhaustive))
		if !res.Exhaustive {
			r.MarkCapped()
		}
	}
	r.Set("states", states)
	r.Set("transitions", trans)
	r.Set("traces_validated_against_impl", trans)
	r.Set("max_depth", depth)
	r.Set("configs", parts)
	r.Set("rule", "explicit-state BFS to fixpoint over the real avl.Tree; state = fingerprint of the complete concrete tree; alphabet Add(v), Remove(v) incl. absent values below/inside/above the universe, Clear, Clone (search continues on the clone); after every transition every public observer is compared with a sorted-multiset model")
	r.Assume("comparators are total orders consistent with ==; universe and size bound as listed in configs")
	r.Finish()
}
