// C12: slice splicing helpers equal the splice model for every index and capacity.
package main

import (
	"fmt"
	"math"
	"reflect"
	"time"

	"gopkg.in/typ.v4/slices"
	"verif/lib/enum"
	"verif/lib/ev"
	"verif/lib/spell"
)

const dirty = 9000

// mk builds a slice of n position-tagged elements with `spare` extra capacity
// whose hidden region is pre-filled with non-zero garbage.
func mk(n, spare, tag int) (s []int, backing []int) {
	backing = make([]int, n+spare)
	for i := range backing {
		backing[i] = dirty + i
	}
	s = backing[:n]
	for i := range s {
		s[i] = tag + i
	}
	return
}

func splice(s []int, i, del int, ins []int) []int {
	out := append([]int{}, s[:i]...)
	out = append(out, ins...)
	return append(out, s[i+del:]...)
}

// typedSplice runs the splice model over ONE element type with a universe of special values (negative
// zero, NaN, values whose IsZero method lies, nil and non-nil pointers to equal things, ...). same decides
// whether two elements are the very same value (bit pattern / identity), which == cannot for floats.
func typedSplice[T any](e *enum.E, tname string, vals []T, same func(a, b T) bool) {
	eq := func(a, b []T) bool {
		if len(a) != len(b) {
			return false
		}
		for i := range a {
			if !same(a[i], b[i]) {
				return false
			}
		}
		return true
	}
	var zero T
	build := func(n, spare, off int) []T {
		b := make([]T, n+spare)
		for i := range b {
			b[i] = vals[(i+off+1)%len(vals)]
		}
		return b[:n]
	}
	spl := func(s []T, i, del int, ins []T) []T {
		out := append([]T{}, s[:i]...)
		out = append(out, ins...)
		return append(out, s[i+del:]...)
	}
	for n := 0; n <= 5; n++ {
		for _, sp := range []int{0, 2} {
			for off := 0; off < len(vals); off++ {
				rp := map[string]any{"element_type": tname, "len": n, "spare": sp, "offset": off}
				e.Input(n > 0)
				fail := func(fn string, format string, a ...any) {
					e.Fail(fn+"|contents", rp, "[]%s: "+format, append([]any{tname}, a...)...)
				}
				orig := build(n, sp, off)
				for i := 0; i <= n; i++ {
					for _, v := range vals {
						s := build(n, sp, off)
						e.Call()
						slices.Insert(&s, i, v)
						if want := spl(orig, i, 0, []T{v}); !eq(s, want) {
							fail("Insert", "Insert(%v, %d, %v) = %v, want %v", orig, i, v, s, want)
						}
					}
					ins := build(2, 0, off+3)
					s := build(n, sp, off)
					e.Call()
					slices.InsertSlice(&s, i, ins)
					if want := spl(orig, i, 0, ins); !eq(s, want) {
						fail("InsertSlice", "InsertSlice(%v, %d, %v) = %v, want %v", orig, i, ins, s, want)
					}
					if i < n {
						s = build(n, sp, off)
						e.Call()
						slices.Remove(&s, i)
						if want := spl(orig, i, 1, nil); !eq(s, want) {
							fail("Remove", "Remove(%v, %d) = %v, want %v", orig, i, s, want)
						}
					}
					for l := 0; i+l <= n; l++ {
						s = build(n, sp, off)
						e.Call()
						slices.RemoveSlice(&s, i, l)
						if want := spl(orig, i, l, nil); !eq(s, want) {
							fail("RemoveSlice", "RemoveSlice(%v, %d, %d) = %v, want %v", orig, i, l, s, want)
						}
					}
				}
				s := build(n, sp, off)
				e.Call()
				slices.Reverse(s)
				for i := range s {
					if !same(s[i], orig[n-1-i]) {
						fail("Reverse", "Reverse(%v) = %v", orig, s)
						break
					}
				}
				s = build(n, sp, off)
				e.Call()
				if c := slices.Clone(s); !eq(c, orig) {
					fail("Clone", "Clone(%v) = %v", orig, c)
				} else {
					e.Keep("Clone", c, rp)
				}
				other := build(3, 1, off+1)
				e.Call()
				if c := slices.Concat(s, other); !eq(c, append(append([]T{}, orig...), other...)) {
					fail("Concat", "Concat(%v, %v) = %v", orig, other, c)
				} else {
					e.Keep("Concat", c, rp)
				}
				for g := 0; g <= 3; g++ {
					s = build(n, sp, off)
					e.Call()
					grown := slices.Grow(s, g)
					want := append([]T{}, orig...)
					for k := 0; k < g; k++ {
						want = append(want, zero)
					}
					if !eq(grown, want) {
						fail("Grow", "Grow(%v, %d) = %v, want %v", orig, g, grown, want)
					} else {
						e.Keep("Grow", grown, rp)
					}
				}
			}
			for _, v := range vals {
				rp := map[string]any{"element_type": tname, "len": n, "spare": sp, "value": fmt.Sprint(v)}
				s := build(n, sp, 0)
				e.Call()
				slices.Fill(s, v)
				for i := range s {
					if !same(s[i], v) {
						e.Fail("Fill|contents", rp, "[]%s: Fill(len %d, %v): element %d = %v", tname, n, v, i, s[i])
						break
					}
				}
				for _, cnt := range []int{n, 7 * n, 33 + n, 260 + n} {
					e.Call()
					rep := slices.Repeat(v, cnt)
					if cnt < 64 {
						e.Keep("Repeat", rep, rp)
					}
					if len(rep) != cnt {
						e.Fail("Repeat|length", rp, "[]%s: Repeat(%v, %d) has length %d", tname, v, cnt, len(rep))
					}
					for i := range rep {
						if !same(rep[i], v) {
							e.Fail("Repeat|contents", rp, "[]%s: Repeat(%v, %d): element %d = %v, which is not the given value", tname, v, cnt, i, rep[i])
							break
						}
					}
				}
			}
		}
	}
}

// liar reports IsZero() == true for some values that are not the zero value.
type liar struct{ N int }

func (l liar) IsZero() bool { return l.N%2 == 0 }

type bigElem [1100]int64

// cloner / *clonerP: element types with a Clone method that does NOT return the receiver; helpers that are
// specified as storing "the value" must store the value, not its clone.
type cloner struct{ N int }

func (c cloner) Clone() cloner { return cloner{c.N + 1000} }

type clonerP struct{ N int }

func (c *clonerP) Clone() *clonerP { return &clonerP{c.N} }

type fstruct struct {
	F float64
	P *int
}

func main() {
	ev.GuardFor("C12")
	r := ev.Start("C12")
	defer r.FinishOnPanic()
	e := &enum.E{R: r}
	maxLen := ev.Pick(r, 6, 12)
	spares := ev.Pick(r, []int{0, 1, 2, 5}, []int{0, 1, 2, 3, 5, 8, 17})
	maxIns := ev.Pick(r, 3, 7)
	sampled := 0
	for n := 0; n <= maxLen; n++ {
		for _, sp := range spares {
			// Insert
			for i := 0; i <= n; i++ {
				s, _ := mk(n, sp, 100)
				want := splice(s, i, 0, []int{777})
				rp := map[string]any{"fn": "Insert", "len": n, "spare": sp, "index": i}
				e.Input(i < n)
				e.Call()
				if p, m := enum.Catch(func() { slices.Insert(&s, i, 777) }); p {
					e.Fail("Insert|panic", rp, "Insert(len=%d spare=%d, %d) panicked: %s", n, sp, i, m)
				} else if !reflect.DeepEqual(s, want) {
					e.Fail("Insert|contents", rp, "Insert(len=%d spare=%d, index %d) = %v, want %v", n, sp, i, s, want)
				}
				if sampled < 3 {
					r.Sample(rp)
					sampled++
				}
			}
			// InsertSlice
			for i := 0; i <= n; i++ {
				for k := 0; k <= maxIns; k++ {
					s, _ := mk(n, sp, 100)
					vals, _ := mk(k, 1, 500)
					valsCopy := append([]int{}, vals...)
					want := splice(s, i, 0, vals)
					rp := map[string]any{"fn": "InsertSlice", "len": n, "spare": sp, "index": i, "inserted": k}
					e.Input(k > 0 && i < n)
					e.Call()
					if p, m := enum.Catch(func() { slices.InsertSlice(&s, i, vals) }); p {
						e.Fail("InsertSlice|panic", rp, "InsertSlice(len=%d spare=%d, %d, %d values) panicked: %s", n, sp, i, k, m)
					} else if !reflect.DeepEqual(s, want) {
						e.Fail("InsertSlice|contents", rp, "InsertSlice(len=%d spare=%d, index %d, %v) = %v, want %v", n, sp, i, valsCopy, s, want)
					} else if !reflect.DeepEqual(vals, valsCopy) {
						e.Fail("InsertSlice|modified-argument", rp, "InsertSlice changed the inserted slice: %v -> %v", valsCopy, vals)
					}
				}
			}
			// Remove
			for i := 0; i < n; i++ {
				s, _ := mk(n, sp, 100)
				want := splice(s, i, 1, nil)
				rp := map[string]any{"fn": "Remove", "len": n, "spare": sp, "index": i}
				e.Input(i < n-1)
				e.Call()
				if p, m := enum.Catch(func() { slices.Remove(&s, i) }); p {
					e.Fail("Remove|panic", rp, "Remove(len=%d, %d) panicked: %s", n, i, m)
				} else if !reflect.DeepEqual(s, want) {
					e.Fail("Remove|contents", rp, "Remove(len=%d spare=%d, index %d) = %v, want %v", n, sp, i, s, want)
				}
			}
			// RemoveSlice
			for i := 0; i <= n; i++ {
				for l := 0; i+l <= n; l++ {
					s, _ := mk(n, sp, 100)
					want := splice(s, i, l, nil)
					rp := map[string]any{"fn": "RemoveSlice", "len": n, "spare": sp, "index": i, "length": l}
					e.Input(l > 0 && i+l < n)
					e.Call()
					if p, m := enum.Catch(func() { slices.RemoveSlice(&s, i, l) }); p {
						e.Fail("RemoveSlice|panic", rp, "RemoveSlice(len=%d, %d, %d) panicked: %s", n, i, l, m)
					} else if !reflect.DeepEqual(s, want) {
						e.Fail("RemoveSlice|contents", rp, "RemoveSlice(len=%d spare=%d, index %d, length %d) = %v, want %v", n, sp, i, l, s, want)
					}
				}
			}
			// Reverse
			{
				s, b := mk(n, sp, 100)
				want := make([]int, n)
				for i := range s {
					want[n-1-i] = s[i]
				}
				e.Input(n > 1)
				e.Call()
				slices.Reverse(s)
				if !reflect.DeepEqual(s, want) {
					e.Fail("Reverse|contents", map[string]any{"fn": "Reverse", "len": n}, "Reverse(len=%d) = %v, want %v", n, s, want)
				}
				checkHidden(e, "Reverse", b, n)
			}
			// Clone
			{
				s, b := mk(n, sp, 100)
				orig := append([]int{}, s...)
				e.Input(n > 0)
				e.Call()
				c := slices.Clone(s)
				rp := map[string]any{"fn": "Clone", "len": n, "spare": sp}
				if len(c) != n || (n > 0 && !reflect.DeepEqual(c, orig)) {
					e.Fail("Clone|contents", rp, "Clone(%v) = %v", orig, c)
				}
				scribble(c)
				if !reflect.DeepEqual(s, orig) && n > 0 {
					e.Fail("Clone|shares-memory", rp, "writing to the clone changed the input: %v -> %v", orig, s)
				}
				checkHidden(e, "Clone", b, n)
			}
			// Grow
			for g := 0; g <= ev.Pick(r, 4, 9); g++ {
				s, _ := mk(n, sp, 100)
				orig := append([]int{}, s...)
				rp := map[string]any{"fn": "Grow", "len": n, "spare": sp, "n": g}
				e.Input(g > 0 && sp > 0)
				e.Call()
				out := slices.Grow(s, g)
				want := append(append([]int{}, orig...), make([]int, g)...)
				if len(out) != n+g || !eq(out, want) {
					e.Fail("Grow|contents", rp, "Grow(len=%d spare=%d (dirty), %d) = %v, want %v", n, sp, g, out, want)
				}
			}
			// Concat: a has spare capacity, b of every length incl. nil
			for m := 0; m <= ev.Pick(r, 4, 6); m++ {
				for _, bnil := range []bool{false, true} {
					if bnil && m > 0 {
						continue
					}
					a, ab := mk(n, sp, 100)
					b, bb := mk(m, 1, 300)
					if bnil {
						b = nil
					}
					var an []int = a
					if n == 0 && sp == 0 {
						an = nil
					}
					ao, bo := append([]int{}, a...), append([]int{}, b...)
					rp := map[string]any{"fn": "Concat", "len_a": n, "spare_a": sp, "len_b": m, "b_nil": bnil}
					e.Input(n > 0 && m > 0)
					e.Call()
					c := slices.Concat(an, b)
					want := append(append([]int{}, ao...), bo...)
					if !eq(c, want) {
						e.Fail("Concat|contents", rp, "Concat(%v,%v) = %v", ao, bo, c)
					}
					checkHidden(e, "Concat", ab, n)
					checkHidden(e, "Concat", bb, m)
					scribble(c)
					if !eq(a, ao) || !eq(b, bo) {
						e.Fail("Concat|shares-memory", rp, "writing to Concat's result changed an input: a %v -> %v, b %v -> %v", ao, a, bo, b)
					}
					// and the other direction
					c2 := slices.Concat(an, b)
					scribble(a)
					scribble(b)
					if !eq(c2, want) {
						e.Fail("Concat|shares-memory", rp, "writing to an input changed Concat's result: %v -> %v", want, c2)
					}
					// appending to the result must not write into an input's hidden capacity
					a3, ab3 := mk(n, sp, 100)
					c3 := slices.Concat(a3, b)
					c3 = append(c3, 4242)
					_ = c3
					checkHidden(e, "Concat", ab3, n)
				}
			}
		}
	}
	// Fill / Repeat for every length (the exponential copy crosses several doublings)
	for n := 0; n <= ev.Pick(r, 9000, 70000); n += 1 + n/3000 {
		for _, sp := range []int{0, 3} {
			s, b := mk(n, sp, 100)
			e.Input(n > 1)
			e.Call()
			rp := map[string]any{"fn": "Fill", "len": n, "spare": sp}
			if p, m := enum.Catch(func() { slices.Fill(s, 7) }); p {
				e.Fail("Fill|panic", rp, "Fill(len=%d) panicked: %s", n, m)
			}
			for i, v := range s {
				if v != 7 {
					e.Fail("Fill|contents", rp, "Fill(len=%d): element %d = %d, want 7", n, i, v)
					break
				}
			}
			checkHidden(e, "Fill", b, n)
		}
		e.Call()
		rep := slices.Repeat(7, n)
		if len(rep) != n {
			e.Fail("Repeat|length", map[string]any{"fn": "Repeat", "count": n}, "Repeat(7,%d) has length %d", n, len(rep))
		}
		for i, v := range rep {
			if v != 7 {
				e.Fail("Repeat|contents", map[string]any{"fn": "Repeat", "count": n}, "Repeat(7,%d): element %d = %d", n, i, v)
				break
			}
		}
	}
	// element types
	{
		nz := math.Copysign(0, -1)
		f64 := func(a, b float64) bool { return math.Float64bits(a) == math.Float64bits(b) }
		typedSplice(e, "int", []int{0, 1, 2, 3, -1}, func(a, b int) bool { return a == b })
		// element sizes: zero-size elements (all values equal: lengths and capacities are what is left to
		// check), one-byte elements, and elements larger than a memory page
		typedSplice(e, "struct{}", []struct{}{{}, {}}, func(a, b struct{}) bool { return true })
		typedSplice(e, "[0]int", [][0]int{{}, {}}, func(a, b [0]int) bool { return true })
		typedSplice(e, "bool", []bool{false, true, true, false, true}, func(a, b bool) bool { return a == b })
		typedSplice(e, "struct with a Clone method", []cloner{{0}, {1}, {2}, {3}}, func(a, b cloner) bool { return a == b })
		typedSplice(e, "pointer type with a Clone method", []*clonerP{nil, {1}, {1}, {3}}, func(a, b *clonerP) bool { return a == b })
		typedSplice(e, "struct with lying Equal/IsZero/String methods", []spell.Liar{{0}, {1}, {2}, {3}}, func(a, b spell.Liar) bool { return a == b })
		{
			mkBig := func(tag int) bigElem {
				var b bigElem
				b[0], b[len(b)/2], b[len(b)-1] = int64(tag), int64(-tag), int64(tag*7)
				return b
			}
			typedSplice(e, "[1100]int64 (8800 bytes)", []bigElem{mkBig(0), mkBig(1), mkBig(2), mkBig(3)}, func(a, b bigElem) bool { return a == b })
		}
		typedSplice(e, "float64", []float64{nz, 0, math.NaN(), 1.5, math.Inf(-1)}, f64)
		typedSplice(e, "float32", []float32{float32(nz), 0, float32(math.NaN()), 2.5}, func(a, b float32) bool { return math.Float32bits(a) == math.Float32bits(b) })
		typedSplice(e, "complex128", []complex128{complex(nz, 0), complex(0, nz), 0, complex(1, nz)}, func(a, b complex128) bool { return f64(real(a), real(b)) && f64(imag(a), imag(b)) })
		one, uno := 1, 1
		typedSplice(e, "struct{float64,*int}", []fstruct{{nz, nil}, {0, nil}, {0, &one}, {0, &uno}, {1, &one}}, func(a, b fstruct) bool { return f64(a.F, b.F) && a.P == b.P })
		typedSplice(e, "type with IsZero method", []liar{{0}, {2}, {3}, {4}}, func(a, b liar) bool { return a == b })
		typedSplice(e, "*int", []*int{nil, &one, &uno, new(int)}, func(a, b *int) bool { return a == b })
		typedSplice(e, "string", []string{"", "a", "\x00", "aa"}, func(a, b string) bool { return a == b })
		typedSplice(e, "any", []any{nil, 0, "", (*int)(nil), liar{2}, nz, &one}, func(a, b any) bool {
			if x, ok := a.(float64); ok {
				y, ok2 := b.(float64)
				return ok2 && f64(x, y)
			}
			return a == b
		})
		typedSplice(e, "time.Time", []time.Time{{}, time.Time{}.In(time.FixedZone("x", 3600)), time.Unix(0, 0), time.Unix(0, 0).UTC()}, func(a, b time.Time) bool { return a == b })
		typedSplice(e, "[2]float64", [][2]float64{{nz, 0}, {0, nz}, {0, 0}, {1, 2}}, func(a, b [2]float64) bool { return f64(a[0], b[0]) && f64(a[1], b[1]) })
	}
	// Fill / Repeat at millions of elements (a copy strategy that changes above a size)
	for _, n := range ev.Pick(r, []int{1<<20 + 1, 3<<20 + 1, 1<<22 + 3}, []int{1<<20 + 1, 3<<20 + 1, 1<<22 + 3, 1<<24 + 5, 1<<26 + 1}) {
		big := make([]int32, n)
		e.Input(true)
		e.Call()
		slices.Fill(big, 7)
		for i, v := range big {
			if v != 7 {
				e.Fail("Fill|contents", map[string]any{"fn": "Fill", "len": n}, "Fill(len=%d): element %d = %d, want 7", n, i, v)
				break
			}
		}
		e.Call()
		rep := slices.Repeat(int32(9), n)
		if len(rep) != n {
			e.Fail("Repeat|length", map[string]any{"fn": "Repeat", "count": n}, "Repeat(9,%d) has length %d", n, len(rep))
		}
		for i, v := range rep {
			if v != 9 {
				e.Fail("Repeat|contents", map[string]any{"fn": "Repeat", "count": n}, "Repeat(9,%d): element %d = %d", n, i, v)
				break
			}
		}
	}
	// Large-size families: the same splice model at lengths around every power of two up to
	// 1025 (append growth, memmove and exponential-copy thresholds), a few positions each.
	fam := 0
	famSizes := []int{15, 16, 17, 31, 32, 33, 63, 64, 65, 127, 128, 129, 255, 256, 257, 511, 512, 513, 1000, 1023, 1024, 1025}
	// ... and a few lengths in the millions that are NOT round (work split into chunks or across goroutines
	// above a size, with a remainder that is forgotten)
	famSizes = append(famSizes, ev.Pick(r, []int{65536 + 3, 1<<20 + 7, 1<<21 + 2}, []int{65536 + 3, 1<<20 + 7, 1<<21 + 2, 3000001, 1<<22 + 13, 1<<24 + 6})...)
	for _, n := range famSizes {
		spares := []int{0, 1, n / 2, n}
		if n > 70000 {
			spares = []int{0, 5}
		}
		for _, sp := range spares {
			check := func(fn string, got, want []int, rp map[string]any) {
				e.Call()
				fam++
				if !eq(got, want) {
					e.Fail(fn+"|contents", rp, "%s on length %d spare %d: result differs from the splice model (first 8: %v)", fn, n, sp, head(got))
				}
			}
			for _, i := range []int{0, 1, n / 3, n / 2, n - 1, n} {
				s, _ := mk(n, sp, 100)
				want := splice(s, i, 0, []int{777})
				slices.Insert(&s, i, 777)
				check("Insert", s, want, map[string]any{"fn": "Insert", "len": n, "spare": sp, "index": i})
				for _, k := range []int{1, 2, n / 2, n + 1} {
					s, _ := mk(n, sp, 100)
					vals, _ := mk(k, 0, 50000)
					want := splice(s, i, 0, vals)
					slices.InsertSlice(&s, i, vals)
					check("InsertSlice", s, want, map[string]any{"fn": "InsertSlice", "len": n, "spare": sp, "index": i, "inserted": k})
				}
				if i < n {
					s, _ := mk(n, sp, 100)
					want := splice(s, i, 1, nil)
					slices.Remove(&s, i)
					check("Remove", s, want, map[string]any{"fn": "Remove", "len": n, "spare": sp, "index": i})
				}
				for _, l := range []int{1, n / 4, n - i} {
					if i+l > n {
						continue
					}
					s, _ := mk(n, sp, 100)
					want := splice(s, i, l, nil)
					slices.RemoveSlice(&s, i, l)
					check("RemoveSlice", s, want, map[string]any{"fn": "RemoveSlice", "len": n, "spare": sp, "index": i, "length": l})
				}
			}
			{
				s, b := mk(n, sp, 100)
				want := make([]int, n)
				for i := range s {
					want[n-1-i] = s[i]
				}
				slices.Reverse(s)
				check("Reverse", s, want, map[string]any{"fn": "Reverse", "len": n})
				checkHidden(e, "Reverse", b, n)
				s2, b2 := mk(n, sp, 100)
				orig := append([]int{}, s2...)
				c := slices.Clone(s2)
				check("Clone", c, orig, map[string]any{"fn": "Clone", "len": n})
				scribble(c)
				check("Clone|shares-memory", s2, orig, map[string]any{"fn": "Clone", "len": n})
				checkHidden(e, "Clone", b2, n)
				for _, g := range []int{1, sp, n} {
					s3, _ := mk(n, sp, 100)
					out := slices.Grow(s3, g)
					check("Grow", out, append(append([]int{}, orig...), make([]int, g)...), map[string]any{"fn": "Grow", "len": n, "spare": sp, "n": g})
				}
				for _, m := range []int{0, 1, n / 2, n} {
					a, ab := mk(n, sp, 100)
					bb, _ := mk(m, 1, 300000)
					ao, bo := append([]int{}, a...), append([]int{}, bb...)
					c := slices.Concat(a, bb)
					check("Concat", c, append(append([]int{}, ao...), bo...), map[string]any{"fn": "Concat", "len_a": n, "spare_a": sp, "len_b": m})
					scribble(c)
					if !eq(a, ao) || !eq(bb, bo) {
						e.Fail("Concat|shares-memory", map[string]any{"fn": "Concat", "len_a": n, "len_b": m}, "writing to Concat's result changed an input (lengths %d,%d)", n, m)
					}
					checkHidden(e, "Concat", ab, n)
				}
			}
		}
	}
	r.Set("large_size_family_calls", fam)
	e.Finish(fmt.Sprintf("every length 0..%d x spare capacity %v (hidden region pre-filled with garbage) x every valid index / inserted length 0..%d / removal length; Fill/Repeat every length; Concat every length pair incl. nil; position-tagged elements; the same model over 10 element types (floats and complex numbers with negative zero and NaN compared by bit pattern, structs holding them, a type whose IsZero method lies, pointers, strings, interfaces, time.Time) at lengths 0..5; plus large-size families at lengths around every power of two up to 1025 and at a few odd lengths in the millions; non-trivial = the call moves or writes at least one element next to others", maxLen, spares, maxIns))
}

func head(s []int) []int {
	if len(s) > 8 {
		return s[:8]
	}
	return s
}

func eq(a, b []int) bool {
	if len(a) != len(b) {
		return false
	}
	for i := range a {
		if a[i] != b[i] {
			return false
		}
	}
	return true
}

func scribble(s []int) {
	for i := range s {
		s[i] = -1 - i
	}
}

// checkHidden verifies that the hidden region len..cap of an input is untouched.
func checkHidden(e *enum.E, fn string, backing []int, n int) {
	for i := n; i < len(backing); i++ {
		if backing[i] != dirty+i {
			e.Fail(fn+"|wrote-hidden-capacity", map[string]any{"fn": fn, "len": n, "cap": len(backing)}, "%s wrote into the hidden capacity of an input (index %d = %d)", fn, i, backing[i])
			return
		}
	}
}
