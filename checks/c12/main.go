// C12: slice splicing helpers equal the splice model for every index and capacity.
package main

import (
	"fmt"
	"reflect"

	"gopkg.in/typ.v4/slices"
	"verif/lib/enum"
	"verif/lib/ev"
)

const dirty = 9000

// mk builds a slice of n position-tagged elements with `spare` extra capacity
// whose hidden region is pre-filled with non-zero garbage.
func mk(n, spare, tag int) (s []int, backing []int) {
	backing = make([]int, n+spare)
	for i := range backing {
		backing[i] = dirty + i
	}
	s = backing[:n]
	for i := range s {
		s[i] = tag + i
	}
	return
}

func splice(s []int, i, del int, ins []int) []int {
	out := append([]int{}, s[:i]...)
	out = append(out, ins...)
	return append(out, s[i+del:]...)
}

func main() {
	ev.GuardFor("C12")
	r := ev.Start("C12")
	defer r.FinishOnPanic()
	e := &enum.E{R: r}
	maxLen := ev.Pick(r, 6, 12)
	spares := ev.Pick(r, []int{0, 1, 2, 5}, []int{0, 1, 2, 3, 5, 8, 17})
	maxIns := ev.Pick(r, 3, 7)
	sampled := 0
	for n := 0; n <= maxLen; n++ {
		for _, sp := range spares {
			// Insert
			for i := 0; i <= n; i++ {
				s, _ := mk(n, sp, 100)
				want := splice(s, i, 0, []int{777})
				rp := map[string]any{"fn": "Insert", "len": n, "spare": sp, "index": i}
				e.Input(i < n)
				e.Call()
				if p, m := enum.Catch(func() { slices.Insert(&s, i, 777) }); p {
					e.Fail("Insert|panic", rp, "Insert(len=%d spare=%d, %d) panicked: %s", n, sp, i, m)
				} else if !reflect.DeepEqual(s, want) {
					e.Fail("Insert|contents", rp, "Insert(len=%d spare=%d, index %d) = %v, want %v", n, sp, i, s, want)
				}
				if sampled < 3 {
					r.Sample(rp)
					sampled++
				}
			}
			// InsertSlice
			for i := 0; i <= n; i++ {
				for k := 0; k <= maxIns; k++ {
					s, _ := mk(n, sp, 100)
					vals, _ := mk(k, 1, 500)
					valsCopy := append([]int{}, vals...)
					want := splice(s, i, 0, vals)
					rp := map[string]any{"fn": "InsertSlice", "len": n, "spare": sp, "index": i, "inserted": k}
					e.Input(k > 0 && i < n)
					e.Call()
					if p, m := enum.Catch(func() { slices.InsertSlice(&s, i, vals) }); p {
						e.Fail("InsertSlice|panic", rp, "InsertSlice(len=%d spare=%d, %d, %d values) panicked: %s", n, sp, i, k, m)
					} else if !reflect.DeepEqual(s, want) {
						e.Fail("InsertSlice|contents", rp, "InsertSlice(len=%d spare=%d, index %d, %v) = %v, want %v", n, sp, i, valsCopy, s, want)
					} else if !reflect.DeepEqual(vals, valsCopy) {
						e.Fail("InsertSlice|modified-argument", rp, "InsertSlice changed the inserted slice: %v -> %v", valsCopy, vals)
					}
				}
			}
			// Remove
			for i := 0; i < n; i++ {
				s, _ := mk(n, sp, 100)
				want := splice(s, i, 1, nil)
				rp := map[string]any{"fn": "Remove", "len": n, "spare": sp, "index": i}
				e.Input(i < n-1)
				e.Call()
				if p, m := enum.Catch(func() { slices.Remove(&s, i) }); p {
					e.Fail("Remove|panic", rp, "Remove(len=%d, %d) panicked: %s", n, i, m)
				} else if !reflect.DeepEqual(s, want) {
					e.Fail("Remove|contents", rp, "Remove(len=%d spare=%d, index %d) = %v, want %v", n, sp, i, s, want)
				}
			}
			// RemoveSlice
			for i := 0; i <= n; i++ {
				for l := 0; i+l <= n; l++ {
					s, _ := mk(n, sp, 100)
					want := splice(s, i, l, nil)
					rp := map[string]any{"fn": "RemoveSlice", "len": n, "spare": sp, "index": i, "length": l}
					e.Input(l > 0 && i+l < n)
					e.Call()
					if p, m := enum.Catch(func() { slices.RemoveSlice(&s, i, l) }); p {
						e.Fail("RemoveSlice|panic", rp, "RemoveSlice(len=%d, %d, %d) panicked: %s", n, i, l, m)
					} else if !reflect.DeepEqual(s, want) {
						e.Fail("RemoveSlice|contents", rp, "RemoveSlice(len=%d spare=%d, index %d, length %d) = %v, want %v", n, sp, i, l, s, want)
					}
				}
			}
			// Reverse
			{
				s, b := mk(n, sp, 100)
				want := make([]int, n)
				for i := range s {
					want[n-1-i] = s[i]
				}
				e.Input(n > 1)
				e.Call()
				slices.Reverse(s)
				if !reflect.DeepEqual(s, want) {
					e.Fail("Reverse|contents", map[string]any{"fn": "Reverse", "len": n}, "Reverse(len=%d) = %v, want %v", n, s, want)
				}
				checkHidden(e, "Reverse", b, n)
			}
			// Clone
			{
				s, b := mk(n, sp, 100)
				orig := append([]int{}, s...)
				e.Input(n > 0)
				e.Call()
				c := slices.Clone(s)
				rp := map[string]any{"fn": "Clone", "len": n, "spare": sp}
				if len(c) != n || (n > 0 && !reflect.DeepEqual(c, orig)) {
					e.Fail("Clone|contents", rp, "Clone(%v) = %v", orig, c)
				}
				scribble(c)
				if !reflect.DeepEqual(s, orig) && n > 0 {
					e.Fail("Clone|shares-memory", rp, "writing to the clone changed the input: %v -> %v", orig, s)
				}
				checkHidden(e, "Clone", b, n)
			}
			// Grow
			for g := 0; g <= ev.Pick(r, 4, 9); g++ {
				s, _ := mk(n, sp, 100)
				orig := append([]int{}, s...)
				rp := map[string]any{"fn": "Grow", "len": n, "spare": sp, "n": g}
				e.Input(g > 0 && sp > 0)
				e.Call()
				out := slices.Grow(s, g)
				want := append(append([]int{}, orig...), make([]int, g)...)
				if len(out) != n+g || !eq(out, want) {
					e.Fail("Grow|contents", rp, "Grow(len=%d spare=%d (dirty), %d) = %v, want %v", n, sp, g, out, want)
				}
			}
			// Concat: a has spare capacity, b of every length incl. nil
			for m := 0; m <= ev.Pick(r, 4, 6); m++ {
				for _, bnil := range []bool{false, true} {
					if bnil && m > 0 {
						continue
					}
					a, ab := mk(n, sp, 100)
					b, bb := mk(m, 1, 300)
					if bnil {
						b = nil
					}
					var an []int = a
					if n == 0 && sp == 0 {
						an = nil
					}
					ao, bo := append([]int{}, a...), append([]int{}, b...)
					rp := map[string]any{"fn": "Concat", "len_a": n, "spare_a": sp, "len_b": m, "b_nil": bnil}
					e.Input(n > 0 && m > 0)
					e.Call()
					c := slices.Concat(an, b)
					want := append(append([]int{}, ao...), bo...)
					if !eq(c, want) {
						e.Fail("Concat|contents", rp, "Concat(%v,%v) = %v", ao, bo, c)
					}
					checkHidden(e, "Concat", ab, n)
					checkHidden(e, "Concat", bb, m)
					scribble(c)
					if !eq(a, ao) || !eq(b, bo) {
						e.Fail("Concat|shares-memory", rp, "writing to Concat's result changed an input: a %v -> %v, b %v -> %v", ao, a, bo, b)
					}
					// and the other direction
					c2 := slices.Concat(an, b)
					scribble(a)
					scribble(b)
					if !eq(c2, want) {
						e.Fail("Concat|shares-memory", rp, "writing to an input changed Concat's result: %v -> %v", want, c2)
					}
					// appending to the result must not write into an input's hidden capacity
					a3, ab3 := mk(n, sp, 100)
					c3 := slices.Concat(a3, b)
					c3 = append(c3, 4242)
					_ = c3
					checkHidden(e, "Concat", ab3, n)
				}
			}
		}
	}
	// Fill / Repeat for every length (the exponential copy crosses several doublings)
	for n := 0; n <= ev.Pick(r, 9000, 70000); n += 1 + n/3000 {
		for _, sp := range []int{0, 3} {
			s, b := mk(n, sp, 100)
			e.Input(n > 1)
			e.Call()
			rp := map[string]any{"fn": "Fill", "len": n, "spare": sp}
			if p, m := enum.Catch(func() { slices.Fill(s, 7) }); p {
				e.Fail("Fill|panic", rp, "Fill(len=%d) panicked: %s", n, m)
			}
			for i, v := range s {
				if v != 7 {
					e.Fail("Fill|contents", rp, "Fill(len=%d): element %d = %d, want 7", n, i, v)
					break
				}
			}
			checkHidden(e, "Fill", b, n)
		}
		e.Call()
		rep := slices.Repeat(7, n)
		if len(rep) != n {
			e.Fail("Repeat|length", map[string]any{"fn": "Repeat", "count": n}, "Repeat(7,%d) has length %d", n, len(rep))
		}
		for i, v := range rep {
			if v != 7 {
				e.Fail("Repeat|contents", map[string]any{"fn": "Repeat", "count": n}, "Repeat(7,%d): element %d = %d", n, i, v)
				break
			}
		}
	}
	// Large-size families: the same splice model at lengths around every power of two up to
	// 1025 (append growth, memmove and exponential-copy thresholds), a few positions each.
	fam := 0
	for _, n := range []int{15, 16, 17, 31, 32, 33, 63, 64, 65, 127, 128, 129, 255, 256, 257, 511, 512, 513, 1000, 1023, 1024, 1025} {
		for _, sp := range []int{0, 1, n / 2, n} {
			check := func(fn string, got, want []int, rp map[string]any) {
				e.Call()
				fam++
				if !eq(got, want) {
					e.Fail(fn+"|contents", rp, "%s on length %d spare %d: result differs from the splice model (first 8: %v)", fn, n, sp, head(got))
				}
			}
			for _, i := range []int{0, 1, n / 3, n / 2, n - 1, n} {
				s, _ := mk(n, sp, 100)
				want := splice(s, i, 0, []int{777})
				slices.Insert(&s, i, 777)
				check("Insert", s, want, map[string]any{"fn": "Insert", "len": n, "spare": sp, "index": i})
				for _, k := range []int{1, 2, n / 2, n + 1} {
					s, _ := mk(n, sp, 100)
					vals, _ := mk(k, 0, 50000)
					want := splice(s, i, 0, vals)
					slices.InsertSlice(&s, i, vals)
					check("InsertSlice", s, want, map[string]any{"fn": "InsertSlice", "len": n, "spare": sp, "index": i, "inserted": k})
				}
				if i < n {
					s, _ := mk(n, sp, 100)
					want := splice(s, i, 1, nil)
					slices.Remove(&s, i)
					check("Remove", s, want, map[string]any{"fn": "Remove", "len": n, "spare": sp, "index": i})
				}
				for _, l := range []int{1, n / 4, n - i} {
					if i+l > n {
						continue
					}
					s, _ := mk(n, sp, 100)
					want := splice(s, i, l, nil)
					slices.RemoveSlice(&s, i, l)
					check("RemoveSlice", s, want, map[string]any{"fn": "RemoveSlice", "len": n, "spare": sp, "index": i, "length": l})
				}
			}
			{
				s, b := mk(n, sp, 100)
				want := make([]int, n)
				for i := range s {
					want[n-1-i] = s[i]
				}
				slices.Reverse(s)
				check("Reverse", s, want, map[string]any{"fn": "Reverse", "len": n})
				checkHidden(e, "Reverse", b, n)
				s2, b2 := mk(n, sp, 100)
				orig := append([]int{}, s2...)
				c := slices.Clone(s2)
				check("Clone", c, orig, map[string]any{"fn": "Clone", "len": n})
				scribble(c)
				check("Clone|shares-memory", s2, orig, map[string]any{"fn": "Clone", "len": n})
				checkHidden(e, "Clone", b2, n)
				for _, g := range []int{1, sp, n} {
					s3, _ := mk(n, sp, 100)
					out := slices.Grow(s3, g)
					check("Grow", out, append(append([]int{}, orig...), make([]int, g)...), map[string]any{"fn": "Grow", "len": n, "spare": sp, "n": g})
				}
				for _, m := range []int{0, 1, n / 2, n} {
					a, ab := mk(n, sp, 100)
					bb, _ := mk(m, 1, 300000)
					ao, bo := append([]int{}, a...), append([]int{}, bb...)
					c := slices.Concat(a, bb)
					check("Concat", c, append(append([]int{}, ao...), bo...), map[string]any{"fn": "Concat", "len_a": n, "spare_a": sp, "len_b": m})
					scribble(c)
					if !eq(a, ao) || !eq(bb, bo) {
						e.Fail("Concat|shares-memory", map[string]any{"fn": "Concat", "len_a": n, "len_b": m}, "writing to Concat's result changed an input (lengths %d,%d)", n, m)
					}
					checkHidden(e, "Concat", ab, n)
				}
			}
		}
	}
	r.Set("large_size_family_calls", fam)
	e.Finish(fmt.Sprintf("every length 0..%d x spare capacity %v (hidden region pre-filled with garbage) x every valid index / inserted length 0..%d / removal length; Fill/Repeat every length; Concat every length pair incl. nil; position-tagged elements; plus large-size families at lengths around every power of two up to 1025; non-trivial = the call moves or writes at least one element next to others", maxLen, spares, maxIns))
}

func head(s []int) []int {
	if len(s) > 8 {
		return s[:8]
	}
	return s
}

func eq(a, b []int) bool {
	if len(a) != len(b) {
		return false
	}
	for i := range a {
		if a[i] != b[i] {
			return false
		}
	}
	return true
}

func scribble(s []int) {
	for i := range s {
		s[i] = -1 - i
	}
}

// checkHidden verifies that the hidden region len..cap of an input is untouched.
func checkHidden(e *enum.E, fn string, backing []int, n int) {
	for i := n; i < len(backing); i++ {
		if backing[i] != dirty+i {
			e.Fail(fn+"|wrote-hidden-capacity", map[string]any{"fn": fn, "len": n, "cap": len(backing)}, "%s wrote into the hidden capacity of an input (index %d = %d)", fn, i, backing[i])
			return
		}
	}
}
