// C20: numeric and utility helpers are correct over the whole value range.
package main

import (
	"errors"
	"fmt"
	"math"
	"runtime"
	"strconv"
	"sync"
	"sync/atomic"
	"time"

	typ "gopkg.in/typ.v4"
	"verif/lib/enum"
	"verif/lib/ev"
)

var e *enum.E

func par(lo, hi int, f func(i int)) {
	var wg sync.WaitGroup
	var next int64 = int64(lo) - 1
	for w := 0; w < runtime.NumCPU(); w++ {
		wg.Add(1)
		go func() {
			defer wg.Done()
			for {
				i := int(atomic.AddInt64(&next, 1))
				if i > hi {
					return
				}
				f(i)
			}
		}()
	}
	wg.Wait()
}

type integer interface {
	~int | ~int8 | ~int16 | ~int32 | ~int64 | ~uint | ~uint8 | ~uint16 | ~uint32 | ~uint64 | ~uintptr
}

// minmaxClamp checks Min/Max over all pairs and triples and Clamp over all
// (v,lo,hi) with lo<=hi, for the values vals of one type.
func minmaxClamp[T typ.Ordered](name string, vals []T, triples bool) {
	n := len(vals)
	par(0, n-1, func(i int) {
		a := vals[i]
		var calls, inputs int64
		for _, b := range vals {
			inputs++
			mn, mx := typ.Min(a, b), typ.Max(a, b)
			calls += 2
			if !(mn == a || mn == b) || mn > a || mn > b {
				e.Fail("Min|result", map[string]any{"type": name, "args": fmt.Sprint(a, b)}, "Min[%s](%v,%v) = %v", name, a, b, mn)
			}
			if !(mx == a || mx == b) || mx < a || mx < b {
				e.Fail("Max|result", map[string]any{"type": name, "args": fmt.Sprint(a, b)}, "Max[%s](%v,%v) = %v", name, a, b, mx)
			}
			cmp, ls := typ.Compare(a, b), typ.Less(a, b)
			calls += 2
			wc := 0
			if a < b {
				wc = -1
			} else if a > b {
				wc = 1
			}
			if cmp != wc || ls != (a < b) {
				e.Fail("Compare|result", map[string]any{"type": name, "args": fmt.Sprint(a, b)}, "Compare[%s](%v,%v) = %d, Less = %v", name, a, b, cmp, ls)
			}
			if !triples {
				continue
			}
			for _, c := range vals {
				inputs++
				mn, mx := typ.Min(a, b, c), typ.Max(a, b, c)
				calls += 2
				if !(mn == a || mn == b || mn == c) || mn > a || mn > b || mn > c {
					e.Fail("Min|result", map[string]any{"type": name, "args": fmt.Sprint(a, b, c)}, "Min[%s](%v,%v,%v) = %v", name, a, b, c, mn)
				}
				if !(mx == a || mx == b || mx == c) || mx < a || mx < b || mx < c {
					e.Fail("Max|result", map[string]any{"type": name, "args": fmt.Sprint(a, b, c)}, "Max[%s](%v,%v,%v) = %v", name, a, b, c, mx)
				}
				// Clamp(v=a, lo=b, hi=c) with lo <= hi
				if b <= c {
					got := typ.Clamp(a, b, c)
					calls++
					want := a
					if a < b {
						want = b
					} else if a > c {
						want = c
					}
					if got != want {
						e.Fail("Clamp|result", map[string]any{"type": name, "args": fmt.Sprint(a, b, c)}, "Clamp[%s](%v,%v,%v) = %v, want %v", name, a, b, c, got, want)
					}
				}
			}
		}
		// single-argument forms
		if typ.Min(a) != a || typ.Max(a) != a {
			e.Fail("Min|result", map[string]any{"type": name, "args": fmt.Sprint(a)}, "Min/Max of the single argument %v", a)
		}
		calls += 2
		atomic.AddInt64(&e.Calls, calls)
		atomic.AddInt64(&e.Inputs, inputs)
		atomic.AddInt64(&e.Nontrivial, inputs)
	})
}

// sumProduct checks Sum/Product over all pairs (and triples) against wide arithmetic truncated to T.
func sumProduct[T integer](name string, vals []T, triples bool) {
	par(0, len(vals)-1, func(i int) {
		a := vals[i]
		var calls, inputs int64
		for _, b := range vals {
			inputs++
			calls += 2
			if got, want := typ.Sum(a, b), T(uint64(a)+uint64(b)); got != want {
				e.Fail("Sum|result", map[string]any{"type": name, "args": fmt.Sprint(a, b)}, "Sum[%s](%v,%v) = %v, want %v", name, a, b, got, want)
			}
			if got, want := typ.Product(a, b), T(uint64(a)*uint64(b)); got != want {
				e.Fail("Product|result", map[string]any{"type": name, "args": fmt.Sprint(a, b)}, "Product[%s](%v,%v) = %v, want %v", name, a, b, got, want)
			}
			if !triples {
				continue
			}
			for _, c := range vals {
				inputs++
				calls += 2
				if got, want := typ.Sum(a, b, c), T(uint64(a)+uint64(b)+uint64(c)); got != want {
					e.Fail("Sum|result", map[string]any{"type": name, "args": fmt.Sprint(a, b, c)}, "Sum[%s](%v,%v,%v) = %v, want %v", name, a, b, c, got, want)
				}
				if got, want := typ.Product(a, b, c), T(uint64(a)*uint64(b)*uint64(c)); got != want {
					e.Fail("Product|result", map[string]any{"type": name, "args": fmt.Sprint(a, b, c)}, "Product[%s](%v,%v,%v) = %v, want %v", name, a, b, c, got, want)
				}
			}
		}
		if typ.Sum(a) != a || typ.Product(a) != a {
			e.Fail("Sum|result", map[string]any{"type": name, "args": fmt.Sprint(a)}, "Sum/Product of the single argument %v", a)
		}
		atomic.AddInt64(&e.Calls, calls+2)
		atomic.AddInt64(&e.Inputs, inputs)
		atomic.AddInt64(&e.Nontrivial, inputs)
	})
	if typ.Sum[T]() != 0 || typ.Product[T]() != 1 {
		e.Fail("Sum|identity", map[string]any{"type": name}, "Sum() = %v, Product() = %v", typ.Sum[T](), typ.Product[T]())
	}
}

func digitsSigned[T ~int | ~int8 | ~int16 | ~int32 | ~int64](name string, v T) {
	str := strconv.FormatInt(int64(v), 10)
	wantSign := len(str)
	want := wantSign
	if v < 0 {
		want--
	}
	if got := typ.Digits10(v); got != want {
		e.Fail("Digits10|result", map[string]any{"type": name, "value": str}, "Digits10[%s](%s) = %d, want %d", name, str, got, want)
	}
	if got := typ.DigitsSign10(v); got != wantSign {
		e.Fail("DigitsSign10|result", map[string]any{"type": name, "value": str}, "DigitsSign10[%s](%s) = %d, want %d", name, str, got, wantSign)
	}
	// Abs where representable
	if v != -v || v == 0 {
		w := v
		if v < 0 {
			w = -v
		}
		if got := typ.Abs(v); got != w {
			e.Fail("Abs|result", map[string]any{"type": name, "value": str}, "Abs[%s](%s) = %v", name, str, got)
		}
	}
	// Clamp01
	w01 := v
	if v < 0 {
		w01 = 0
	} else if v > 1 {
		w01 = 1
	}
	if got := typ.Clamp01(v); got != w01 {
		e.Fail("Clamp01|result", map[string]any{"type": name, "value": str}, "Clamp01[%s](%s) = %v", name, str, got)
	}
}

func digitsUnsigned[T ~uint | ~uint8 | ~uint16 | ~uint32 | ~uint64 | ~uintptr](name string, v T) {
	str := strconv.FormatUint(uint64(v), 10)
	if got := typ.Digits10(v); got != len(str) {
		e.Fail("Digits10|result", map[string]any{"type": name, "value": str}, "Digits10[%s](%s) = %d, want %d", name, str, got, len(str))
	}
	if got := typ.DigitsSign10(v); got != len(str) {
		e.Fail("DigitsSign10|result", map[string]any{"type": name, "value": str}, "DigitsSign10[%s](%s) = %d, want %d", name, str, got, len(str))
	}
	if got := typ.Abs(v); got != v {
		e.Fail("Abs|result", map[string]any{"type": name, "value": str}, "Abs[%s](%s) = %v", name, str, got)
	}
	w01 := v
	if v > 1 {
		w01 = 1
	}
	if got := typ.Clamp01(v); got != w01 {
		e.Fail("Clamp01|result", map[string]any{"type": name, "value": str}, "Clamp01[%s](%s) = %v", name, str, got)
	}
}

// boundary64 is the boundary-dense set for 64-bit signed values.
func boundary64() []int64 {
	set := map[int64]bool{0: true, math.MinInt64: true, math.MaxInt64: true, math.MinInt64 + 1: true}
	p := int64(1)
	for i := 0; i < 19; i++ {
		for _, d := range []int64{-1, 0, 1} {
			set[p+d] = true
			set[-(p + d)] = true
		}
		if i < 18 {
			p *= 10
		}
	}
	for s := uint(0); s < 63; s++ {
		q := int64(1) << s
		for _, d := range []int64{-1, 0, 1} {
			set[q+d] = true
			set[-(q + d)] = true
		}
	}
	var out []int64
	for v := range set {
		out = append(out, v)
	}
	return out
}

func boundaryU64() []uint64 {
	set := map[uint64]bool{0: true, math.MaxUint64: true, math.MaxUint64 - 1: true}
	p := uint64(1)
	for i := 0; i < 20; i++ {
		set[p] = true
		set[p-1] = true
		set[p+1] = true
		if i < 19 {
			p *= 10
		}
	}
	for s := uint(0); s < 64; s++ {
		q := uint64(1) << s
		set[q] = true
		set[q-1] = true
		set[q+1] = true
	}
	var out []uint64
	for v := range set {
		out = append(out, v)
	}
	return out
}

// zeroer's IsZero method disagrees with ==.
type zeroer struct{ A int }

func (z zeroer) IsZero() bool { return z.A == 5 }

// nestedZ: its IsZero method asks typ.IsZero about a field.
type nestedZ struct {
	inner zeroer
	tag   int
}

func (n nestedZ) IsZero() bool { return typ.IsZero(n.inner) }

// zerr: an error with an IsZero method.
type zerr struct{ z bool }

func (z zerr) Error() string { return "zerr" }
func (z zerr) IsZero() bool  { return z.z }

type plain struct{ A int }

// coalTable: Coal over every argument tuple of length 0..3 from vals, for one comparable type; the
// reference is the definition (the first argument that differs from the zero value under !=, else zero).
func coalTable[T comparable](tname string, vals []T) {
	var zero T
	same := func(a, b T) bool { return a == b || (a != a && b != b) }
	ref := func(args []T) T {
		for _, v := range args {
			if v != zero {
				return v
			}
		}
		return zero
	}
	chk := func(args ...T) {
		e.Input(len(args) > 1)
		e.Call()
		if got, want := typ.Coal(args...), ref(args); !same(got, want) {
			e.Fail("Coal|result", map[string]any{"type": tname, "args": fmt.Sprint(args)}, "Coal[%s](%v) = %v, want %v (the first argument that is != the zero value)", tname, args, got, want)
		}
	}
	chk()
	for _, a := range vals {
		chk(a)
		for _, b := range vals {
			chk(a, b)
			for _, c := range vals {
				chk(a, b, c)
			}
		}
		// the utility identities on the same values
		if z := typ.ZeroOf(a); z != zero {
			e.Fail("ZeroOf|result", map[string]any{"type": tname}, "ZeroOf[%s](%v) = %v", tname, a, z)
		}
		if rp := typ.Ref(a); rp == nil || !same(*rp, a) || !same(typ.DerefZero(rp), a) {
			e.Fail("Ref|result", map[string]any{"type": tname}, "Ref / DerefZero on %s value %v", tname, a)
		}
		if !same(typ.Tern(true, a, zero), a) || !same(typ.Tern(false, zero, a), a) {
			e.Fail("Tern|result", map[string]any{"type": tname}, "Tern on %s value %v", tname, a)
		}
	}
	if typ.Zero[T]() != zero || typ.DerefZero[*T](nil) != zero {
		e.Fail("Zero|result", map[string]any{"type": tname}, "Zero[%s]() / DerefZero(nil) is not the zero value", tname)
	}
}

// isZeroTable: IsZero over every ordered pair of values of one static type (each call directly
// preceded by each other call: an answer or a "this type has no IsZero method" verdict remembered per
// static type is wrong for interface types, whose dynamic types differ from call to call).
func isZeroTable[T comparable](tname string, vals []T) {
	var zero T
	ref := func(v T) bool {
		if v == zero {
			return true
		}
		if z, ok := any(v).(interface{ IsZero() bool }); ok {
			return z.IsZero()
		}
		return false
	}
	for _, a := range vals {
		for _, b := range vals {
			for _, c := range vals {
				e.Input(true)
				e.Call()
				ga, gb, gc := typ.IsZero(a), typ.IsZero(b), typ.IsZero(c)
				if ga != ref(a) || gb != ref(b) || gc != ref(c) {
					e.Fail("IsZero|sequence", map[string]any{"type": tname, "values": fmt.Sprintf("%#v, %#v, %#v", a, b, c)}, "IsZero[%s] called on %#v, %#v, %#v in this order = %v, %v, %v; want %v, %v, %v", tname, a, b, c, ga, gb, gc, ref(a), ref(b), ref(c))
					return
				}
			}
		}
	}
}

func main() {
	ev.GuardFor("C20")
	r := ev.Start("C20")
	defer r.FinishOnPanic()
	e = &enum.E{R: r}
	// ---- 8-bit types: every pair and every triple
	var i8 []int8
	var u8 []uint8
	for v := -128; v <= 127; v++ {
		i8 = append(i8, int8(v))
	}
	for v := 0; v <= 255; v++ {
		u8 = append(u8, uint8(v))
	}
	minmaxClamp("int8", i8, true)
	minmaxClamp("uint8", u8, true)
	sumProduct("int8", i8, true)
	sumProduct("uint8", u8, true)
	r.Sample("Min/Max/Clamp/Sum/Product[int8] over all 2^24 triples, e.g. (-128, 127, -1)")
	// ---- boundary sets of the wider types: all pairs (triples for Clamp via pairs x set)
	b64 := boundary64()
	bu64 := boundaryU64()
	conv := func(f func(int64) bool) []int64 {
		var o []int64
		for _, v := range b64 {
			if f(v) {
				o = append(o, v)
			}
		}
		return o
	}
	{
		var s16 []int16
		for _, v := range conv(func(v int64) bool { return v >= math.MinInt16 && v <= math.MaxInt16 }) {
			s16 = append(s16, int16(v))
		}
		var s32 []int32
		for _, v := range conv(func(v int64) bool { return v >= math.MinInt32 && v <= math.MaxInt32 }) {
			s32 = append(s32, int32(v))
		}
		var sint []int
		for _, v := range b64 {
			sint = append(sint, int(v))
		}
		var u16 []uint16
		var u32 []uint32
		var uu []uint
		var up []uintptr
		for _, v := range bu64 {
			if v <= math.MaxUint16 {
				u16 = append(u16, uint16(v))
			}
			if v <= math.MaxUint32 {
				u32 = append(u32, uint32(v))
			}
			uu = append(uu, uint(v))
			up = append(up, uintptr(v))
		}
		minmaxClamp("int16", s16, true)
		minmaxClamp("int32", s32, true)
		minmaxClamp("int64", b64, true)
		minmaxClamp("int", sint, true)
		minmaxClamp("uint16", u16, true)
		minmaxClamp("uint32", u32, true)
		minmaxClamp("uint64", bu64, true)
		minmaxClamp("uint", uu, true)
		minmaxClamp("uintptr", up, true)
		sumProduct("int16", s16, false)
		sumProduct("int32", s32, false)
		sumProduct("int64", b64, false)
		sumProduct("uint16", u16, false)
		sumProduct("uint32", u32, false)
		sumProduct("uint64", bu64, false)
		fl := []float64{0, math.Copysign(0, -1), 1, -1, 0.5, -0.5, math.MaxFloat64, -math.MaxFloat64, math.SmallestNonzeroFloat64, -math.SmallestNonzeroFloat64, math.Inf(1), math.Inf(-1), 2, -2, 1e10, -1e10}
		minmaxClamp("float64", fl, true)
		var f32 []float32
		for _, v := range []float64{0, math.Copysign(0, -1), 1, -1, 0.5, -0.5, math.MaxFloat32, -math.MaxFloat32, math.SmallestNonzeroFloat32, -math.SmallestNonzeroFloat32, math.Inf(1), math.Inf(-1)} {
			f32 = append(f32, float32(v))
		}
		minmaxClamp("float32", f32, true)
		minmaxClamp("string", []string{"", "a", "ab", "b", "B", "\x00", "zz", "a\x00"}, true)
		for _, v := range fl {
			w := math.Abs(v)
			if got := typ.Abs(v); got != w || math.Signbit(got) && v != 0 {
				e.Fail("Abs|result", map[string]any{"type": "float64", "value": v}, "Abs(%v) = %v", v, got)
			}
			w01 := v
			if v < 0 {
				w01 = 0
			} else if v > 1 {
				w01 = 1
			}
			if got := typ.Clamp01(v); got != w01 {
				e.Fail("Clamp01|result", map[string]any{"type": "float64", "value": v}, "Clamp01(%v) = %v", v, got)
			}
			e.Input(true)
			e.Call()
			e.Call()
		}
		if got := typ.Sum(0.5, 0.25, 1); got != 1.75 {
			e.Fail("Sum|result", map[string]any{"type": "float64"}, "Sum(0.5,0.25,1) = %v", got)
		}
		if got := typ.Product(0.5, 4.0, 3); got != 6 {
			e.Fail("Product|result", map[string]any{"type": "float64"}, "Product(0.5,4,3) = %v", got)
		}
		if got := typ.Sum(complex(1, 2), complex(3, -1)); got != complex(4, 1) {
			e.Fail("Sum|result", map[string]any{"type": "complex128"}, "Sum((1+2i),(3-1i)) = %v", got)
		}
		if got := typ.Product(complex(1, 2), complex(3, -1)); got != complex(1, 2)*complex(3, -1) {
			e.Fail("Product|result", map[string]any{"type": "complex128"}, "Product((1+2i),(3-1i)) = %v", got)
		}
	}
	// ---- variadic length family: Sum/Product/Min/Max over 0..40 arguments of structured values
	// (inexact decimal fractions, catastrophic cancellation, overflowing partial sums, wrapping
	// integers) against the plain left-to-right loop
	variadicFamily()
	// ---- Digits10 / DigitsSign10 / Abs / Clamp01: every value of every 8- and 16-bit type
	for v := -128; v <= 127; v++ {
		digitsSigned("int8", int8(v))
	}
	for v := 0; v <= 255; v++ {
		digitsUnsigned("uint8", uint8(v))
	}
	for v := math.MinInt16; v <= math.MaxInt16; v++ {
		digitsSigned("int16", int16(v))
	}
	for v := 0; v <= math.MaxUint16; v++ {
		digitsUnsigned("uint16", uint16(v))
	}
	atomic.AddInt64(&e.Inputs, 2*(256+65536))
	atomic.AddInt64(&e.Nontrivial, 2*(256+65536))
	atomic.AddInt64(&e.Calls, 4*2*(256+65536))
	r.Sample("Digits10[int8](-128) must be 3, DigitsSign10 4")
	// ---- 32-bit: every value (thorough) or a dense stride plus all boundaries (quick)
	stride := ev.Pick(r, 4099, 1)
	chunks := 4096
	per := (1 << 32) / chunks
	par(0, chunks-1, func(c int) {
		var n int64
		start := c * per
		off := 0
		if stride > 1 {
			off = (c * 7) % stride
		}
		for x := start + off; x < start+per; x += stride {
			digitsSigned("int32", int32(uint32(x)))
			digitsUnsigned("uint32", uint32(x))
			n++
		}
		atomic.AddInt64(&e.Inputs, 2*n)
		atomic.AddInt64(&e.Nontrivial, 2*n)
		atomic.AddInt64(&e.Calls, 8*n)
	})
	r.Set("int32_stride", stride)
	for _, v := range b64 {
		if v >= math.MinInt32 && v <= math.MaxInt32 {
			digitsSigned("int32", int32(v))
		}
		digitsSigned("int64", v)
		digitsSigned("int", int(v))
		e.Input(true)
		e.Call()
	}
	for _, v := range bu64 {
		if v <= math.MaxUint32 {
			digitsUnsigned("uint32", uint32(v))
		}
		digitsUnsigned("uint64", v)
		digitsUnsigned("uint", uint(v))
		digitsUnsigned("uintptr", uintptr(v))
		e.Input(true)
		e.Call()
	}
	// ---- Coal, Zero, ZeroOf, IsZero, Tern, TernCast, Ref, DerefZero, IsNil: complete small tables
	{
		vals := []int{0, 1, 2}
		for _, a := range vals {
			for _, b := range vals {
				for _, c := range vals {
					want := 0
					for _, x := range []int{a, b, c} {
						if x != 0 {
							want = x
							break
						}
					}
					e.Input(true)
					e.Call()
					if got := typ.Coal(a, b, c); got != want {
						e.Fail("Coal|result", map[string]any{"args": fmt.Sprint(a, b, c)}, "Coal(%d,%d,%d) = %d", a, b, c, got)
					}
				}
				want := a
				if a == 0 {
					want = b
				}
				if got := typ.Coal(a, b); got != want {
					e.Fail("Coal|result", map[string]any{"args": fmt.Sprint(a, b)}, "Coal(%d,%d) = %d", a, b, got)
				}
			}
			if typ.Coal(a) != a {
				e.Fail("Coal|result", map[string]any{"args": fmt.Sprint(a)}, "Coal(%d)", a)
			}
		}
		if typ.Coal[int]() != 0 || typ.Coal("", "x", "y") != "x" || typ.Coal[string]() != "" {
			e.Fail("Coal|result", nil, "Coal on no arguments / strings")
		}
		p1, p2 := new(int), new(int)
		if typ.Coal[*int](nil, p1, p2) != p1 || typ.Coal[*int](nil, nil) != nil {
			e.Fail("Coal|result", nil, "Coal on pointers")
		}
		// Coal and the identities over more types: a type whose IsZero method disagrees with ==, floats
		// (NaN is non-zero, negative zero == zero), pointers to zero values, interfaces, time.Time
		{
			zi, zs := 0, ""
			coalTable("zeroer (IsZero method)", []zeroer{{0}, {5}, {1}, {2}})
			coalTable("*zeroer", []*zeroer{nil, {0}, {5}, {1}})
			coalTable("float64", []float64{0, math.Copysign(0, -1), math.NaN(), 1, math.Inf(-1)})
			coalTable("*int", []*int{nil, &zi, new(int)})
			coalTable("*string", []*string{nil, &zs})
			coalTable("any", []any{nil, 0, "", zeroer{5}, zeroer{0}, (*int)(nil), &zi, false, 1})
			coalTable("error", []error{nil, errors.New(""), errors.New("x")})
			coalTable("time.Time", []time.Time{{}, time.Time{}.In(time.FixedZone("x", 60)), time.Time{}.Local(), time.Unix(0, 0)})
			coalTable("[2]int", [][2]int{{0, 0}, {0, 1}, {1, 0}})
			coalTable("struct", []plain{{0}, {1}, {-1}})
			coalTable("bool", []bool{false, true})
			coalTable("uint8", []uint8{0, 1, 255})
			coalTable("string", []string{"", "\x00", " ", "0"})
			coalTable("chan int", []chan int{nil, make(chan int)})
		}
		{
			zi := 0
			cet := time.FixedZone("CET", 3600)
			isZeroTable("any", []any{42, time.Time{}.In(cet), nil, 0, "", zeroer{5}, zeroer{0}, zeroer{1}, &zeroer{5}, &zeroer{0}, (*int)(nil), &zi, false, time.Unix(0, 0), plain{0}, plain{1}})
			isZeroTable("any", []any{time.Time{}.In(cet), zeroer{5}, 42})
			isZeroTable("interface{IsZero() bool}", []interface{ IsZero() bool }{nil, zeroer{5}, zeroer{0}, zeroer{1}, time.Time{}.In(cet), time.Unix(0, 0), &zeroer{5}})
			isZeroTable("fmt.Stringer", []fmt.Stringer{nil, time.Time{}.In(cet), time.Unix(0, 0), time.Duration(0), time.Duration(1)})
			isZeroTable("error", []error{nil, errors.New(""), zerr{true}, zerr{false}})
			isZeroTable("zeroer", []zeroer{{0}, {5}, {1}})
			isZeroTable("*zeroer", []*zeroer{nil, {0}, {5}, {1}})
			isZeroTable("time.Time", []time.Time{{}, time.Time{}.In(cet), time.Time{}.Local(), time.Unix(0, 0)})
			isZeroTable("float64", []float64{0, math.Copysign(0, -1), math.NaN(), 1})
			isZeroTable("[1]any", [][1]any{{nil}, {0}, {zeroer{5}}})
			// an IsZero method that itself uses typ.IsZero on a field (re-entrancy: a lock or a cache entry
			// held across the user's method would block or be overwritten)
			done := make(chan bool, 1)
			go func() {
				isZeroTable("nestedZ", []nestedZ{{zeroer{0}, 0}, {zeroer{5}, 1}, {zeroer{1}, 1}, {zeroer{5}, 0}})
				isZeroTable("any", []any{nestedZ{zeroer{5}, 1}, nestedZ{zeroer{1}, 1}, 42, zeroer{5}})
				done <- true
			}()
			select {
			case <-done:
			case <-time.After(60 * time.Second):
				e.Fail("IsZero|reentrant-blocked", map[string]any{"type": "nestedZ"}, "IsZero on a value whose IsZero method calls typ.IsZero on one of its fields did not return within 60 s")
			}
		}
		if typ.Zero[int]() != 0 || typ.Zero[string]() != "" || typ.Zero[*int]() != nil || typ.Zero[plain]() != (plain{}) || typ.Zero[error]() != nil {
			e.Fail("Zero|result", nil, "Zero[T]() is not the zero value")
		}
		if typ.ZeroOf(5) != 0 || typ.ZeroOf("x") != "" || typ.ZeroOf(plain{3}) != (plain{}) || typ.ZeroOf(p1) != nil {
			e.Fail("ZeroOf|result", nil, "ZeroOf(v) is not the zero value")
		}
		for a := -1; a <= 6; a++ {
			if got, want := typ.IsZero(a), a == 0; got != want {
				e.Fail("IsZero|result", map[string]any{"value": a}, "IsZero(%d) = %v", a, got)
			}
			if got, want := typ.IsZero(plain{a}), a == 0; got != want {
				e.Fail("IsZero|result", map[string]any{"value": a}, "IsZero(plain{%d}) = %v", a, got)
			}
			// a type whose IsZero method disagrees with ==: zero by == or by the method
			if got, want := typ.IsZero(zeroer{a}), a == 0 || a == 5; got != want {
				e.Fail("IsZero|method", map[string]any{"value": a}, "IsZero(zeroer{%d}) = %v, want %v (IsZero method says %v)", a, got, want, a == 5)
			}
			if got, want := typ.IsZero(&zeroer{a}), a == 5; got != want {
				e.Fail("IsZero|method", map[string]any{"value": a}, "IsZero(&zeroer{%d}) = %v, want %v", a, got, want)
			}
			e.Input(true)
			e.Call()
		}
		if !typ.IsZero("") || typ.IsZero("a") || !typ.IsZero[*int](nil) || typ.IsZero(p1) {
			e.Fail("IsZero|result", nil, "IsZero on strings / pointers")
		}
		for _, c := range []bool{true, false} {
			w := 2
			if c {
				w = 1
			}
			if typ.Tern(c, 1, 2) != w {
				e.Fail("Tern|result", map[string]any{"cond": c}, "Tern(%v,1,2) = %d", c, typ.Tern(c, 1, 2))
			}
			ws := "no"
			if c {
				ws = "yes"
			}
			if typ.TernCast[string](c, any("yes"), "no") != ws {
				e.Fail("TernCast|result", map[string]any{"cond": c}, "TernCast(%v, any(\"yes\"), \"no\")", c)
			}
			// when cond is false the value is not cast (may be of another type)
			if !c && typ.TernCast[string](c, any(42), "no") != "no" {
				e.Fail("TernCast|result", nil, "TernCast(false, any(42), \"no\")")
			}
		}
		if p, _ := enum.Catch(func() { typ.TernCast[string](true, any(42), "no") }); !p {
			e.Fail("TernCast|no-panic", nil, "TernCast(true, any(42), string) did not panic on the failed cast")
		}
		for _, v := range []int{0, 1, -7} {
			rp := typ.Ref(v)
			rq := typ.Ref(v)
			if rp == nil || *rp != v || rp == rq {
				e.Fail("Ref|result", map[string]any{"value": v}, "Ref(%d)", v)
			}
			*rp = 99
			if *rq != v {
				e.Fail("Ref|aliasing", map[string]any{"value": v}, "two Ref results alias")
			}
			if typ.DerefZero(rq) != v {
				e.Fail("DerefZero|result", map[string]any{"value": v}, "DerefZero(&%d) = %d", v, typ.DerefZero(rq))
			}
		}
		if typ.DerefZero[*int](nil) != 0 || typ.DerefZero[*string](nil) != "" {
			e.Fail("DerefZero|result", nil, "DerefZero(nil) is not zero")
		}
		// IsNil for interface-typed values
		var np *int
		var ne error
		tbl := []struct {
			name string
			got  bool
			want bool
		}{
			{"any(nil)", typ.IsNil[any](nil), true},
			{"error(nil)", typ.IsNil[error](nil), true},
			{"any(error(nil))", typ.IsNil(any(ne)), true},
			{"any(0)", typ.IsNil(any(0)), false},
			{"any(\"\")", typ.IsNil(any("")), false},
			{"error(non-nil)", typ.IsNil(error(errors.New("x"))), false},
			{"any(typed nil pointer)", typ.IsNil(any(np)), false},
			{"any(&x)", typ.IsNil(any(p1)), false},
			{"fmt.Stringer(nil)", typ.IsNil[fmt.Stringer](nil), true},
		}
		for _, t := range tbl {
			e.Input(true)
			e.Call()
			if t.got != t.want {
				e.Fail("IsNil|result", map[string]any{"value": t.name}, "IsNil(%s) = %v, want %v", t.name, t.got, t.want)
			}
		}
	}
	e.Finish(fmt.Sprintf("Min/Max/Clamp/Compare/Less/Sum/Product over all pairs and all triples of int8 and uint8 and over all pairs/triples of a boundary set (0, +-1, powers of ten +-1, powers of two +-1, extremes) for every wider integer type, float32/64 (NaN excluded) and string; Digits10/DigitsSign10/Abs/Clamp01 on every value of every 8- and 16-bit type, every 32-bit value with stride %d plus boundaries, boundary sets for 64-bit/int/uint/uintptr; references: strconv, wide arithmetic truncated to the type; Coal/ZeroOf/Ref/DerefZero/Tern over every argument tuple of length 0..3 for 14 types (a type whose IsZero method disagrees with ==, floats with NaN and -0, pointers to zero values, interfaces, errors, time.Time, arrays, channels); complete truth tables for Coal/Zero/ZeroOf/IsZero/Tern/TernCast/Ref/DerefZero/IsNil", stride))
}

func variadicFloat[T ~float32 | ~float64](name string, gens []func(i int) float64) {
	for gi, g := range gens {
		for n := 0; n <= 40; n++ {
			args := make([]T, n)
			for i := range args {
				args[i] = T(g(i))
			}
			e.Input(n >= 4)
			var ws, wp T = 0, 1
			for _, v := range args {
				ws += v
				wp *= v
			}
			gs, gp := typ.Sum(args...), typ.Product(args...)
			e.Call()
			e.Call()
			same := func(a, b T) bool { return a == b || (a != a && b != b) }
			if !same(gs, ws) {
				e.Fail("Sum|result", map[string]any{"type": name, "generator": gi, "args": n}, "Sum[%s] of %d arguments (generator %d) = %v, left-to-right sum is %v", name, n, gi, gs, ws)
			}
			if !same(gp, wp) {
				e.Fail("Product|result", map[string]any{"type": name, "generator": gi, "args": n}, "Product[%s] of %d arguments (generator %d) = %v, left-to-right product is %v", name, n, gi, gp, wp)
			}
			if n > 0 {
				mn, mx := args[0], args[0]
				for _, v := range args[1:] {
					if v < mn {
						mn = v
					}
					if v > mx {
						mx = v
					}
				}
				if g1, g2 := typ.Min(args...), typ.Max(args...); g1 != mn || g2 != mx {
					e.Fail("Min|result", map[string]any{"type": name, "generator": gi, "args": n}, "Min/Max[%s] of %d arguments = %v/%v, want %v/%v", name, n, g1, g2, mn, mx)
				}
				e.Call()
			}
		}
	}
}

func variadicInt[T ~int8 | ~int32 | ~int64 | ~uint8 | ~uint16 | ~uint64](name string) {
	for gi, g := range []func(i int) int64{
		func(i int) int64 { return int64(i) },
		func(i int) int64 { return int64(i*37 - 100) },
		func(i int) int64 { return []int64{127, -128, 1, -1, 255, 0, 32767, 1 << 40}[i%8] },
		func(i int) int64 { return int64(3 + i%2) },
	} {
		for n := 0; n <= 40; n++ {
			args := make([]T, n)
			for i := range args {
				args[i] = T(g(i))
			}
			e.Input(n >= 4)
			var ws, wp T = 0, 1
			for _, v := range args {
				ws += v
				wp *= v
			}
			e.Call()
			e.Call()
			if gs := typ.Sum(args...); gs != ws {
				e.Fail("Sum|result", map[string]any{"type": name, "generator": gi, "args": n}, "Sum[%s] of %d arguments = %v, want %v (wrapping, left to right)", name, n, gs, ws)
			}
			if gp := typ.Product(args...); gp != wp {
				e.Fail("Product|result", map[string]any{"type": name, "generator": gi, "args": n}, "Product[%s] of %d arguments = %v, want %v", name, n, gp, wp)
			}
			if n > 0 {
				mn, mx := args[0], args[0]
				for _, v := range args[1:] {
					if v < mn {
						mn = v
					}
					if v > mx {
						mx = v
					}
				}
				if g1, g2 := typ.Min(args...), typ.Max(args...); g1 != mn || g2 != mx {
					e.Fail("Min|result", map[string]any{"type": name, "generator": gi, "args": n}, "Min/Max[%s] of %d arguments = %v/%v, want %v/%v", name, n, g1, g2, mn, mx)
				}
			}
		}
	}
}

func variadicFamily() {
	gens := []func(i int) float64{
		func(i int) float64 { return float64(i+1) / 10 },                                       // 0.1, 0.2, ...: inexact
		func(i int) float64 { return []float64{1, 1e16, 0, 0, 1, -1e16, 0, 0}[i%8] },           // cancellation
		func(i int) float64 { return []float64{math.MaxFloat64, -math.MaxFloat64, 0, 0}[i%4] }, // overflowing partial sums
		func(i int) float64 { return 1 / float64(i+3) },
		func(i int) float64 { return []float64{1.5, -2.25, 1e-300, 3e300, 7}[i%5] },
		func(i int) float64 { return float64(i%3) - 1 },
	}
	variadicFloat[float64]("float64", gens)
	variadicFloat[float32]("float32", gens)
	variadicInt[int8]("int8")
	variadicInt[int32]("int32")
	variadicInt[int64]("int64")
	variadicInt[uint8]("uint8")
	variadicInt[uint16]("uint16")
	variadicInt[uint64]("uint64")
	for n := 0; n <= 20; n++ {
		args := make([]complex128, n)
		var ws, wp complex128 = 0, 1
		for i := range args {
			args[i] = complex(float64(i+1)/10, 1/float64(i+2))
			ws += args[i]
			wp *= args[i]
		}
		if typ.Sum(args...) != ws || typ.Product(args...) != wp {
			e.Fail("Sum|result", map[string]any{"type": "complex128", "args": n}, "Sum/Product[complex128] of %d arguments differ from the left-to-right loops", n)
		}
		strs := make([]string, n)
		for i := range strs {
			strs[i] = strconv.Itoa((i * 7) % 11)
		}
		if n > 0 {
			mn, mx := strs[0], strs[0]
			for _, v := range strs[1:] {
				if v < mn {
					mn = v
				}
				if v > mx {
					mx = v
				}
			}
			if typ.Min(strs...) != mn || typ.Max(strs...) != mx {
				e.Fail("Min|result", map[string]any{"type": "string", "args": n}, "Min/Max[string] of %d arguments", n)
			}
		}
	}
}
