// C15: sorting and searching helpers order correctly, stably where promised.
package main

import (
	"fmt"
	"math"
	"math/rand"
	"runtime"
	"sort"
	"sync"
	"sync/atomic"

	"gopkg.in/typ.v4/slices"
	"verif/lib/enum"
	"verif/lib/ev"
)

// E is a key with the element's original index as a tag.
type E struct{ K, T int }

var e *enum.E

func less(a, b E) bool { return a.K < b.K }

// checkAll runs the six sort functions on one key sequence.
func checkAll(keys []int) {
	n := len(keys)
	nontriv := false
	for i := 1; i < n; i++ {
		if keys[i] < keys[i-1] {
			nontriv = true
		}
	}
	e.Input(nontriv)
	maxKey := 2
	for _, k := range keys {
		if k > maxKey {
			maxKey = k
		}
	}
	count := make([]int, maxKey+1)
	for _, k := range keys {
		count[k]++
	}
	rp := map[string]any{"keys": fmt.Sprint(keys)}
	// ordered-type variants
	for _, desc := range []bool{false, true} {
		s := append([]int{}, keys...)
		name := "Sort"
		if desc {
			name = "SortDesc"
			slices.SortDesc(s)
		} else {
			slices.Sort(s)
		}
		e.Call()
		c := make([]int, maxKey+1)
		ok := len(s) == n
		for i, k := range s {
			if k < 0 || k > maxKey {
				ok = false
				break
			}
			c[k]++
			if i > 0 && ((!desc && s[i-1] > k) || (desc && s[i-1] < k)) {
				ok = false
			}
		}
		if !ok || fmt.Sprint(c) != fmt.Sprint(count) {
			e.Fail(name+"|result", rp, "%s(%v) = %v", name, keys, s)
		}
	}
	type fn struct {
		name         string
		f            func([]E, func(a, b E) bool)
		desc, stable bool
	}
	for _, f := range []fn{
		{"SortFunc", func(s []E, l func(a, b E) bool) { slices.SortFunc(s, l) }, false, false},
		{"SortDescFunc", func(s []E, l func(a, b E) bool) { slices.SortDescFunc(s, l) }, true, false},
		{"SortStableFunc", func(s []E, l func(a, b E) bool) { slices.SortStableFunc(s, l) }, false, true},
		{"SortStableDescFunc", func(s []E, l func(a, b E) bool) { slices.SortStableDescFunc(s, l) }, true, true},
	} {
		s := make([]E, n)
		for i, k := range keys {
			s[i] = E{k, i}
		}
		f.f(s, less)
		e.Call()
		seen := make([]bool, n)
		for i, x := range s {
			if x.T < 0 || x.T >= n || seen[x.T] || keys[x.T] != x.K {
				e.Fail(f.name+"|not-a-permutation", rp, "%s(%v) = %v is not a permutation of the input", f.name, keys, s)
				break
			}
			seen[x.T] = true
			if i == 0 {
				continue
			}
			p := s[i-1]
			if (!f.desc && less(x, p)) || (f.desc && less(p, x)) {
				e.Fail(f.name+"|not-ordered", rp, "%s(%v) = %v is not ordered", f.name, keys, s)
				break
			}
			if f.stable && p.K == x.K && p.T > x.T {
				e.Fail(f.name+"|not-stable", rp, "%s(%v) = %v: equal keys out of their original order", f.name, keys, s)
				break
			}
		}
	}
}

// typedFamily runs the ordered-type entry points (Sort, SortDesc, BinarySearch) and the Func variants
// over ONE element type whose value universe `uni` (ascending, pairwise distinct under <) contains the
// extremes of the type: a fast path specialised on an element type or on a value range shows here and
// nowhere else. Oracle: the result, mapped to universe ranks, is monotone and has the input's histogram.
func typedFamily[T interface {
	~int | ~int8 | ~int16 | ~int32 | ~int64 | ~uint | ~uint8 | ~uint16 | ~uint32 | ~uint64 | ~uintptr | ~float32 | ~float64 | ~string
}](tname string, uni []T, lens []int) int {
	rank := func(v T) int {
		for i, u := range uni {
			if u == v {
				return i
			}
		}
		return -1
	}
	pats := []func(i, n int) int{
		func(i, n int) int { return i },
		func(i, n int) int { return n - 1 - i },
		func(i, n int) int { return (i * 7) % 5 },
		func(i, n int) int { return (i*2654435761 + 12345) % 1000003 },
		func(i, n int) int { return i / 3 },
		func(i, n int) int {
			if i == n/2 {
				return len(uni) - 1 // one maximal value among minimal ones
			}
			return 0
		},
	}
	cases := 0
	for _, n := range lens {
		for pi, pat := range pats {
			in := make([]T, n)
			hist := make([]int, len(uni))
			for i := range in {
				k := pat(i, n) % len(uni)
				in[i] = uni[k]
				hist[k]++
			}
			cases++
			e.Input(n >= 2)
			rp := map[string]any{"type": tname, "len": n, "pattern": pi, "universe": fmt.Sprint(uni)}
			verify := func(name string, out []T, desc bool) bool {
				e.Call()
				h := make([]int, len(uni))
				ok := len(out) == n
				prev := -1
				for i, v := range out {
					k := rank(v)
					if k < 0 {
						ok = false
						break
					}
					h[k]++
					if i > 0 && ((!desc && k < prev) || (desc && k > prev)) {
						ok = false
					}
					prev = k
				}
				if !ok || fmt.Sprint(h) != fmt.Sprint(hist) {
					show := out
					if len(show) > 24 {
						show = show[:24]
					}
					e.Fail(name+"|result", rp, "%s on []%s of length %d (pattern %d over %v): result %v... has histogram %v, input %v, or is not ordered", name, tname, n, pi, uni, show, h, hist)
					return false
				}
				return true
			}
			cp := func() []T { return append([]T{}, in...) }
			a := cp()
			slices.Sort(a)
			sortedOK := verify("Sort", a, false)
			d := cp()
			slices.SortDesc(d)
			verify("SortDesc", d, true)
			lt := func(x, y T) bool { return x < y }
			for _, f := range []struct {
				name string
				f    func([]T, func(x, y T) bool)
				desc bool
			}{
				{"SortFunc", func(s []T, l func(x, y T) bool) { slices.SortFunc(s, l) }, false},
				{"SortDescFunc", func(s []T, l func(x, y T) bool) { slices.SortDescFunc(s, l) }, true},
				{"SortStableFunc", func(s []T, l func(x, y T) bool) { slices.SortStableFunc(s, l) }, false},
				{"SortStableDescFunc", func(s []T, l func(x, y T) bool) { slices.SortStableDescFunc(s, l) }, true},
			} {
				c := cp()
				f.f(c, lt)
				verify(f.name, c, f.desc)
			}
			if sortedOK {
				for _, t := range uni {
					want := n
					for i, v := range a {
						if !(v < t) {
							want = i
							break
						}
					}
					e.Call()
					if got := slices.BinarySearch(a, t); got != want {
						e.Fail("BinarySearch|result", rp, "BinarySearch on sorted []%s of length %d, target %v = %d, want %d", tname, n, t, got, want)
					}
					e.Call()
					if got := slices.BinarySearchFunc(a, func(x T) bool { return x < t }); got != want {
						e.Fail("BinarySearchFunc|result", rp, "BinarySearchFunc on sorted []%s of length %d, target %v = %d, want %d", tname, n, t, got, want)
					}
				}
			}
		}
	}
	return cases
}

type myInt int
type myStr string

func main() {
	ev.GuardFor("C15")
	r := ev.Start("C15")
	defer r.FinishOnPanic()
	e = &enum.E{R: r}
	ternLen := ev.Pick(r, 8, 10)
	binLen := ev.Pick(r, 15, 20)
	workers := runtime.NumCPU()
	var wg sync.WaitGroup
	// ternary keys, all lengths <= ternLen
	jobs := make(chan func(), 64)
	for w := 0; w < workers; w++ {
		wg.Add(1)
		go func() {
			defer wg.Done()
			for j := range jobs {
				j()
			}
		}()
	}
	for n := 0; n <= ternLen; n++ {
		total := 1
		for i := 0; i < n; i++ {
			total *= 3
		}
		for lo := 0; lo < total; lo += 2048 {
			n, lo := n, lo
			hi := lo + 2048
			if hi > total {
				hi = total
			}
			jobs <- func() {
				keys := make([]int, n)
				for c := lo; c < hi; c++ {
					d := c
					for i := 0; i < n; i++ {
						keys[i] = d % 3
						d /= 3
					}
					checkAll(keys)
				}
			}
		}
	}
	// binary keys: sort.Sort is an insertion sort (stable) up to 12 elements, so
	// "Sort used where Stable is promised" only shows from 13 elements on
	for n := ternLen + 1; n <= binLen; n++ {
		total := 1 << uint(n)
		for lo := 0; lo < total; lo += 4096 {
			n, lo := n, lo
			hi := lo + 4096
			if hi > total {
				hi = total
			}
			jobs <- func() {
				keys := make([]int, n)
				for c := lo; c < hi; c++ {
					for i := 0; i < n; i++ {
						keys[i] = c >> uint(i) & 1
					}
					checkAll(keys)
				}
			}
		}
	}
	close(jobs)
	wg.Wait()
	// Large-size families: structured key patterns at every length 21..140 and around powers of
	// two up to 1025 (pdqsort switches strategy at 12 and 50 elements, uses ninther pivots, block
	// partitioning and a heapsort fallback; a hand-rolled path behind a length threshold shows here)
	lens := []int{}
	for n := binLen + 1; n <= 140; n++ {
		lens = append(lens, n)
	}
	lens = append(lens, 255, 256, 257, 511, 512, 513, 1000, 1024, 1025)
	patterns := []func(i, n int) int{
		func(i, n int) int { return i },                     // ascending, all distinct
		func(i, n int) int { return n - i },                 // descending
		func(i, n int) int { return 0 },                     // all equal
		func(i, n int) int { return i % 2 },                 // alternating
		func(i, n int) int { return (n - i) * 2 / (n + 1) }, // ones then zeros
		func(i, n int) int { return i % 3 },                 // saw-tooth
		func(i, n int) int { return (i * 7919) % 13 },       // scattered, many ties
		func(i, n int) int { return (i * i) % 7 },           // quadratic residues
		func(i, n int) int {
			d := i - n/2
			if d < 0 {
				d = -d
			}
			return d / 3
		}, // organ pipe with ties
		func(i, n int) int { return (i/5)%2*3 + i%2 },                            // blocks
		func(i, n int) int { return (i*2654435761 + 12345) % 1000003 % (n + 1) }, // pseudo-scrambled, few ties
	}
	famJobs := make(chan func(), 64)
	var fwg sync.WaitGroup
	for w := 0; w < workers; w++ {
		fwg.Add(1)
		go func() {
			defer fwg.Done()
			for j := range famJobs {
				j()
			}
		}()
	}
	var famCases int64
	for _, n := range lens {
		for pi, pat := range patterns {
			n, pat := n, pat
			_ = pi
			famJobs <- func() {
				keys := make([]int, n)
				for i := range keys {
					keys[i] = pat(i, n)
				}
				checkAll(keys)
				atomic.AddInt64(&famCases, 1)
			}
		}
	}
	close(famJobs)
	fwg.Wait()
	r.Set("large_size_family_inputs", famCases)
	// element types: every ordered kind with the extremes of its range in the universe
	{
		tl := []int{0, 1, 2, 3, 5, 8, 12, 13, 31, 32, 33, 63, 64, 65, 100, 127, 128, 129, 255, 256, 257, 300, 1000}
		if r.Thorough() {
			tl = nil
			for n := 0; n <= 300; n++ {
				tl = append(tl, n)
			}
			tl = append(tl, 511, 512, 513, 1000, 1024, 1025, 4096, 4097, 70000)
		}
		tc := 0
		tc += typedFamily("uint8", []uint8{0, 1, 2, 127, 128, 254, 255}, tl)
		tc += typedFamily("int8", []int8{-128, -127, -1, 0, 1, 126, 127}, tl)
		tc += typedFamily("uint16", []uint16{0, 1, 255, 256, 32767, 32768, 65534, 65535}, tl)
		tc += typedFamily("int16", []int16{-32768, -1, 0, 1, 32767}, tl)
		tc += typedFamily("int32", []int32{math.MinInt32, -1, 0, 1, math.MaxInt32}, tl)
		tc += typedFamily("uint32", []uint32{0, 1, math.MaxInt32, math.MaxInt32 + 1, math.MaxUint32}, tl)
		tc += typedFamily("int64", []int64{math.MinInt64, math.MinInt64 + 1, -1, 0, 1, math.MaxInt64 - 1, math.MaxInt64}, tl)
		tc += typedFamily("uint64", []uint64{0, 1, math.MaxInt64, math.MaxInt64 + 1, math.MaxUint64 - 1, math.MaxUint64}, tl)
		tc += typedFamily("int", []int{math.MinInt, -1, 0, 1, math.MaxInt}, tl)
		tc += typedFamily("uint", []uint{0, 1, math.MaxUint}, tl)
		tc += typedFamily("uintptr", []uintptr{0, 1, math.MaxUint}, tl)
		tc += typedFamily("float64", []float64{math.Inf(-1), -math.MaxFloat64, -1, -math.SmallestNonzeroFloat64, 0, math.SmallestNonzeroFloat64, 1, math.MaxFloat64, math.Inf(1)}, tl)
		tc += typedFamily("float32", []float32{float32(math.Inf(-1)), -math.MaxFloat32, -1, 0, math.SmallestNonzeroFloat32, 1, math.MaxFloat32, float32(math.Inf(1))}, tl)
		tc += typedFamily("string", []string{"", "\x00", "A", "a", "a\x00", "aa", "b", "\xff", "\xff\xff"}, tl)
		{
			// long strings that share prefixes of 8 / 16 bytes and differ in length or near the end
			long := []string{"/var/log/app.10.log", "/var/log/app.9.log", "/var/log/app.9.log.1", "/var/log/app", "/var/log/apq", "prefix__", "prefix__a", "prefix__ab", "prefix__b", "0123456789abcdef", "0123456789abcdefg", "0123456789abcdeg"}
			sort.Strings(long)
			tc += typedFamily("string (long, shared prefixes)", long, tl)
		}
		tc += typedFamily("named int", []myInt{-5, 0, 5, math.MaxInt}, tl)
		tc += typedFamily("named string", []myStr{"", "x", "y"}, tl)
		r.Set("element_type_family_inputs", tc)
	}
	// a less function that panics at its k-th call (the caller recovers): whatever order the slice is
	// left in, it must still be a permutation of its former contents (sorting moves elements, it never
	// copies one over another)
	{
		pcases := 0
		for _, n := range []int{2, 3, 5, 8, 12, 13, 20, 33, 70} {
			for _, pat := range []func(i int) int{func(i int) int { return n - i }, func(i int) int { return (i * 7) % 5 }, func(i int) int { return i % 2 }} {
				for _, f := range []struct {
					name string
					f    func([]E, func(a, b E) bool)
				}{
					{"SortFunc", func(s []E, l func(a, b E) bool) { slices.SortFunc(s, l) }},
					{"SortDescFunc", func(s []E, l func(a, b E) bool) { slices.SortDescFunc(s, l) }},
					{"SortStableFunc", func(s []E, l func(a, b E) bool) { slices.SortStableFunc(s, l) }},
					{"SortStableDescFunc", func(s []E, l func(a, b E) bool) { slices.SortStableDescFunc(s, l) }},
				} {
					for k := 1; k <= 3*n; k += 1 + k/6 {
						s := make([]E, n)
						for i := range s {
							s[i] = E{pat(i), i}
						}
						calls := 0
						func() {
							defer func() { recover() }()
							f.f(s, func(a, b E) bool {
								if calls++; calls == k {
									panic("less failed")
								}
								return a.K < b.K
							})
						}()
						pcases++
						e.Call()
						seen := make([]bool, n)
						for _, x := range s {
							if x.T < 0 || x.T >= n || seen[x.T] || x.K != pat(x.T) {
								e.Fail(f.name+"|not-a-permutation", map[string]any{"fn": f.name, "len": n, "less_panics_at_call": k}, "%s on %d elements whose less function panics at call %d (recovered by the caller) leaves %v: not a permutation of the input", f.name, n, k, s)
								break
							}
							seen[x.T] = true
						}
						// ... and the NEXT sorts (same and other functions, fresh input) are correct and stable
						if k%3 == 1 {
							for _, g := range []func([]E, func(a, b E) bool){func(s []E, l func(a, b E) bool) { slices.SortStableFunc(s, l) }, func(s []E, l func(a, b E) bool) { slices.SortFunc(s, l) }} {
								t := make([]E, 41)
								for i := range t {
									t[i] = E{(i * 11) % 7, i}
								}
								g(t, func(a, b E) bool { return a.K < b.K })
								ints := make([]int, 41)
								for i := range ints {
									ints[i] = (i * 11) % 7
								}
								slices.Sort(ints)
								e.Call()
								for i := 1; i < len(t); i++ {
									if t[i-1].K > t[i].K || ints[i-1] > ints[i] {
										e.Fail("Sort|after-panic", map[string]any{"fn": f.name, "len": n, "less_panics_at_call": k}, "after %s's less function panicked at call %d (recovered), the next sort of 41 fresh elements gives %v / %v", f.name, k, t, ints)
										break
									}
								}
							}
						}
					}
				}
			}
		}
		r.Set("panicking_less_cases", pcases)
	}
	r.Sample("keys [2 0 1 0] -> six sort functions, tagged with original index")
	// BinarySearch: every ascending slice over {0,2,4} of length <= L x every target -1..5
	L := ev.Pick(r, 8, 12)
	for a := 0; a <= L; a++ {
		for b := 0; a+b <= L; b++ {
			for c := 0; a+b+c <= L; c++ {
				var s []int
				for i := 0; i < a; i++ {
					s = append(s, 0)
				}
				for i := 0; i < b; i++ {
					s = append(s, 2)
				}
				for i := 0; i < c; i++ {
					s = append(s, 4)
				}
				e.Input(a+b+c >= 2)
				for t := -1; t <= 5; t++ {
					want := len(s)
					for i, v := range s {
						if v >= t {
							want = i
							break
						}
					}
					rp := map[string]any{"slice": fmt.Sprint(s), "target": t}
					e.Call()
					if got := slices.BinarySearch(s, t); got != want {
						e.Fail("BinarySearch|result", rp, "BinarySearch(%v,%d) = %d, want %d", s, t, got, want)
					}
					e.Call()
					if got := slices.BinarySearchFunc(s, func(x int) bool { return x < t }); got != want {
						e.Fail("BinarySearchFunc|result", rp, "BinarySearchFunc(%v, x<%d) = %d, want %d", s, t, got, want)
					}
				}
			}
		}
	}
	for _, n := range []int{13, 31, 32, 33, 64, 100, 255, 256, 257, 1000} {
		for blk := 1; blk <= 5; blk++ {
			s := make([]int, n)
			for i := range s {
				s[i] = (i / blk) * 2
			}
			e.Input(true)
			for t := -1; t <= s[n-1]+1; t++ {
				want := n
				for i, v := range s {
					if v >= t {
						want = i
						break
					}
				}
				e.Call()
				if got := slices.BinarySearch(s, t); got != want {
					e.Fail("BinarySearch|result", map[string]any{"len": n, "block": blk, "target": t}, "BinarySearch(len %d, runs of %d equal values, target %d) = %d, want %d", n, blk, t, got, want)
				}
				e.Call()
				if got := slices.BinarySearchFunc(s, func(x int) bool { return x < t }); got != want {
					e.Fail("BinarySearchFunc|result", map[string]any{"len": n, "block": blk, "target": t}, "BinarySearchFunc(len %d, runs of %d, x<%d) = %d, want %d", n, blk, t, got, want)
				}
			}
		}
	}
	// astronomically long slices of zero-size elements: the midpoint computation must not overflow
	for _, n := range []int{1<<62 + 1, math.MaxInt - 1, math.MaxInt} {
		z := make([]struct{}, n)
		for _, all := range []bool{true, false} {
			want := 0
			if all {
				want = n
			}
			e.Input(true)
			e.Call()
			var got int
			if p, m := enum.Catch(func() { got = slices.BinarySearchFunc(z, func(struct{}) bool { return all }) }); p {
				e.Fail("BinarySearchFunc|panic", map[string]any{"len": n, "less_always": all}, "BinarySearchFunc on %d zero-size elements (less always %v) panicked: %s", n, all, m)
			} else if got != want {
				e.Fail("BinarySearchFunc|result", map[string]any{"len": n, "less_always": all}, "BinarySearchFunc on %d zero-size elements (less always %v) = %d, want %d", n, all, got, want)
			}
		}
	}
	r.Sample("BinarySearch([0 2 2 4], 2) -> 1")
	// Shuffle / ShuffleRand
	for n := 0; n <= ev.Pick(r, 12, 40); n++ {
		for seed := int64(0); seed < 64; seed++ {
			mk := func() []int {
				s := make([]int, n)
				for i := range s {
					s[i] = i
				}
				return s
			}
			isPerm := func(s []int) bool {
				seen := make([]bool, n)
				for _, v := range s {
					if v < 0 || v >= n || seen[v] {
						return false
					}
					seen[v] = true
				}
				return len(s) == n
			}
			s1, s2 := mk(), mk()
			e.Input(n >= 2)
			slices.ShuffleRand(s1, rand.New(rand.NewSource(seed)))
			slices.ShuffleRand(s2, rand.New(rand.NewSource(seed)))
			e.Call()
			e.Call()
			rp := map[string]any{"fn": "ShuffleRand", "n": n, "seed": seed}
			if !isPerm(s1) {
				e.Fail("ShuffleRand|not-a-permutation", rp, "ShuffleRand(n=%d, seed %d) = %v", n, seed, s1)
			}
			if fmt.Sprint(s1) != fmt.Sprint(s2) {
				e.Fail("ShuffleRand|not-deterministic", rp, "ShuffleRand(n=%d) with two generators seeded %d gave %v and %v", n, seed, s1, s2)
			}
			// it must draw only from the supplied generator: the generator's state afterwards
			// must be the same function of the seed as well
			g1, g2 := rand.New(rand.NewSource(seed)), rand.New(rand.NewSource(seed))
			slices.ShuffleRand(mk(), g1)
			slices.ShuffleRand(mk(), g2)
			if g1.Int63() != g2.Int63() {
				e.Fail("ShuffleRand|not-deterministic", rp, "generator state differs after two identical ShuffleRand calls")
			}
			s3 := mk()
			slices.Shuffle(s3)
			e.Call()
			if !isPerm(s3) {
				e.Fail("Shuffle|not-a-permutation", map[string]any{"fn": "Shuffle", "n": n}, "Shuffle(n=%d) = %v", n, s3)
			}
		}
	}
	e.Finish(fmt.Sprintf("every key sequence over {0,1,2} of length <= %d and over {0,1} of length %d..%d, elements tagged with their original index, through all six sort functions (permutation, ordered, stable); every ascending slice over {0,2,4} of length <= %d x every target -1..5 for both binary searches; 16 ordered element types (every integer width, floats, strings, named types) with the extremes of each range in the universe, at lengths up to 1000 (thorough: every length to 300, then to 70000), through all sort and search functions; ShuffleRand for every length x 64 seeds; non-trivial = input not already ascending", ternLen, ternLen+1, binLen, L))
}
