// C02: the AVL tree stays height-balanced after every Add and Remove.
package main

import (
	"fmt"
	"gopkg.in/typ.v4/avl"
	"math"
	"time"

	"verif/lib/avlh"
	"verif/lib/ev"
	"verif/lib/seqmc"
)

func main() {
	ev.GuardFor("C02")
	r := ev.Start("C02")
	defer r.FinishOnPanic()
	r.SetDeadline(ev.Pick(r, 50*time.Second, 1200*time.Second))
	type cfg struct {
		name string
		p    avlh.Params
	}
	cfgs := []cfg{
		{"distinct", avlh.Params{U: ev.Pick(r, 9, 12), N: ev.Pick(r, 9, 12), Distinct: true, Balance: true, Clone: true}},
		{"dups", avlh.Params{U: 3, N: ev.Pick(r, 6, 8), Balance: true, Clone: true}},
		{"distinct-struct-difference-comparator", avlh.Params{U: ev.Pick(r, 7, 9), N: ev.Pick(r, 7, 9), Distinct: true, Balance: true, Struct: true}},
	}
	states, trans, depth := 0, 0, 0
	var parts []string
	for _, c := range cfgs {
		c := c
		res := seqmc.Explore(r, seqmc.Config{Name: c.name, GoTest: avlh.GoTest(c.p, c.p.Struct), New: func() seqmc.Sys {
			if c.p.Struct {
				return avlh.NewStruct(c.p)
			}
			return avlh.NewInt(c.p)
		}})
		states += res.States
		trans += res.Transitions
		if res.MaxDepth > depth {
			depth = res.MaxDepth
		}
		parts = append(parts, fmt.Sprintf("%s: U=%d N=%d states=%d transitions=%d depth=%d fixpoint=%v", c.name, c.p.U, c.p.N, res.States, res.Transitions, res.MaxDepth, res.Exhaustive))
		if !res.Exhaustive {
			r.MarkCapped()
		}
	}
	// Parametrised families at sizes the BFS cannot reach: every n up to nmax,
	// three insertion orders, then three deletion orders, balance checked after every call.
	// every family runs twice: on avl.NewOrdered and on avl.New with a comparator that answers with
	// differences (any negative / positive number, not only -1 / +1)
	for _, kind := range []string{"NewOrdered", "difference-comparator"} {
		if kind != "NewOrdered" {
			avlh.NewTree = avlh.Magnitude
		}
		nmax := ev.Pick(r, 300, 1100)
		fam := 0
		for _, ins := range []string{"asc", "desc", "inside-out"} {
			for _, del := range []string{"asc", "desc", "inside-out"} {
				if r.Violations() > 0 {
					break
				}
				if msg := family(ins, del, nmax); msg != "" {
					r.Report(ev.Violation{Sig: "family|" + classify(msg), Msg: "(" + kind + " tree) " + msg, Replay: map[string]any{"family": ins + "/" + del, "nmax": nmax}})
				}
				fam++
			}
		}
		r.Set("families", fam)
		r.Set("family_nmax", nmax)
		// build-then-remove families: every size up to the bound, 7 build orders, every single
		// removal (and every ordered pair of removals for the smaller sizes), checked after each
		{
			var tr func(any)
			if ev.Tracing() {
				tr = ev.Trace
			}
			cases, msg, rp := avlh.RemovalFamilies(ev.Pick(r, 96, 300), ev.Pick(r, 30, 60), true, tr)
			if msg != "" {
				r.Report(ev.Violation{Sig: "family|Balance", Msg: "(" + kind + " tree) " + msg, Replay: rp})
			}
			r.Set("removal_family_cases", cases)
		}
		// long-history churn: one tree, tens of thousands of operations (behaviour keyed to a count of
		// operations), with and without duplicates
		for _, dups := range []bool{false, true} {
			var tr func(any)
			if ev.Tracing() {
				tr = ev.Trace
			}
			if msg, rp := avlh.Churn(ev.Pick(r, 140000, 600000), 97, dups, true, tr); msg != "" {
				r.Report(ev.Violation{Sig: "family|churn", Msg: "(" + kind + " tree) " + msg, Replay: rp})
			}
		}
	}
	// deep trees: the sparsest AVL tree with 34 (36) levels - descents of more than 32 steps
	{
		var tr func(any)
		if ev.Tracing() {
			tr = ev.Trace
		}
		avlh.NewTree = func() avl.Tree[int] { return avl.NewOrdered[int]() }
		nodes, calls, msg := avlh.DeepTree(ev.Pick(r, 34, 36), tr)
		if msg != "" {
			r.Report(ev.Violation{Sig: "family|deep-tree", Msg: msg, Replay: map[string]any{"family": "deep-tree"}})
		}
		r.Set("deep_tree_nodes", nodes)
		r.Set("deep_tree_calls", calls)
	}
	// Clear and reuse at sizes up to 20000 (on both comparator kinds: NewTree is whatever the last pass set)
	for _, n := range ev.Pick(r, []int{3, 100, 8192, 20000}, []int{3, 100, 8192, 20000, 70000, 300000}) {
		var tr func(any)
		if ev.Tracing() {
			tr = ev.Trace
		}
		if _, msg := avlh.ClearReuse(n, true, tr); msg != "" {
			r.Report(ev.Violation{Sig: "family|clear-reuse", Msg: msg, Replay: map[string]any{"family": "clear-reuse", "n": n}})
		}
	}
	r.Set("churn_family_operations", 2*ev.Pick(r, 140000, 600000))
	r.Set("states", states)
	r.Set("transitions", trans)
	r.Set("traces_validated_against_impl", trans)
	r.Set("max_depth", depth)
	r.Set("configs", parts)
	if cases, msg := avlh.PanickingComparator(); msg != "" {
		r.Report(ev.Violation{Sig: "family|panicking-comparator", Msg: msg, Replay: map[string]any{"family": "panicking-comparator"}})
	} else {
		r.Set("panicking_comparator_cases", cases)
	}
	r.Set("rule", "explicit-state BFS to fixpoint over the real avl.Tree with distinct values (shape unique from pre+in order): every insertion order and every interleaving of insertions and deletions under the size bound; oracle: AVL balance at every node, depth <= 1.4405*log2(n+2), comparator calls of Contains within 2*bound+2; plus 9 parametrised insertion/deletion families checked after every call up to family_nmax PLUS deterministic families beyond the exhaustive bound (large sizes, every single/double removal from trees built in 7 orders, long one-instance churn histories): see the *_family_* counters")
	r.Finish()
}

func classify(msg string) string {
	if len(msg) > 7 && msg[:7] == "balance" {
		return "Balance"
	}
	return "Depth"
}

func order(kind string, n int) []int {
	o := make([]int, 0, n)
	switch kind {
	case "asc":
		for i := 0; i < n; i++ {
			o = append(o, i)
		}
	case "desc":
		for i := n - 1; i >= 0; i-- {
			o = append(o, i)
		}
	default:
		lo, hi := (n-1)/2, (n-1)/2+1
		for lo >= 0 || hi < n {
			if lo >= 0 {
				o = append(o, lo)
				lo--
			}
			if hi < n {
				o = append(o, hi)
				hi++
			}
		}
	}
	return o
}

// family inserts n values in one order and deletes them in another, checking
// balance from the pre/in-order traversals after every call (values distinct).
func family(ins, del string, n int) string {
	t := avlh.NewTree()
	check := func(what string) string {
		pre, in := t.SlicePreOrder(), t.SliceInOrder()
		pos := make(map[int]int, len(in))
		for i, v := range in {
			pos[v] = i
		}
		idx := 0
		bad := ""
		var rec func(lo, hi int) int
		rec = func(lo, hi int) int {
			if lo > hi || idx >= len(pre) {
				return 0
			}
			root := pre[idx]
			p, ok := pos[root]
			if !ok || p < lo || p > hi {
				bad = "traversals inconsistent"
				return 0
			}
			idx++
			l := rec(lo, p-1)
			rr := rec(p+1, hi)
			if d := l - rr; d < -1 || d > 1 {
				if bad == "" {
					bad = fmt.Sprintf("balance violated at node %d: left height %d, right height %d", root, l, rr)
				}
			}
			if l > rr {
				return l + 1
			}
			return rr + 1
		}
		h := rec(0, len(in)-1)
		if bad != "" {
			return fmt.Sprintf("%s (%s, n=%d, insertion %s, deletion %s)", bad, what, len(in), ins, del)
		}
		if b := int(math.Floor(1.4405 * math.Log2(float64(len(in)+2)))); len(in) > 0 && h > b {
			return fmt.Sprintf("depth %d exceeds bound %d (%s, n=%d)", h, b, what, len(in))
		}
		return ""
	}
	for _, v := range order(ins, n) {
		if ev.Tracing() {
			ev.Trace(map[string]any{"family": ins + "/" + del, "op": "Add", "value": v})
		}
		t.Add(v)
		if m := check(fmt.Sprintf("after Add(%d)", v)); m != "" {
			return m
		}
	}
	for _, v := range order(del, n) {
		if ev.Tracing() {
			ev.Trace(map[string]any{"family": ins + "/" + del, "insertions": n, "op": "Remove", "value": v})
		}
		if !t.Remove(v) {
			return fmt.Sprintf("balance-family: Remove(%d) returned false", v)
		}
		if m := check(fmt.Sprintf("after Remove(%d)", v)); m != "" {
			return m
		}
	}
	return ""
}
