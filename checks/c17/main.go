// C17: Once1/Once2/Once3 run the action exactly once and share its results.
package main

import (
	"errors"
	"fmt"
	"runtime"
	"sync/atomic"
	"time"
	"unsafe"

	"gopkg.in/typ.v4/sync2"
	"verif/lib/ev"
	"verif/lib/schk"
	"verif/vrt"
)

type rec struct {
	n         int
	invoked   []int // per caller: how often its function ran
	completed bool  // written last by the action
	partial   int
	ret       [][3]int
	sawDone   []bool
	later     func() ([3]int, bool) // a caller arriving after quiescence
	exit      string
	abnormal  bool   // caller 0's action ran (and left through Goexit / panic)
	returned  []bool // per caller: Do returned normally
}

// action is what every caller passes to Do (with its own id): two internal
// scheduling points, the completion flag written last.
func (r *rec) action(i int) (int, int, int) {
	r.invoked[i]++
	if i == 0 && r.exit != "" {
		r.abnormal = true
		vrt.Yield("action.step1", unsafe.Pointer(&r.partial), true)
		if r.exit == "goexit" {
			runtime.Goexit()
		}
		panic("action failed")
	}
	vrt.Yield("action.step1", unsafe.Pointer(&r.partial), true)
	r.partial = i
	vrt.Yield("action.step2", unsafe.Pointer(&r.partial), true)
	r.completed = true
	return 100 + i, 200 + i, 300 + i
}

func scenario(arity, n int, bound int) schk.Scenario { return scenarioX(arity, n, bound, "", false) }

// scenarioX: exit = "" (all actions return), "goexit" (caller 0's action leaves through
// runtime.Goexit, like t.FailNow inside it) or "panic" (caller 0's action panics and caller 0
// recovers around Do). Either way that action counts as THE invocation: no other function may run.
// twice: every caller calls Do a second time straight after the first (a "later" call that overlaps
// the other callers' first ones); both calls must return the one invocation's results.
func scenarioX(arity, n int, bound int, exit string, twice bool) schk.Scenario {
	name := fmt.Sprintf("Once%d/%d-callers", arity, n)
	if exit != "" {
		name += "/caller0-action-" + exit
	}
	if twice {
		name += "/two-calls-each"
	}
	return schk.Scenario{
		Name: name, Bound: bound, RaceBound: min(bound, 2),
		Body: func(s *vrt.Sched) any {
			r := &rec{n: n, invoked: make([]int, n+1), ret: make([][3]int, n), sawDone: make([]bool, n), exit: exit, returned: make([]bool, n)}
			var do func(i int) [3]int
			switch arity {
			case 1:
				o := new(sync2.Once1[int])
				do = func(i int) [3]int {
					a := o.Do(func() int { a, _, _ := r.action(i); return a })
					return [3]int{a, a + 100, a + 200}
				}
			case 2:
				o := new(sync2.Once2[int, int])
				do = func(i int) [3]int {
					a, b := o.Do(func() (int, int) { a, b, _ := r.action(i); return a, b })
					return [3]int{a, b, b + 100}
				}
			default:
				o := new(sync2.Once3[int, int, int])
				do = func(i int) [3]int {
					a, b, c := o.Do(func() (int, int, int) { return r.action(i) })
					return [3]int{a, b, c}
				}
			}
			for i := 0; i < n; i++ {
				i := i
				s.Spawn(fmt.Sprintf("caller%d", i), func() {
					if exit == "panic" && i == 0 {
						defer func() { recover() }()
					}
					vrt.Begin()
					got := do(i)
					vrt.End()
					if twice {
						vrt.Begin()
						again := do(i)
						vrt.End()
						if again != got {
							got = [3]int{-1, again[0], got[0]} // reported as a wrong result below
						}
					}
					r.ret[i] = got
					r.returned[i] = true
					r.sawDone[i] = r.completed // a plain read: must be ordered after the action by Do itself
				})
			}
			r.later = func() ([3]int, bool) { return do(n), r.completed }
			return r
		},
		Check: func(x *vrt.Exec, obs any) (*schk.Fail, string) {
			r := obs.(*rec)
			if x.Panic != "" || x.Deadlock {
				return nil, "abnormal"
			}
			total, winner := 0, -1
			for i, c := range r.invoked {
				total += c
				if c > 0 {
					winner = i
				}
			}
			if total != 1 {
				return schk.Failf("not-exactly-once", "the supplied functions were invoked %d times in total (per caller %v), want exactly 1", total, r.invoked), ""
			}
			if r.abnormal {
				// the one invocation left through Goexit / panic: there are no results to share, but no
				// other function may have run, now or later
				r.later()
				if r.invoked[r.n] != 0 {
					return schk.Failf("not-exactly-once", "after an action that left through %s a later Do ran its function", r.exit), ""
				}
				return nil, "abnormal-exit-of-the-one-invocation"
			}
			want := [3]int{100 + winner, 200 + winner, 300 + winner}
			for i := 0; i < r.n; i++ {
				if r.ret[i] != want {
					return schk.Failf("wrong-result", "caller %d's Do returned %v, the one invocation (caller %d's function) returned %v", i, r.ret[i], winner, want), ""
				}
				if !r.sawDone[i] {
					return schk.Failf("returned-before-completion", "caller %d's Do returned before the action had completed", i), ""
				}
			}
			lr, done := r.later()
			if lr != want || !done {
				return schk.Failf("later-caller", "a later Do returned %v (completed=%v), want %v", lr, done, want), ""
			}
			if r.invoked[r.n] != 0 {
				return schk.Failf("not-exactly-once", "a later Do ran its function again"), ""
			}
			return nil, fmt.Sprint("winner", winner)
		},
	}
}

// chainScenario: `threads` threads, each running a chain of `depth` nested Do calls over its OWN fresh
// Once1 values (the action passed to value k calls Do on value k+1 - an initialisation dependency
// chain). Distinct Once values are independent objects: every action must run exactly once and every Do
// must return its own action's result, under every schedule. With `depth` values held "inside Do" at the
// same time, anything the implementation shares between Once values (a lock table, a pool) is shared
// between two of them in every execution, whatever their addresses.
func chainScenario(threads, depth, bound int) schk.Scenario {
	type crec struct {
		ran  [][]int
		got  [][]int
		done []bool
	}
	return schk.Scenario{
		Name: fmt.Sprintf("Once1/nested-chain/%d-threads-x-%d-values", threads, depth), Bound: bound, RaceBound: min(bound, 1), MaxSteps: 40000 + 40*threads*depth,
		Body: func(s *vrt.Sched) any {
			r := &crec{done: make([]bool, threads)}
			for t := 0; t < threads; t++ {
				r.ran = append(r.ran, make([]int, depth))
				r.got = append(r.got, make([]int, depth))
			}
			for t := 0; t < threads; t++ {
				t := t
				objs := make([]sync2.Once1[int], depth)
				var call func(k int) int
				call = func(k int) int {
					v := objs[k].Do(func() int {
						r.ran[t][k]++
						if k+1 < depth {
							call(k + 1)
						}
						return 1000*t + k
					})
					r.got[t][k] = v
					return v
				}
				s.Spawn(fmt.Sprint("chain", t), func() {
					call(0)
					r.done[t] = true
				})
			}
			return r
		},
		Check: func(x *vrt.Exec, obs any) (*schk.Fail, string) {
			r := obs.(*crec)
			if x.Panic != "" || x.Deadlock {
				return nil, "abnormal"
			}
			for t := range r.ran {
				if !r.done[t] {
					return schk.Failf("chain-not-finished", "thread %d did not finish its chain", t), ""
				}
				for k := range r.ran[t] {
					if r.ran[t][k] != 1 {
						return schk.Failf("not-exactly-once", "the action of Once value %d of thread %d ran %d times", k, t, r.ran[t][k]), ""
					}
					if r.got[t][k] != 1000*t+k {
						return schk.Failf("wrong-result", "Do on Once value %d of thread %d returned %d, its action returned %d", k, t, r.got[t][k], 1000*t+k), ""
					}
				}
			}
			return nil, "ok"
		},
	}
}

// nilScenario: caller 0 passes a real function; callers 1..n-1 pass a NIL function, and start only after
// caller 0's action has begun (so the nil function can never be the one that is invoked). They must
// behave like any other late caller: wait for the action to complete and return its values.
func nilScenario(arity, n int) schk.Scenario {
	type nrec struct {
		started   atomic.Bool // harness-level signal (ordered before everything the action does later)
		completed bool
		ret       [][3]int
		saw       []bool
		runs      int
	}
	return schk.Scenario{
		Name: fmt.Sprintf("Once%d/%d-callers/late-callers-pass-a-nil-function", arity, n), Bound: -1, RaceBound: 2,
		Body: func(s *vrt.Sched) any {
			r := &nrec{ret: make([][3]int, n), saw: make([]bool, n)}
			action := func() (int, int, int) {
				r.runs++
				r.started.Store(true)
				vrt.Yield("action.step1", unsafe.Pointer(r), true)
				vrt.Yield("action.step2", unsafe.Pointer(r), true)
				r.completed = true
				return 7, 8, 9
			}
			var do func(real bool) [3]int
			switch arity {
			case 1:
				o := new(sync2.Once1[int])
				do = func(real bool) [3]int {
					var f func() int
					if real {
						f = func() int { a, _, _ := action(); return a }
					}
					a := o.Do(f)
					return [3]int{a, 8, 9}
				}
			case 2:
				o := new(sync2.Once2[int, int])
				do = func(real bool) [3]int {
					var f func() (int, int)
					if real {
						f = func() (int, int) { a, b, _ := action(); return a, b }
					}
					a, b := o.Do(f)
					return [3]int{a, b, 9}
				}
			default:
				o := new(sync2.Once3[int, int, int])
				do = func(real bool) [3]int {
					var f func() (int, int, int)
					if real {
						f = action
					}
					a, b, c := o.Do(f)
					return [3]int{a, b, c}
				}
			}
			for i := 0; i < n; i++ {
				i := i
				s.Spawn(fmt.Sprintf("caller%d", i), func() {
					if i > 0 {
						vrt.PointOp(&vrt.Op{Kind: "h.wait-action-started", Ready: func() bool { return r.started.Load() }})
					}
					r.ret[i] = do(i == 0)
					r.saw[i] = r.completed
				})
			}
			return r
		},
		Check: func(x *vrt.Exec, obs any) (*schk.Fail, string) {
			r := obs.(*nrec)
			if x.Panic != "" || x.Deadlock {
				return nil, "abnormal"
			}
			if r.runs != 1 {
				return schk.Failf("not-exactly-once", "the action ran %d times", r.runs), ""
			}
			for i := range r.ret {
				if r.ret[i] != [3]int{7, 8, 9} {
					return schk.Failf("wrong-result", "caller %d (nil function: %v) got %v from Do, the one invocation returned [7 8 9]", i, i > 0, r.ret[i]), ""
				}
				if !r.saw[i] {
					return schk.Failf("returned-before-completion", "caller %d (nil function: %v): Do returned before the action had completed", i, i > 0), ""
				}
			}
			return nil, "ok"
		},
	}
}

// zeroScenario: every caller's function returns the ZERO values of the result types (a result like any
// other: the action must still run exactly once, also for a caller arriving after quiescence).
func zeroScenario(arity, n int) schk.Scenario {
	type zrec struct {
		runs  int
		ret   [][3]int
		later func() [3]int
	}
	return schk.Scenario{
		Name: fmt.Sprintf("Once%d/%d-callers/functions-return-zero-values", arity, n), Bound: -1, RaceBound: 1,
		Body: func(s *vrt.Sched) any {
			r := &zrec{ret: make([][3]int, n)}
			act := func() (int, int, int) {
				r.runs++
				vrt.Yield("action.step1", unsafe.Pointer(r), true)
				return 0, 0, 0
			}
			var do func() [3]int
			switch arity {
			case 1:
				o := new(sync2.Once1[int])
				do = func() [3]int { a := o.Do(func() int { a, _, _ := act(); return a }); return [3]int{a, 0, 0} }
			case 2:
				o := new(sync2.Once2[int, int])
				do = func() [3]int {
					a, b := o.Do(func() (int, int) { a, b, _ := act(); return a, b })
					return [3]int{a, b, 0}
				}
			default:
				o := new(sync2.Once3[int, int, int])
				do = func() [3]int { a, b, c := o.Do(act); return [3]int{a, b, c} }
			}
			for i := 0; i < n; i++ {
				i := i
				s.Spawn(fmt.Sprintf("caller%d", i), func() { r.ret[i] = do(); r.ret[i] = do() })
			}
			r.later = do
			return r
		},
		Check: func(x *vrt.Exec, obs any) (*schk.Fail, string) {
			r := obs.(*zrec)
			if x.Panic != "" || x.Deadlock {
				return nil, "abnormal"
			}
			r.later()
			if r.runs != 1 {
				return schk.Failf("not-exactly-once", "functions that return zero values were invoked %d times in total, want exactly 1", r.runs), ""
			}
			for i, v := range r.ret {
				if v != [3]int{} {
					return schk.Failf("wrong-result", "caller %d got %v, the invocation returned zeros", i, v), ""
				}
			}
			return nil, "ok"
		},
	}
}

// nilIfaceScenario: the result types are interface types and the one invocation returns NIL interfaces
// (a nil error is the commonest result there is). Exactly once, every caller gets nil, no panic.
func nilIfaceScenario(arity, n int) schk.Scenario {
	type irec struct {
		runs int
		ok   []bool
		done []bool
	}
	return schk.Scenario{
		Name: fmt.Sprintf("Once%d[error,...]/%d-callers/the-invocation-returns-nil-interfaces", arity, n), Bound: -1, RaceBound: 1,
		Body: func(s *vrt.Sched) any {
			r := &irec{ok: make([]bool, n), done: make([]bool, n)}
			var do func() bool
			switch arity {
			case 1:
				o := new(sync2.Once1[error])
				do = func() bool {
					return o.Do(func() error { r.runs++; vrt.Yield("action", unsafe.Pointer(r), true); return nil }) == nil
				}
			case 2:
				o := new(sync2.Once2[any, error])
				do = func() bool {
					a, b := o.Do(func() (any, error) { r.runs++; vrt.Yield("action", unsafe.Pointer(r), true); return nil, nil })
					return a == nil && b == nil
				}
			default:
				o := new(sync2.Once3[error, any, fmt.Stringer])
				do = func() bool {
					a, b, c := o.Do(func() (error, any, fmt.Stringer) {
						r.runs++
						vrt.Yield("action", unsafe.Pointer(r), true)
						return nil, nil, nil
					})
					return a == nil && b == nil && c == nil
				}
			}
			for i := 0; i < n; i++ {
				i := i
				s.Spawn(fmt.Sprintf("caller%d", i), func() { r.ok[i] = do() && do(); r.done[i] = true })
			}
			return r
		},
		Check: func(x *vrt.Exec, obs any) (*schk.Fail, string) {
			r := obs.(*irec)
			if x.Deadlock {
				return nil, "abnormal"
			}
			if x.Panic != "" {
				return schk.Failf("panic-on-nil-interface-result", "Do panicked although the action returned normally (nil interface results): %s", x.Panic), ""
			}
			if r.runs != 1 {
				return schk.Failf("not-exactly-once", "the action ran %d times", r.runs), ""
			}
			for i := range r.ok {
				if !r.done[i] || !r.ok[i] {
					return schk.Failf("wrong-result", "caller %d did not get the nil interfaces the invocation returned", i), ""
				}
			}
			return nil, "ok"
		},
	}
}

// errResultScenario: the one invocation returns a NON-nil error as its last result (a failed
// initialisation is still THE invocation: no other function may run, everybody gets that error).
func errResultScenario(arity, n int) schk.Scenario {
	type erec struct {
		runs int
		ok   []bool
	}
	boom := errors.New("initialisation failed")
	return schk.Scenario{
		Name: fmt.Sprintf("Once%d[...,error]/%d-callers/the-invocation-returns-a-non-nil-error", arity, n), Bound: -1, RaceBound: 1,
		Body: func(s *vrt.Sched) any {
			r := &erec{ok: make([]bool, n)}
			var do func() bool
			switch arity {
			case 1:
				o := new(sync2.Once1[error])
				do = func() bool {
					return o.Do(func() error { r.runs++; vrt.Yield("action", unsafe.Pointer(r), true); return boom }) == boom
				}
			case 2:
				o := new(sync2.Once2[int, error])
				do = func() bool {
					a, b := o.Do(func() (int, error) { r.runs++; vrt.Yield("action", unsafe.Pointer(r), true); return 5, boom })
					return a == 5 && b == boom
				}
			default:
				o := new(sync2.Once3[int, string, error])
				do = func() bool {
					a, b, c := o.Do(func() (int, string, error) {
						r.runs++
						vrt.Yield("action", unsafe.Pointer(r), true)
						return 5, "x", boom
					})
					return a == 5 && b == "x" && c == boom
				}
			}
			for i := 0; i < n; i++ {
				i := i
				s.Spawn(fmt.Sprintf("caller%d", i), func() { r.ok[i] = do() && do() })
			}
			return r
		},
		Check: func(x *vrt.Exec, obs any) (*schk.Fail, string) {
			r := obs.(*erec)
			if x.Panic != "" || x.Deadlock {
				return nil, "abnormal"
			}
			if r.runs != 1 {
				return schk.Failf("not-exactly-once", "functions whose last result is a non-nil error were invoked %d times in total, want exactly 1", r.runs), ""
			}
			for i, ok := range r.ok {
				if !ok {
					return schk.Failf("wrong-result", "caller %d did not get the results (incl. the error) of the one invocation", i), ""
				}
			}
			return nil, "ok"
		},
	}
}

func main() {
	r := ev.Start("C17")
	var scs []schk.Scenario
	for arity := 1; arity <= 3; arity++ {
		scs = append(scs, scenario(arity, 2, -1))
		scs = append(scs, scenario(arity, 3, ev.Pick(r, 3, -1)))
		if r.Thorough() {
			scs = append(scs, scenario(arity, 4, -1), scenario(arity, 5, -1), scenario(arity, 6, 3))
		}
		for _, exit := range []string{"goexit", "panic"} {
			scs = append(scs, scenarioX(arity, 2, -1, exit, false), scenarioX(arity, 3, ev.Pick(r, 2, -1), exit, false))
			if r.Thorough() {
				scs = append(scs, scenarioX(arity, 4, -1, exit, false), scenarioX(arity, 3, -1, exit, true))
			}
		}
		scs = append(scs, scenarioX(arity, 2, -1, "", true), scenarioX(arity, 3, ev.Pick(r, 2, -1), "", true))
	}
	for arity := 1; arity <= 3; arity++ {
		scs = append(scs, nilScenario(arity, 2), nilScenario(arity, 3))
		scs = append(scs, zeroScenario(arity, 1), zeroScenario(arity, 2))
		scs = append(scs, nilIfaceScenario(arity, 1), nilIfaceScenario(arity, 2))
		scs = append(scs, errResultScenario(arity, 1), errResultScenario(arity, 2))
	}
	// many Once values in use at the same time (state shared between distinct values)
	scs = append(scs, chainScenario(1, 70, -1), chainScenario(1, 300, -1), chainScenario(2, 70, ev.Pick(r, 1, 2)), chainScenario(2, 2, -1), chainScenario(3, 2, 2))
	if r.Thorough() {
		scs = append(scs, chainScenario(1, 5000, -1), chainScenario(2, 300, 1), chainScenario(3, 70, 1))
	}
	schk.Main(r, scs, ev.Pick(r, 40*time.Second, 600*time.Second), func(r *ev.Run) {
		r.Set("rule", "controlled scheduler over the instrumented sync2 package: 2, 3 (thorough: 4 and 5 without a preemption bound, 6 with bound 3) concurrent Do callers on one OnceN value, each passing its own function (distinct results, invocation counter, two internal scheduling points, completion flag written last), plus a caller after quiescence; variants where caller 0's action leaves through runtime.Goexit or a panic, and where every caller calls Do twice in a row; late callers that pass a nil function; functions that return the zero values of the result types; nested chains of Do calls over up to 300 (thorough 5000) distinct Once values per thread, 1-3 threads; every interleaving of the visible operations (atomic loads/stores, mutex operations of the Once, the action's internal points) within the stated preemption bound, or all of them; the same scenarios run under the race detector inside every explored schedule")
		r.Assume("sync.Once is modelled by the standard algorithm (atomic done flag + mutex) re-expressed over the instrumented primitives")
	})
}
