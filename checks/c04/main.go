// C04 (concurrent part): sync2.Map is linearizable to an ordinary map and free of data races.
// Built through the instrumenting overlay; merged with the sequential part (checks/c04seq).
package main

import (
	"fmt"
	"os"
	"time"

	"gopkg.in/typ.v4/sync2"
	"verif/lib/ev"
	"verif/lib/lin"
	"verif/lib/maph"
	"verif/lib/schk"
	"verif/lib/seqmc"
	"verif/vrt"
)

// call is one API call of the alphabet.
type call struct {
	op string // Load Store LoadOrStore LoadAndDelete Delete Range
	k  int
}

func (c call) String() string { return fmt.Sprintf("%s(%d)", c.op, c.k) }

var alphabet = []call{
	{"Load", 0}, {"Load", 1}, {"Store", 0}, {"Store", 1}, {"LoadOrStore", 0}, {"LoadOrStore", 1},
	{"LoadAndDelete", 0}, {"LoadAndDelete", 1}, {"Delete", 0}, {"Delete", 1}, {"Range", 0},
}

// layout is a sequential prefix that puts the map into one concrete internal layout.
type layout struct {
	name string
	pre  []seqmc.Op
}

// allLayouts: EVERY concrete layout a 2-key map can reach (read map, dirty map, amended, miss
// counter, nil/expunged/live entries, values {1,2}), each with the shortest call sequence that
// reaches it, computed by the sequential explicit-state search (single worker: deterministic).
func allLayouts(r *ev.Run, keys int) []layout {
	var out []layout
	seqmc.Explore(r, seqmc.Config{Name: fmt.Sprint("layouts", keys), Workers: 1, MaxStates: 1500, New: func() seqmc.Sys { return maph.New(keys) },
		OnState: func(path []seqmc.Op) {
			name := fmt.Sprintf("L%d/%d:", keys, len(out))
			for _, o := range path {
				name += fmt.Sprintf("%s%d", o.Name[:2], o.A)
				if o.Name == "Store" || o.Name == "LoadOrStore" {
					name += fmt.Sprintf("=%d", o.B)
				}
				name += "."
			}
			out = append(out, layout{name, append([]seqmc.Op{}, path...)})
		}})
	return out
}

type rec struct {
	m    *sync2.Map[int, int]
	init [lin.Keys]int
	ops  [][]lin.Op // per thread
}

// do performs one call on the real map and records it with its stamps.
func (r *rec) do(th int, c call, val int) {
	var o lin.Op
	o.Kind, o.Key, o.Arg = c.op, c.k, val
	o.Thread = th
	var rangeSeen [lin.Keys]int
	var rangeAt [lin.Keys]int
	dup := false
	var nested []lin.Op
	vrt.Begin()
	switch c.op {
	case "Load":
		o.Val, o.Ok = r.m.Load(c.k)
	case "Store":
		r.m.Store(c.k, val)
	case "LoadOrStore":
		o.Val, o.Ok = r.m.LoadOrStore(c.k, val)
	case "LoadAndDelete":
		o.Val, o.Ok = r.m.LoadAndDelete(c.k)
	case "Delete":
		r.m.Delete(c.k)
	case "RangePanic+Store":
		// the callback panics at its first call (the caller recovers); the map must be as usable as
		// before: the Store that follows is recorded as the call of this step
		func() {
			defer func() { recover() }()
			r.m.Range(func(k, v int) bool { panic("callback failed") })
		}()
		o.Kind = "Store"
		r.m.Store(c.k, val)
	case "Range", "Range+Store", "Range+LoadOrStore", "Range+Delete", "Range+Load":
		// "Range+X": the callback, on its first invocation, makes call X on key c.k of the SAME map
		// (the documented contract of Range allows any method to be called from the callback); X is
		// recorded as an operation of its own inside the Range call's interval
		nestedDone := false
		r.m.Range(func(k, v int) bool {
			if k >= lin.Keys {
				return true // crowd keys: outside the modelled universe
			}
			if rangeSeen[k] != 0 {
				dup = true
			}
			rangeSeen[k] = v
			rangeAt[k] = vrt.Now()
			if c.op != "Range" && !nestedDone {
				nestedDone = true
				n := lin.Op{Kind: c.op[6:], Key: c.k, Arg: val, Thread: th + 20, Inv: vrt.Now()}
				switch n.Kind {
				case "Store":
					r.m.Store(c.k, val)
				case "LoadOrStore":
					n.Val, n.Ok = r.m.LoadOrStore(c.k, val)
				case "Delete":
					r.m.Delete(c.k)
				case "Load":
					n.Val, n.Ok = r.m.Load(c.k)
				}
				if n.Ret = vrt.Now(); n.Ret <= n.Inv {
					n.Ret = n.Inv + 1
				}
				nested = append(nested, n)
			}
			return true
		})
	}
	o.Inv, o.Ret = vrt.End()
	if len(c.op) >= 5 && c.op[:5] == "Range" && c.op != "RangePanic+Store" {
		r.ops[th] = append(r.ops[th], nested...)
		// decomposed: one pseudo-load per key, inside the Range call's interval; a key that
		// was seen was loaded no later than its callback
		for k := 0; k < lin.Keys; k++ {
			p := lin.Op{Kind: "RangeObs", Key: k, Thread: th*10 + k + 100, Inv: o.Inv, Ret: o.Ret, Val: rangeSeen[k], Ok: rangeSeen[k] != 0, Dup: dup}
			if p.Ok && rangeAt[k] > p.Inv && rangeAt[k] < p.Ret {
				p.Ret = rangeAt[k]
			}
			r.ops[th] = append(r.ops[th], p)
		}
		return
	}
	r.ops[th] = append(r.ops[th], o)
}

func scenario(lay layout, prog [][]call, bound, raceBound int) schk.Scenario {
	name := lay.name + "|"
	for i, p := range prog {
		if i > 0 {
			name += " || "
		}
		name += fmt.Sprint(p)
	}
	return schk.Scenario{
		Name: name, Bound: bound, RaceBound: raceBound, MaxSteps: 20000 + 200*len(lay.pre),
		Body: func(s *vrt.Sched) any {
			r := &rec{ops: make([][]lin.Op, len(prog)+1)}
			// sequential set-up (pass-through mode): replay the layout's call sequence
			h := maph.New(3)
			for _, o := range lay.pre {
				h.Apply(o)
			}
			r.m = h.M
			for k, v := range h.Model {
				if k < lin.Keys {
					r.init[k] = v
				}
			}
			for t := range prog {
				t := t
				s.Spawn(fmt.Sprint("T", t), func() {
					for j, c := range prog[t] {
						r.do(t, c, 10*(t+1)+j+1)
					}
				})
			}
			return r
		},
		Check: func(x *vrt.Exec, obs any) (*schk.Fail, string) {
			r := obs.(*rec)
			if x.Panic != "" || x.Deadlock {
				return nil, "abnormal"
			}
			// after quiescence: the final contents, read through the API (pass-through mode)
			var all []lin.Op
			last := 0
			for _, t := range r.ops {
				for _, o := range t {
					if o.Dup {
						return schk.Failf("Range:twice", "Range called its function twice for one key"), ""
					}
					all = append(all, o)
					if o.Ret > last {
						last = o.Ret
					}
				}
			}
			for k := 0; k < lin.Keys; k++ {
				v, ok := r.m.Load(k)
				all = append(all, lin.Op{Kind: "Load", Key: k, Val: v, Ok: ok, Thread: 50 + k, Inv: last + 10 + 4*k, Ret: last + 11 + 4*k})
			}
			seen := [lin.Keys]int{}
			r.m.Range(func(k, v int) bool {
				if k < lin.Keys {
					seen[k] = v
				}
				return true
			})
			for k := 0; k < lin.Keys; k++ {
				all = append(all, lin.Op{Kind: "RangeObs", Key: k, Val: seen[k], Ok: seen[k] != 0, Thread: 60 + k, Inv: last + 100, Ret: last + 101})
			}
			ok, desc := lin.CheckKV(r.init, all)
			if !ok {
				return schk.Failf("not-linearizable", "history is not linearizable to a map (initial contents %v): %s", r.init, desc), ""
			}
			return nil, desc
		},
	}
}

// unhashableScenario: a Map[any,int] is handed a key that cannot be hashed (a slice inside the
// interface): the call panics like a builtin map access would and the caller recovers. Whatever that call
// did, the map must be as usable as before for this thread and for another one, and hold what it held.
func unhashableScenario(state int, op string) schk.Scenario {
	type urec struct {
		done [2]bool
		got  [2]int
	}
	name := fmt.Sprintf("Map[any,int]/%s|T0 %s(unhashable key, recovered) Store(y) || T1 Load(x) Store(z)", []string{"fresh", "after Store(x)", "after Store(x) Range"}[state], op)
	return schk.Scenario{
		Name: name, Bound: -1, RaceBound: -2, ExpectDeadlock: true,
		Body: func(s *vrt.Sched) any {
			r := &urec{}
			m := new(sync2.Map[any, int])
			if state >= 1 {
				m.Store("x", 1)
			}
			if state >= 2 {
				m.Range(func(any, int) bool { return true })
			}
			bad := any([]int{1})
			s.Spawn("T0", func() {
				func() {
					defer func() { recover() }()
					switch op {
					case "Load":
						m.Load(bad)
					case "Store":
						m.Store(bad, 9)
					case "LoadOrStore":
						m.LoadOrStore(bad, 9)
					case "LoadAndDelete":
						m.LoadAndDelete(bad)
					default:
						m.Delete(bad)
					}
				}()
				m.Store("y", 2)
				r.done[0] = true
			})
			s.Spawn("T1", func() {
				r.got[0], _ = m.Load("x")
				m.Store("z", 3)
				r.got[1], _ = m.Load("z")
				r.done[1] = true
			})
			return [2]any{r, m}
		},
		Check: func(x *vrt.Exec, obs any) (*schk.Fail, string) {
			pair := obs.([2]any)
			r, m := pair[0].(*urec), pair[1].(*sync2.Map[any, int])
			if x.Panic != "" {
				return nil, "panic"
			}
			if x.Deadlock || !r.done[0] || !r.done[1] {
				return schk.Failf("blocked-after-recovered-panic", "after a call with an unhashable key panicked (and was recovered) ordinary calls on the map never return: %v", x.Blocked), ""
			}
			wantX := 0
			if state >= 1 {
				wantX = 1
			}
			y, _ := m.Load("y")
			n := 0
			m.Range(func(any, int) bool { n++; return true })
			if r.got != [2]int{wantX, 3} || y != 2 || n != 2+wantX {
				return schk.Failf("final-state", "after a recovered panic on an unhashable key: Load(x),Load(z) = %v, Load(y) = %d, Range visits %d keys", r.got, y, n), ""
			}
			return nil, "ok"
		},
	}
}

func main() {
	r := ev.Start("C04")
	var scs []schk.Scenario
	layouts := allLayouts(r, 2)
	if max := ev.Pick(r, 300, 1500); len(layouts) > max {
		// far more concrete layouts than a 2-key map has on the pinned code (e.g. a counter was added
		// to the structure): the shallowest ones are used, the run is not exhaustive
		layouts = layouts[:max]
		r.MarkCapped()
	}
	// a spread-out subset for the larger programs
	var some []layout
	for i, l := range layouts {
		if i%ev.Pick(r, 9, 3) == 0 {
			some = append(some, l)
		}
	}
	// 2 threads x 1 call: every unordered pair of calls from EVERY reachable layout, ALL interleavings
	for _, li := range layouts {
		for i, a := range alphabet {
			for _, b := range alphabet[i:] {
				scs = append(scs, scenario(li, [][]call{{a}, {b}}, -1, ev.Pick(r, 1, 2)))
			}
		}
	}
	// calls made from inside a Range callback (same goroutine, same map), alone and against every
	// single call of a second thread, from EVERY reachable layout
	nestedCalls := []call{{"Range+Store", 2}, {"Range+Store", 0}, {"Range+LoadOrStore", 2}, {"Range+Delete", 1}, {"Range+Load", 2}, {"RangePanic+Store", 2}}
	for _, li := range layouts {
		for _, a := range nestedCalls {
			scs = append(scs, scenario(li, [][]call{{a}}, -1, -2))
		}
	}
	for _, li := range some {
		for _, a := range nestedCalls[:3] {
			for _, b := range alphabet {
				scs = append(scs, scenario(li, [][]call{{a}, {b}}, ev.Pick(r, 3, -1), -2))
			}
		}
	}
	for state := 0; state < 3; state++ {
		for _, op := range []string{"Load", "Store", "LoadOrStore", "LoadAndDelete", "Delete"} {
			scs = append(scs, unhashableScenario(state, op))
		}
	}
	// 3 threads x 1 call: every multiset of three calls on key a plus Range and one call on key b
	small := []call{{"Load", 0}, {"Store", 0}, {"LoadOrStore", 0}, {"LoadAndDelete", 0}, {"Range", 0}, {"Store", 1}, {"Load", 1}}
	for n, li := range some {
		for i, a := range small {
			for j, b := range small[i:] {
				for _, c := range small[i+j:] {
					if !r.Thorough() && n%2 == 1 && a.k+b.k+c.k > 0 {
						continue
					}
					scs = append(scs, scenario(li, [][]call{{a}, {b}, {c}}, ev.Pick(r, 2, 3), ev.Pick(r, -2, 1)))
				}
			}
		}
	}
	// 2 threads x 2 calls
	two := []call{{"Load", 0}, {"Store", 0}, {"LoadOrStore", 0}, {"LoadAndDelete", 0}, {"Load", 1}, {"Store", 1}, {"Range", 0}}
	for _, li := range some {
		for _, a1 := range two {
			for _, a2 := range two {
				for _, b1 := range two {
					for _, b2 := range two {
						if fmt.Sprint(a1, a2) > fmt.Sprint(b1, b2) {
							continue
						}
						if !r.Thorough() && (a1.k+a2.k+b1.k+b2.k > 1 || a1 == a2 || b1 == b2) {
							continue
						}
						scs = append(scs, scenario(li, [][]call{{a1, a2}, {b1, b2}}, ev.Pick(r, 2, 3), -2))
					}
				}
			}
		}
	}
	// 3 threads with programs of 1, 1 and 2 calls around one key: a writer of key a, a thread that
	// can trigger a promotion (Range, a missing Load, a Store of another key), and a thread making
	// two calls (delete / re-store / new key / read)
	{
		t1 := []call{{"Store", 0}, {"LoadOrStore", 0}, {"LoadAndDelete", 0}}
		t2 := []call{{"Range", 0}, {"Load", 2}, {"Store", 1}}
		t3a := []call{{"LoadAndDelete", 0}, {"Store", 1}, {"Store", 0}, {"Load", 0}, {"Range", 0}, {"Delete", 0}}
		for n, li := range layouts { // BFS order: the shallowest layouts first
			if n >= ev.Pick(r, 12, 40) {
				break
			}
			for _, a := range t1 {
				for _, b := range t2 {
					for _, c1 := range t3a {
						for _, c2 := range t3a {
							if c1 == c2 && c1.op != "Store" {
								continue
							}
							if !r.Thorough() && !(c1.op == "LoadAndDelete" || c1.op == "Delete" || c2.op == "Store") {
								continue
							}
							scs = append(scs, scenario(li, [][]call{{a}, {b}, {c1, c2}}, 2, -2))
						}
					}
				}
			}
		}
	}
	// a third key: three threads on three different keys plus Range / same-key conflicts
	third := []call{{"Store", 2}, {"Load", 2}, {"LoadOrStore", 2}, {"LoadAndDelete", 2}}
	for n, li := range some {
		if !r.Thorough() && n%2 == 1 {
			continue
		}
		for _, c := range third {
			for _, ab := range [][2]call{{{"Store", 0}, {"Store", 1}}, {{"LoadOrStore", 0}, {"Range", 0}}, {{"LoadAndDelete", 0}, {"Load", 1}}, {{"Store", 2}, {"Range", 0}}, {{"LoadAndDelete", 2}, {"LoadOrStore", 2}}} {
				scs = append(scs, scenario(li, [][]call{{ab[0]}, {ab[1]}, {c}}, ev.Pick(r, 2, 3), -2))
			}
		}
	}
	// crowded maps: the same small layouts inside a map that already holds 8..64 other keys, stored
	// and either promoted to the read map or still in the dirty map (size-dependent promotion
	// thresholds, map growth)
	for _, crowd := range []int{8, 16, 33, 64} {
		for _, promoted := range []bool{true, false} {
			for n, li := range some {
				if n%3 != 0 {
					continue
				}
				cl := layout{name: fmt.Sprintf("crowd%d/promoted=%v/%s", crowd, promoted, li.name)}
				for k := 0; k < crowd; k++ {
					cl.pre = append(cl.pre, seqmc.Op{Name: "Store", A: 100 + k, B: 1})
				}
				if promoted {
					cl.pre = append(cl.pre, seqmc.Op{Name: "Range"})
				}
				cl.pre = append(cl.pre, li.pre...)
				for _, pp := range [][][]call{
					{{{"Store", 0}}, {{"Load", 0}}},
					{{{"LoadOrStore", 0}}, {{"LoadAndDelete", 0}}},
					{{{"Store", 1}}, {{"Range", 0}}},
					{{{"Load", 2}, {"Load", 2}}, {{"Store", 0}, {"Load", 0}}},
					{{{"LoadAndDelete", 0}, {"Store", 0}}, {{"Store", 1}, {"Load", 0}}},
				} {
					scs = append(scs, scenario(cl, pp, ev.Pick(r, 2, 3), -2))
				}
			}
		}
	}
	if r.Thorough() {
		// every reachable layout of a THREE-key map as start state: every pair of calls over 3 keys
		alpha3 := append([]call{}, alphabet...)
		alpha3 = append(alpha3, call{"Load", 2}, call{"Store", 2}, call{"LoadOrStore", 2}, call{"LoadAndDelete", 2})
		for _, li := range allLayouts(r, 3) {
			for i, a := range alpha3 {
				for _, b := range alpha3[i:] {
					if a.k != 2 && b.k != 2 && a.op != "Range" && b.op != "Range" {
						continue // pairs without the third key are covered from the 2-key layouts
					}
					scs = append(scs, scenario(li, [][]call{{a}, {b}}, -1, -2))
				}
			}
		}
		// 3 threads x 2 calls and 1 call against 3 calls, from the shallowest layouts
		progs := [][]call{{{"Store", 0}, {"Load", 0}}, {{"LoadAndDelete", 0}, {"Store", 0}}, {{"LoadOrStore", 0}, {"LoadAndDelete", 0}}, {{"Store", 1}, {"Range", 0}}, {{"Load", 2}, {"Load", 2}}}
		long3 := [][]call{{{"Range", 0}, {"LoadAndDelete", 0}, {"Store", 1}}, {{"Load", 2}, {"Load", 2}, {"Store", 0}}, {{"Store", 1}, {"LoadAndDelete", 0}, {"Store", 0}}, {{"LoadAndDelete", 0}, {"Store", 1}, {"Store", 0}}, {{"Store", 0}, {"Range", 0}, {"LoadOrStore", 0}}}
		for n, li := range layouts {
			if n >= 12 {
				break
			}
			for i, a := range progs {
				for j, b := range progs[i:] {
					for _, c := range progs[i+j:] {
						scs = append(scs, scenario(li, [][]call{a, b, c}, 2, -2))
					}
				}
			}
			for _, a := range []call{{"Store", 0}, {"LoadOrStore", 0}, {"LoadAndDelete", 0}, {"Load", 0}, {"Range", 0}} {
				for _, l := range long3 {
					scs = append(scs, scenario(li, [][]call{{a}, l}, 3, -2))
				}
			}
		}
	}
	// 4 threads x 1 call (thorough): bound 1
	if r.Thorough() {
		four := []call{{"Load", 0}, {"Store", 0}, {"LoadOrStore", 0}, {"LoadAndDelete", 0}, {"Store", 1}}
		for _, li := range some {
			for i, a := range four {
				for j, b := range four[i:] {
					for k, c := range four[i+j:] {
						for _, d := range four[i+j+k:] {
							scs = append(scs, scenario(li, [][]call{{a}, {b}, {c}, {d}}, 1, -2))
						}
					}
				}
			}
		}
	}
	r.Set("start_layouts", len(layouts))
	schk.WorkerExtra = func() map[string]int64 {
		return map[string]int64{"distinct_histories_judged_by_porcupine": int64(lin.Distinct())}
	}
	schk.Main(r, scs, ev.Pick(r, 45*time.Second, 1200*time.Second), func(r *ev.Run) {
		if pf := os.Getenv("VERIF_SEQ_PARTIAL"); pf != "" {
			r.Absorb(pf, "seq_")
		}
		add := func(k string) {
			a, _ := r.Cov[k].(int64)
			switch b := r.Cov["seq_"+k].(type) {
			case float64:
				r.Cov[k] = a + int64(b)
			}
		}
		add("states")
		add("transitions")
		r.Set("rule", "(a) sequential: explicit-state BFS to fixpoint over the real sync2.Map (plain build), alphabet Load/Store/LoadOrStore/LoadAndDelete/Delete x keys x values {1,2}, Range full and stopping after one call, Load of a never-stored key; state = fingerprint of the complete concrete layout (read map, dirty map, amended, misses, nil/expunged/live entries) plus contents; oracle map[K]V. (b) concurrent: controlled scheduler over the instrumented build, from EVERY reachable concrete layout of a 2-key map (computed by the same explicit-state search; a spread-out subset of them for the larger programs): every unordered pair of single calls from the 11-call alphabet over keys {a,b} under ALL interleavings; multisets of three single calls and pairs of two-call programs under a preemption bound; Range calls whose callback itself calls Store/LoadOrStore/Delete/Load on the same map (alone from every layout, and against every single call of a second thread); every complete execution's call/return history (Range decomposed into per-key pseudo-loads inside its interval, final contents read after quiescence) checked for linearizability with porcupine; the pair scenarios also run under the race detector inside every explored schedule")
		r.Assume("Go's atomics are sequentially consistent, so interleaving at the granularity of atomic/mutex operations is exact; memory orderings below the Go memory model are not modelled")
	})
}
