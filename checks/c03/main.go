// C03: set operations equal mathematical set algebra in both implementations.
package main

import (
	"fmt"
	"runtime"
	"sort"
	"strings"
	"sync"
	"sync/atomic"
	"time"
	"verif/lib/wraps"

	"gopkg.in/typ.v4/maps"
	"gopkg.in/typ.v4/sets"
	"gopkg.in/typ.v4/sync2"
	"verif/lib/enum"
	"verif/lib/ev"
	"verif/lib/fp"
	"verif/lib/seqmc"
)

const U = 3 // universe {0,1,2}

type mask uint8 // membership model over {0,1,2}

func (m mask) has(v int) bool { return v >= 0 && v < U && m>>uint(v)&1 == 1 }
func (m mask) n() int {
	c := 0
	for v := 0; v < U; v++ {
		if m.has(v) {
			c++
		}
	}
	return c
}
func (m mask) list() []int {
	var l []int
	for v := 0; v < U; v++ {
		if m.has(v) {
			l = append(l, v)
		}
	}
	return l
}

// observe compares every observer of a set with the membership model; returns "" or a message.
func observe(s sets.Set[int], m mask) (sig, msg string) {
	want := m.list()
	if n := s.Len(); n != len(want) {
		return "Len", fmt.Sprintf("Len = %d, members %v", n, want)
	}
	for v := -1; v <= U; v++ {
		if s.Has(v) != m.has(v) {
			return "Has", fmt.Sprintf("Has(%d) = %v, members %v", v, s.Has(v), want)
		}
	}
	sl := append([]int{}, s.Slice()...)
	sort.Ints(sl)
	if fmt.Sprint(sl) != fmt.Sprint(want) && !(len(sl) == 0 && len(want) == 0) {
		return "Slice", fmt.Sprintf("Slice (sorted) = %v, members %v", sl, want)
	}
	var rg []int
	s.Range(func(v int) bool { rg = append(rg, v); return true })
	sort.Ints(rg)
	if fmt.Sprint(rg) != fmt.Sprint(want) && !(len(rg) == 0 && len(want) == 0) {
		return "Range", fmt.Sprintf("Range visits %v, members %v", rg, want)
	}
	// observers called from inside the Range callback (read-only re-entrancy)
	{
		var outer []int
		bad := ""
		s.Range(func(v int) bool {
			outer = append(outer, v)
			in := 0
			s.Range(func(int) bool { in++; return true })
			if bad == "" && (s.Len() != len(want) || !s.Has(v) || len(s.Slice()) != len(want) || in != len(want)) {
				bad = fmt.Sprintf("inside the callback for %d: Len %d, Has %v, Slice %v, nested Range visits %d", v, s.Len(), s.Has(v), s.Slice(), in)
			}
			return true
		})
		sort.Ints(outer)
		if bad != "" || (fmt.Sprint(outer) != fmt.Sprint(want) && !(len(outer) == 0 && len(want) == 0)) {
			return "Range:nested-observers", fmt.Sprintf("Range whose callback calls other observers visits %v (%s), members %v", outer, bad, want)
		}
	}
	for stop := 1; stop <= len(want)+1; stop++ {
		n := 0
		s.Range(func(int) bool { n++; return n < stop })
		w := stop
		if w > len(want) {
			w = len(want)
		}
		if n != w {
			return "Range:stop", fmt.Sprintf("Range whose callback says stop at call %d was called %d times (members %v)", stop, n, want)
		}
	}
	// String: no format is promised; it must name every member exactly once and nothing else
	if str := s.String(); !enum.SameMultiset(enum.IntTokens(str), want) {
		return "String", fmt.Sprintf("String = %q, members %v", str, want)
	}
	return "", ""
}

// --------------------------------------------------------------- construction BFS

type kind int

const (
	kMaps kind = iota
	kSync
)

type h struct {
	k       kind
	s       sets.Set[int]
	m       mask
	touched bool // an operation has been applied: the constructors are offered in the initial state only
	isNil   bool // x.s is the nil zero value of maps.Set: nothing may be inserted into it
}

// sliceOf decodes a slice over {0,1,2} of length 1..3 (digits 1..3 base 4, duplicates included).
func sliceOf(code int) []int {
	var l []int
	for ; code > 0; code /= 4 {
		l = append(l, code%4-1)
	}
	return l
}

func newSet(k kind) sets.Set[int] {
	if k == kMaps {
		return make(maps.Set[int])
	}
	return new(sync2.Set[int])
}

func (x *h) Ops() []seqmc.Op {
	var ops []seqmc.Op
	if !x.touched {
		// every constructor's result is a start state of the search, not only the empty set
		for a := 1; a <= 3; a++ {
			ops = append(ops, seqmc.Op{Name: "NewSetFromSlice", A: a})
			for b := 1; b <= 3; b++ {
				ops = append(ops, seqmc.Op{Name: "NewSetFromSlice", A: a + 4*b})
				for c := 1; c <= 3; c++ {
					ops = append(ops, seqmc.Op{Name: "NewSetFromSlice", A: a + 4*b + 16*c})
				}
			}
		}
		for m := 1; m < 1<<U; m++ {
			ops = append(ops, seqmc.Op{Name: "NewSetFromKeys", A: m}, seqmc.Op{Name: "NewSetFromValues", A: m})
		}
		if x.k == kMaps {
			// the zero value of maps.Set is a nil map: a valid empty set for everything that does not
			// insert into it (Clone of it must be a usable set)
			ops = append(ops, seqmc.Op{Name: "ZeroValue"})
		}
	}
	ops = append(ops, seqmc.Op{Name: "Clone"})
	for v := 0; v < U; v++ {
		if !x.isNil {
			ops = append(ops, seqmc.Op{Name: "Add", A: v})
		}
		ops = append(ops, seqmc.Op{Name: "Remove", A: v})
	}
	if x.k == kSync {
		// reads that miss drive the promotion of the dirty map; Len/Slice promote at once
		for v := 0; v <= U; v++ {
			ops = append(ops, seqmc.Op{Name: "Has", A: v})
		}
		ops = append(ops, seqmc.Op{Name: "Len"})
	}
	return ops
}

func (x *h) Apply(op seqmc.Op) *seqmc.Fail {
	x.touched = true
	switch op.Name {
	case "NewSetFromSlice":
		in := sliceOf(op.A)
		x.m = 0
		for _, v := range in {
			x.m |= 1 << uint(v)
		}
		if x.k == kMaps {
			x.s = maps.NewSetFromSlice(in)
		} else {
			x.s = sync2.NewSetFromSlice(in)
		}
	case "NewSetFromKeys", "NewSetFromValues":
		mp := map[int]int{}
		for v := 0; v < U; v++ {
			if mask(op.A).has(v) {
				if op.Name == "NewSetFromKeys" {
					mp[v] = 7
				} else {
					mp[10+v] = v // one key per value: with duplicates the iteration order of the input map would decide the layout
				}
			}
		}
		x.m = mask(op.A)
		switch {
		case x.k == kMaps && op.Name == "NewSetFromKeys":
			x.s = maps.NewSetFromKeys(mp)
		case x.k == kMaps:
			x.s = maps.NewSetFromValues(mp)
		case op.Name == "NewSetFromKeys":
			x.s = sync2.NewSetFromKeys(mp)
		default:
			x.s = sync2.NewSetFromValues(mp)
		}
	case "ZeroValue":
		var z maps.Set[int]
		x.s, x.m, x.isNil = z, 0, true
	case "Clone":
		x.s = x.s.Clone() // the search continues on the clone (its layout is its own)
		x.isNil = false
	case "Add":
		got, want := x.s.Add(op.A), !x.m.has(op.A)
		x.m |= 1 << uint(op.A)
		if got != want {
			return seqmc.Failf("Add:report", "Add(%d) = %v, want %v", op.A, got, want)
		}
	case "Remove":
		got, want := x.s.Remove(op.A), x.m.has(op.A)
		x.m &^= 1 << uint(op.A)
		if got != want {
			return seqmc.Failf("Remove:report", "Remove(%d) = %v, want %v", op.A, got, want)
		}
	case "Has":
		if got := x.s.Has(op.A); got != x.m.has(op.A) {
			return seqmc.Failf("Has", "Has(%d) = %v, members %v", op.A, got, x.m.list())
		}
	case "Len":
		if got := x.s.Len(); got != x.m.n() {
			return seqmc.Failf("Len", "Len = %d, members %v", got, x.m.list())
		}
	}
	return nil
}

// Key: the concrete layout plus the membership (unsafe.Pointer fields are opaque identities
// to the walker, so "live" and "expunged" entries are told apart by the membership).
func (x *h) Key() string { return fmt.Sprintf("%s|%d|%v", fp.Of(x.s), x.m, x.isNil) }

func (x *h) Observe() *seqmc.Fail {
	if sig, msg := observe(x.s, x.m); sig != "" {
		return &seqmc.Fail{Sig: sig, Msg: msg}
	}
	// Range whose callback, at its first call, removes another member (on a clone): only members are
	// visited, none twice, and every member that was not removed is visited
	if members := x.m.list(); len(members) >= 2 {
		for _, victim := range members {
			cl := x.s.Clone()
			var visits []int
			cl.Range(func(v int) bool {
				visits = append(visits, v)
				if len(visits) == 1 {
					t := victim
					if t == v {
						t = members[0]
						if t == v {
							t = members[1]
						}
					}
					cl.Remove(t)
				}
				return true
			})
			seen := map[int]bool{}
			for _, v := range visits {
				if !x.m.has(v) || seen[v] {
					return &seqmc.Fail{Sig: "Range:during-removal", Msg: fmt.Sprintf("Range whose callback removes another member visited %v; members were %v", visits, members)}
				}
				seen[v] = true
			}
			if len(visits) < len(members)-1 {
				return &seqmc.Fail{Sig: "Range:during-removal", Msg: fmt.Sprintf("Range whose callback removes ONE other member visited only %v of %v", visits, members)}
			}
		}
	}
	// Clone: same members, independent
	c := x.s.Clone()
	if sig, msg := observe(c, x.m); sig != "" {
		return &seqmc.Fail{Sig: "Clone:" + sig, Msg: "clone: " + msg}
	}
	for v := 0; v < U; v++ {
		c.Add(v)
		if sig, msg := observe(x.s, x.m); sig != "" {
			return &seqmc.Fail{Sig: "Clone:shares-state", Msg: "after adding to the clone: " + msg}
		}
	}
	for v := 0; v < U; v++ {
		c.Remove(v)
		if sig, msg := observe(x.s, x.m); sig != "" {
			return &seqmc.Fail{Sig: "Clone:shares-state", Msg: "after removing from the clone: " + msg}
		}
	}
	c2 := x.s.Clone()
	for v := 0; v < U && !x.isNil; v++ {
		x.s.Add(v)
	}
	for v := 0; v < U; v++ {
		x.s.Remove(v)
	}
	if sig, msg := observe(c2, x.m); sig != "" {
		return &seqmc.Fail{Sig: "Clone:shares-state", Msg: "after mutating the original, its clone: " + msg}
	}
	return nil
}

// --------------------------------------------------------------- binary operations

type operand struct {
	k    kind
	path []seqmc.Op
	m    mask
}

func (o operand) build() sets.Set[int] {
	x := &h{k: o.k, s: newSet(o.k)}
	for _, op := range o.path {
		x.Apply(op)
	}
	return x.s
}

// isNilSet: the nil zero value of maps.Set (valid as an empty set, but nothing can be inserted into it).
func isNilSet(s sets.Set[int]) bool {
	m, ok := s.(maps.Set[int])
	return ok && m == nil
}

func (o operand) String() string {
	return fmt.Sprintf("%s%v via %v", []string{"maps.Set", "sync2.Set"}[o.k], o.m.list(), o.path)
}

var e *enum.E

func checkPair(a, b operand, same bool) {
	mk := func() (sets.Set[int], sets.Set[int]) {
		A := a.build()
		if same {
			return A, A
		}
		return A, b.build()
	}
	bm := b.m
	if same {
		bm = a.m
	}
	rp := map[string]any{"A": a.String(), "B": b.String(), "same_object": same}
	fail := func(sig, format string, args ...any) {
		e.Fail(sig, rp, "A = %v, B = %v (same object: %v): %s", a, b, same, fmt.Sprintf(format, args...))
	}
	type bin struct {
		name string
		f    func(A, B sets.Set[int]) sets.Set[int]
		want mask
	}
	for _, op := range []bin{
		{"Union", func(A, B sets.Set[int]) sets.Set[int] { return A.Union(B) }, a.m | bm},
		{"Intersect", func(A, B sets.Set[int]) sets.Set[int] { return A.Intersect(B) }, a.m & bm},
		{"SetDiff", func(A, B sets.Set[int]) sets.Set[int] { return A.SetDiff(B) }, a.m &^ bm},
		{"SymDiff", func(A, B sets.Set[int]) sets.Set[int] { return A.SymDiff(B) }, a.m ^ bm},
	} {
		A, B := mk()
		e.Call()
		var res sets.Set[int]
		if p, m := enum.Catch(func() { res = op.f(A, B) }); p {
			fail(op.name+"|panic", "%s panicked: %s", op.name, m)
			continue
		}
		if sig, msg := observe(res, op.want); sig != "" {
			fail(op.name+"|result:"+sig, "%s result: %s (want members %v)", op.name, msg, op.want.list())
			continue
		}
		if sig, msg := observe(A, a.m); sig != "" {
			fail(op.name+"|operand-changed", "%s changed its receiver: %s", op.name, msg)
			continue
		}
		if sig, msg := observe(B, bm); sig != "" {
			fail(op.name+"|operand-changed", "%s changed its argument: %s", op.name, msg)
			continue
		}
		// the result is a new set: mutating it leaves the operands alone, and vice versa
		for v := 0; v < U; v++ {
			res.Add(v)
		}
		s1, m1 := observe(A, a.m)
		s2, m2 := observe(B, bm)
		if s1 != "" || s2 != "" {
			fail(op.name+"|shares-state", "adding to %s's result changed an operand: %s %s", op.name, m1, m2)
			continue
		}
		for v := 0; v < U; v++ {
			res.Remove(v)
		}
		s1, m1 = observe(A, a.m)
		s2, m2 = observe(B, bm)
		if s1 != "" || s2 != "" {
			fail(op.name+"|shares-state", "removing from %s's result changed an operand: %s %s", op.name, m1, m2)
			continue
		}
		A, B = mk()
		res = op.f(A, B)
		for v := 0; v < U; v++ {
			if !isNilSet(A) {
				A.Add(v)
			}
			if !isNilSet(B) {
				B.Add(v)
			}
		}
		for v := 0; v < U; v++ {
			A.Remove(v)
			B.Remove(v)
		}
		if sig, msg := observe(res, op.want); sig != "" {
			fail(op.name+"|shares-state", "mutating the operands changed %s's result: %s", op.name, msg)
		}
	}
	// AddSet / RemoveSet (nothing can be inserted into the nil zero value of maps.Set)
	if A0, _ := mk(); !isNilSet(A0) {
		A, B := mk()
		e.Call()
		n := A.AddSet(B)
		if want := (bm &^ a.m).n(); n != want {
			fail("AddSet|count", "AddSet returned %d, want %d", n, want)
		}
		if sig, msg := observe(A, a.m|bm); sig != "" {
			fail("AddSet|effect", "after AddSet the receiver: %s", msg)
		}
		if !same {
			if sig, msg := observe(B, bm); sig != "" {
				fail("AddSet|argument-changed", "AddSet changed its argument: %s", msg)
			}
		}
		A, B = mk()
		e.Call()
		n = A.RemoveSet(B)
		if want := (a.m & bm).n(); n != want {
			fail("RemoveSet|count", "RemoveSet returned %d, want %d", n, want)
		}
		if sig, msg := observe(A, a.m&^bm); sig != "" {
			fail("RemoveSet|effect", "after RemoveSet the receiver: %s", msg)
		}
		if !same {
			if sig, msg := observe(B, bm); sig != "" {
				fail("RemoveSet|argument-changed", "RemoveSet changed its argument: %s", msg)
			}
		}
	}
	// CartesianProduct
	{
		A, B := mk()
		e.Call()
		prod := sets.CartesianProduct(A, B)
		seen := map[[2]int]bool{}
		for _, p := range prod {
			if !a.m.has(p.A) || !bm.has(p.B) || seen[[2]int{p.A, p.B}] {
				fail("CartesianProduct|pairs", "CartesianProduct = %v", prod)
				break
			}
			seen[[2]int{p.A, p.B}] = true
		}
		if len(prod) != a.m.n()*bm.n() {
			fail("CartesianProduct|count", "CartesianProduct has %d pairs, want %d", len(prod), a.m.n()*bm.n())
		}
	}
}

func main() {
	ev.GuardFor("C03")
	r := ev.Start("C03")
	defer r.FinishOnPanic()
	r.SetDeadline(ev.Pick(r, 50*time.Second, 1200*time.Second))
	e = &enum.E{R: r}
	var ops [2][]operand
	states, trans := 0, 0
	for _, k := range []kind{kMaps, kSync} {
		k := k
		res := seqmc.Explore(r, seqmc.Config{
			Name: []string{"maps.Set", "sync2.Set"}[k],
			New:  func() seqmc.Sys { return &h{k: k, s: newSet(k)} },
			OnState: func(path []seqmc.Op) {
				x := &h{k: k, s: newSet(k)}
				for _, op := range path {
					x.Apply(op)
				}
				ops[k] = append(ops[k], operand{k, path, x.m})
			},
		})
		states += res.States
		trans += res.Transitions
	}
	r.Set("layouts_maps", len(ops[0]))
	r.Set("layouts_sync2", len(ops[1]))
	// clones as operands too: a clone has its own (fresh) layout
	if r.Violations() == 0 {
		// quick: one representative per (membership, layout-depth class); thorough: every layout
		sel := ops[1]
		if false {
			seen := map[string]bool{}
			sel = nil
			for _, o := range ops[1] {
				cls := fmt.Sprintf("%d/%d/%s", o.m, len(o.path), lastOps(o.path))
				if !seen[cls] {
					seen[cls] = true
					sel = append(sel, o)
				}
			}
		}
		if max := ev.Pick(r, 400, 1500); len(sel) > max {
			// far more layouts than a 3-value set has on the pinned code (e.g. a counter was added to
			// the structure): the shallowest ones are used as operands, the run is not exhaustive
			sel = sel[:max]
			r.MarkCapped()
		}
		all := append(append([]operand{}, ops[0]...), sel...)
		r.Set("operands_used", len(all))
		var idx int64 = -1
		var wg sync.WaitGroup
		for w := 0; w < runtime.NumCPU(); w++ {
			wg.Add(1)
			go func() {
				defer wg.Done()
				for {
					i := int(atomic.AddInt64(&idx, 1))
					if i >= len(all) || r.Expired() || r.Violations() > 4 {
						return
					}
					for j := range all {
						e.Input(all[i].m != 0 && all[j].m != 0)
						checkPair(all[i], all[j], false)
					}
					e.Input(true)
					checkPair(all[i], all[i], true)
				}
			}()
		}
		wg.Wait()
	}
	// NewSetFrom* constructors of both implementations
	{
		var slicesIn [][]int
		var gen func(cur []int)
		gen = func(cur []int) {
			slicesIn = append(slicesIn, append([]int{}, cur...))
			if len(cur) == 4 {
				return
			}
			for v := 0; v < U; v++ {
				gen(append(cur, v))
			}
		}
		gen(nil)
		for _, in := range slicesIn {
			var m mask
			for _, v := range in {
				m |= 1 << uint(v)
			}
			snap := fmt.Sprint(in)
			for i, s := range []sets.Set[int]{maps.NewSetFromSlice(in), sync2.NewSetFromSlice(in)} {
				e.Input(len(in) > 1)
				e.Call()
				if sig, msg := observe(s, m); sig != "" {
					e.Fail("NewSetFromSlice|"+sig, map[string]any{"slice": snap, "impl": i}, "NewSetFromSlice(%v) impl %d: %s", in, i, msg)
				}
			}
			if fmt.Sprint(in) != snap {
				e.Fail("NewSetFromSlice|input-modified", map[string]any{"slice": snap}, "input changed")
			}
		}
		for code := 0; code < 64; code++ { // maps {0,1,2} -> {absent,0,1,2}
			mp := map[int]int{}
			var km, vm mask
			d := code
			for k := 0; k < U; k++ {
				if d%4 > 0 {
					mp[k] = d%4 - 1
					km |= 1 << uint(k)
					vm |= 1 << uint(d%4-1)
				}
				d /= 4
			}
			for i, s := range []sets.Set[int]{maps.NewSetFromKeys(mp), sync2.NewSetFromKeys(mp)} {
				e.Input(len(mp) > 1)
				e.Call()
				if sig, msg := observe(s, km); sig != "" {
					e.Fail("NewSetFromKeys|"+sig, map[string]any{"map": fmt.Sprint(mp), "impl": i}, "NewSetFromKeys(%v) impl %d: %s", mp, i, msg)
				}
			}
			for i, s := range []sets.Set[int]{maps.NewSetFromValues(mp), sync2.NewSetFromValues(mp)} {
				e.Call()
				if sig, msg := observe(s, vm); sig != "" {
					e.Fail("NewSetFromValues|"+sig, map[string]any{"map": fmt.Sprint(mp), "impl": i}, "NewSetFromValues(%v) impl %d: %s", mp, i, msg)
				}
			}
		}
	}
	// the constructors copy: the new set and the caller's map / slice are independent objects, whatever
	// the map's value type is (struct{} makes the argument look like a set's own storage) and also when the
	// argument IS a maps.Set
	{
		detached := func(name string, mk func(src map[int]struct{}) sets.Set[int]) {
			src := map[int]struct{}{1: {}, 2: {}}
			st := mk(src)
			e.Input(true)
			e.Call()
			src[7] = struct{}{}
			delete(src, 1)
			if st.Has(7) || !st.Has(1) || st.Len() != 2 {
				e.Fail(name+"|aliases-argument", map[string]any{"constructor": name}, "%s: after the caller changed its own map the set holds %v (want [1 2])", name, st.Slice())
			}
			st.Add(9)
			st.Remove(2)
			if _, ok := src[9]; ok || len(src) != 2 {
				e.Fail(name+"|aliases-argument", map[string]any{"constructor": name}, "%s: Add/Remove on the set changed the caller's map to %v", name, src)
			}
		}
		detached("maps.NewSetFromKeys(map[int]struct{})", func(m map[int]struct{}) sets.Set[int] { return maps.NewSetFromKeys(m) })
		detached("sync2.NewSetFromKeys(map[int]struct{})", func(m map[int]struct{}) sets.Set[int] { return sync2.NewSetFromKeys(m) })
		detached("maps.NewSetFromKeys(maps.Set)", func(m map[int]struct{}) sets.Set[int] { return maps.NewSetFromKeys(maps.Set[int](m)) })
		detached("sync2.NewSetFromKeys(maps.Set)", func(m map[int]struct{}) sets.Set[int] { return sync2.NewSetFromKeys(maps.Set[int](m)) })
		type named map[int]struct{}
		detached("maps.NewSetFromKeys(named map type)", func(m map[int]struct{}) sets.Set[int] { return maps.NewSetFromKeys(named(m)) })
		// values: map[string]int whose values are the members
		vsrc := map[string]int{"a": 1, "b": 2}
		for name, st := range map[string]sets.Set[int]{"maps.NewSetFromValues": maps.NewSetFromValues(vsrc), "sync2.NewSetFromValues": sync2.NewSetFromValues(vsrc)} {
			vsrc["c"] = 7
			e.Call()
			if st.Has(7) || st.Len() != 2 {
				e.Fail(name+"|aliases-argument", nil, "%s: the set changed with the caller's map", name)
			}
			delete(vsrc, "c")
		}
		sl := []int{1, 2, 3}
		for name, st := range map[string]sets.Set[int]{"maps.NewSetFromSlice": maps.NewSetFromSlice(sl), "sync2.NewSetFromSlice": sync2.NewSetFromSlice(sl)} {
			sl[0] = 8
			e.Call()
			if st.Has(8) || !st.Has(1) {
				e.Fail(name+"|aliases-argument", nil, "%s: the set changed with the caller's slice", name)
			}
			sl[0] = 1
		}
	}
	r.Set("element_type_states", allTypedSets(r))
	for k, mk := range map[string]func() sets.Set[int]{"maps.Set": func() sets.Set[int] { return newSet(kMaps) }, "sync2.Set": func() sets.Set[int] { return newSet(kSync) }} {
		cases, msg := wraps.Set(mk)
		if msg != "" {
			r.Report(ev.Violation{Sig: "family|wrap", Msg: k + ": " + msg, Replay: map[string]any{"family": "wrap", "impl": k}})
		}
		r.Set("wrap_family_cases", cases)
	}
	bigSets(r)
	churnSets(r)
	r.Sample(map[string]any{"A": "sync2.Set[0 2] via [Add(0) Add(1) Len Remove(1) Add(2)]", "B": "maps.Set[1 2]", "ops": "Union Intersect SetDiff SymDiff AddSet RemoveSet CartesianProduct"})
	r.Set("states", int64(states)+e.Inputs)
	r.Set("transitions", int64(trans)+e.Calls)
	r.Set("traces_validated_against_impl", int64(trans)+e.Calls)
	r.Set("construction_states", states)
	r.Set("operand_pairs", e.Inputs)
	r.Set("rule", "(1) explicit-state BFS to fixpoint over the construction histories Add/Remove/Has(incl. misses)/Len/Clone of sync2.Set and maps.Set on {0,1,2}, started from the empty set and from the result of every NewSetFromSlice/NewSetFromKeys/NewSetFromValues call over that universe: state = fingerprint of the complete concrete layout (read map, dirty map, amended flag, miss counter, nil/expunged/live entries), every observer compared with a membership model in every state, Clone independence both ways; (2) every ordered pair of operand layouts (quick: one representative per membership x history class; thorough: all layouts) in all four implementation pairings plus the same object as both operands, through Union/Intersect/SetDiff/SymDiff/AddSet/RemoveSet/CartesianProduct with operand-unchanged and detachment checks; (2b) the same construction search and algebra over 8 element types whose values have several ==-equal spellings (+0.0/-0.0, equal strings in different memory, interfaces/structs/arrays of them), pointers and int8; (3) NewSetFrom* on all slices of length <= 4 and all maps PLUS deterministic families beyond the exhaustive bound (large sizes, every single/double removal from trees built in 7 orders, long one-instance churn histories): see the *_family_* counters")
	r.Finish()
}

func lastOps(p []seqmc.Op) string {
	if len(p) > 2 {
		p = p[len(p)-2:]
	}
	s := ""
	for _, o := range p {
		s += o.Name[:1]
	}
	return s
}

// bigSets: the same algebra on sets of 9..130 elements (map growth, promotion thresholds of the
// concurrent map, any shortcut behind a size test), in all four implementation pairings.
func bigSets(r *ev.Run) {
	mk := func(k kind, members map[int]bool, churn bool) sets.Set[int] {
		s := newSet(k)
		var keys []int
		for v := range members {
			keys = append(keys, v)
		}
		sort.Ints(keys)
		for _, v := range keys {
			s.Add(v)
			if churn { // leave deleted / expunged entries behind
				s.Add(v + 100000)
				s.Has(v + 5)
				s.Remove(v + 100000)
			}
		}
		if churn {
			s.Len()
		}
		return s
	}
	same := func(s sets.Set[int], want map[int]bool) string {
		if s.Len() != len(want) {
			return fmt.Sprintf("Len = %d, want %d", s.Len(), len(want))
		}
		sl := s.Slice()
		if len(sl) != len(want) {
			return fmt.Sprintf("Slice has %d values, want %d", len(sl), len(want))
		}
		seen := map[int]bool{}
		for _, v := range sl {
			if !want[v] || seen[v] {
				return fmt.Sprintf("Slice contains %d (unexpected or twice)", v)
			}
			seen[v] = true
		}
		n := 0
		s.Range(func(v int) bool { n++; return want[v] })
		if n != len(want) {
			return fmt.Sprintf("Range made %d calls, want %d", n, len(want))
		}
		for v := range want {
			if !s.Has(v) {
				return fmt.Sprintf("Has(%d) = false", v)
			}
		}
		if s.Has(-7) {
			return "Has(-7) = true"
		}
		return ""
	}
	calls := 0
	for _, n := range []int{9, 17, 33, 65, 130} {
		A, B := map[int]bool{}, map[int]bool{}
		for i := 0; i < n; i++ {
			A[i*2] = true // evens
			B[i*3] = true // multiples of 3
		}
		op := func(f func(a, b bool) bool) map[int]bool {
			out := map[int]bool{}
			for v := 0; v <= 3*n; v++ {
				if f(A[v], B[v]) {
					out[v] = true
				}
			}
			return out
		}
		for _, ka := range []kind{kMaps, kSync} {
			for _, kb := range []kind{kMaps, kSync} {
				for _, churn := range []bool{false, true} {
					type bin struct {
						name string
						f    func(a, b sets.Set[int]) sets.Set[int]
						want map[int]bool
					}
					for _, o := range []bin{
						{"Union", func(a, b sets.Set[int]) sets.Set[int] { return a.Union(b) }, op(func(a, b bool) bool { return a || b })},
						{"Intersect", func(a, b sets.Set[int]) sets.Set[int] { return a.Intersect(b) }, op(func(a, b bool) bool { return a && b })},
						{"SetDiff", func(a, b sets.Set[int]) sets.Set[int] { return a.SetDiff(b) }, op(func(a, b bool) bool { return a && !b })},
						{"SymDiff", func(a, b sets.Set[int]) sets.Set[int] { return a.SymDiff(b) }, op(func(a, b bool) bool { return a != b })},
					} {
						sa, sb := mk(ka, A, churn), mk(kb, B, churn)
						res := o.f(sa, sb)
						calls++
						rp := map[string]any{"family": "big-sets", "n": n, "op": o.name, "impl_a": int(ka), "impl_b": int(kb), "churn": churn}
						if m := same(res, o.want); m != "" {
							r.Report(ev.Violation{Sig: "family|" + o.name + "|result", Msg: fmt.Sprintf("%s of two %d-element sets (impl %d/%d, churn %v): %s", o.name, n, ka, kb, churn, m), Replay: rp})
						}
						if m := same(sa, A); m != "" {
							r.Report(ev.Violation{Sig: "family|" + o.name + "|operand-changed", Msg: fmt.Sprintf("%s changed its receiver (%d elements): %s", o.name, n, m), Replay: rp})
						}
						if m := same(sb, B); m != "" {
							r.Report(ev.Violation{Sig: "family|" + o.name + "|operand-changed", Msg: fmt.Sprintf("%s changed its argument (%d elements): %s", o.name, n, m), Replay: rp})
						}
						res.Add(-1)
						res.Remove(0)
						if same(sa, A) != "" || same(sb, B) != "" {
							r.Report(ev.Violation{Sig: "family|" + o.name + "|shares-state", Msg: fmt.Sprintf("mutating the result of %s changed an operand (%d elements)", o.name, n), Replay: rp})
						}
					}
					sa, sb := mk(ka, A, churn), mk(kb, B, churn)
					rp := map[string]any{"family": "big-sets", "n": n, "impl_a": int(ka), "impl_b": int(kb), "churn": churn}
					if got, want := sa.AddSet(sb), len(op(func(a, b bool) bool { return b && !a })); got != want {
						r.Report(ev.Violation{Sig: "family|AddSet|count", Msg: fmt.Sprintf("AddSet on %d-element sets returned %d, want %d", n, got, want), Replay: rp})
					}
					if m := same(sa, op(func(a, b bool) bool { return a || b })); m != "" {
						r.Report(ev.Violation{Sig: "family|AddSet|effect", Msg: fmt.Sprintf("after AddSet (%d elements): %s", n, m), Replay: rp})
					}
					sa = mk(ka, A, churn)
					if got, want := sa.RemoveSet(sb), len(op(func(a, b bool) bool { return a && b })); got != want {
						r.Report(ev.Violation{Sig: "family|RemoveSet|count", Msg: fmt.Sprintf("RemoveSet on %d-element sets returned %d, want %d", n, got, want), Replay: rp})
					}
					if m := same(sa, op(func(a, b bool) bool { return a && !b })); m != "" {
						r.Report(ev.Violation{Sig: "family|RemoveSet|effect", Msg: fmt.Sprintf("after RemoveSet (%d elements): %s", n, m), Replay: rp})
					}
					c := mk(ka, A, churn).Clone()
					if m := same(c, A); m != "" {
						r.Report(ev.Violation{Sig: "family|Clone", Msg: fmt.Sprintf("Clone of a %d-element set: %s", n, m), Replay: rp})
					}
					if n <= 33 {
						prod := sets.CartesianProduct(mk(ka, A, churn), mk(kb, B, false))
						seen := map[[2]int]bool{}
						for _, p := range prod {
							seen[[2]int{p.A, p.B}] = true
						}
						if len(prod) != n*n || len(seen) != n*n {
							r.Report(ev.Violation{Sig: "family|CartesianProduct", Msg: fmt.Sprintf("CartesianProduct of two %d-element sets: %d pairs, %d distinct", n, len(prod), len(seen)), Replay: rp})
						}
					}
					calls += 5
				}
			}
		}
	}
	// size-asymmetric operands (a shortcut that walks the smaller operand, or one taken only
	// when one side is much larger): big A against B of 1..5 members, partly inside A, both ways
	for _, n := range []int{8, 16, 17, 40, 130} {
		A := map[int]bool{}
		for i := 0; i < n; i++ {
			A[i*2] = true
		}
		for _, bm := range [][]int{{1}, {2}, {1, 2}, {2, 1, 4}, {3, 5, 6, 7, 9}, {2*n + 1, 2, 3, 4, 8}, {0, 2, 4}} {
			B := map[int]bool{}
			for _, v := range bm {
				B[v] = true
			}
			for _, ka := range []kind{kMaps, kSync} {
				for _, kb := range []kind{kMaps, kSync} {
					for rep := 0; rep < 4; rep++ { // map iteration order varies between runs of one process
						for _, swap := range []bool{false, true} {
							X, Y, kx, ky := A, B, ka, kb
							if swap {
								X, Y, kx, ky = B, A, kb, ka
							}
							type bin struct {
								name string
								f    func(a, b sets.Set[int]) sets.Set[int]
								op   func(a, b bool) bool
							}
							for _, o := range []bin{
								{"Union", func(a, b sets.Set[int]) sets.Set[int] { return a.Union(b) }, func(a, b bool) bool { return a || b }},
								{"Intersect", func(a, b sets.Set[int]) sets.Set[int] { return a.Intersect(b) }, func(a, b bool) bool { return a && b }},
								{"SetDiff", func(a, b sets.Set[int]) sets.Set[int] { return a.SetDiff(b) }, func(a, b bool) bool { return a && !b }},
								{"SymDiff", func(a, b sets.Set[int]) sets.Set[int] { return a.SymDiff(b) }, func(a, b bool) bool { return a != b }},
							} {
								want := map[int]bool{}
								for v := 0; v <= 2*n+1; v++ {
									if o.op(X[v], Y[v]) {
										want[v] = true
									}
								}
								res := o.f(mk(kx, X, false), mk(ky, Y, false))
								calls++
								if m := same(res, want); m != "" {
									r.Report(ev.Violation{Sig: "family|" + o.name + "|result", Msg: fmt.Sprintf("%s of a %d-element and a %d-element set (impl %d/%d): %s", o.name, len(X), len(Y), kx, ky, m), Replay: map[string]any{"family": "asymmetric-sets", "sizes": []int{len(X), len(Y)}, "op": o.name}})
								}
							}
						}
					}
				}
			}
		}
	}
	// size ladder: every constructor, Clone and the algebra on operands around powers of two up to
	// 2^17 (a bulk / chunked / parallel path chosen above a size threshold; a remainder forgotten)
	for _, n := range []int{255, 256, 257, 1023, 1024, 1025, 1026, 1027, 4095, 4097, 65535, 65537, 131075} {
		want := map[int]bool{}
		in := make([]int, 0, n+3)
		byKey, byVal := map[int]int{}, map[string]int{}
		for i := 0; i < n; i++ {
			v := i*7 - 3
			want[v] = true
			in = append(in, v)
			byKey[v] = i
			byVal[fmt.Sprint("k", i)] = v
		}
		in = append([]int{in[n-1], in[n/2]}, in...) // two repeats, at the front: the tail of the input is distinct values
		type made struct {
			name string
			s    sets.Set[int]
		}
		for _, m := range []made{
			{"maps.NewSetFromSlice", maps.NewSetFromSlice(in)}, {"sync2.NewSetFromSlice", sync2.NewSetFromSlice(in)},
			{"maps.NewSetFromKeys", maps.NewSetFromKeys(byKey)}, {"sync2.NewSetFromKeys", sync2.NewSetFromKeys(byKey)},
			{"maps.NewSetFromValues", maps.NewSetFromValues(byVal)}, {"sync2.NewSetFromValues", sync2.NewSetFromValues(byVal)},
		} {
			calls++
			rp := map[string]any{"family": "size-ladder", "n": n, "call": m.name}
			if msg := same(m.s, want); msg != "" {
				r.Report(ev.Violation{Sig: "family|" + m.name[strings.Index(m.name, ".")+1:] + "|ladder", Msg: fmt.Sprintf("%s on %d distinct values: %s", m.name, n, msg), Replay: rp})
				continue
			}
			for _, d := range []made{{"Clone", m.s.Clone()}, {"Union(empty)", m.s.Union(newSet(kMaps))}, {"Union(self)", m.s.Union(m.s)}, {"Intersect(self)", m.s.Intersect(m.s)}, {"SetDiff(empty)", m.s.SetDiff(newSet(kSync))}, {"SymDiff(empty)", newSet(kSync).SymDiff(m.s)}} {
				calls++
				if msg := same(d.s, want); msg != "" {
					r.Report(ev.Violation{Sig: "family|" + d.name + "|ladder", Msg: fmt.Sprintf("%s of the %d-value set made by %s: %s", d.name, n, m.name, msg), Replay: rp})
				}
			}
			for _, k := range []kind{kMaps, kSync} {
				t := newSet(k)
				t.Add(in[5])
				if got := t.AddSet(m.s); got != n-1 {
					r.Report(ev.Violation{Sig: "family|AddSet|ladder", Msg: fmt.Sprintf("AddSet of a %d-value set (made by %s) into a one-value subset returned %d", n, m.name, got), Replay: rp})
				} else if msg := same(t, want); msg != "" {
					r.Report(ev.Violation{Sig: "family|AddSet|ladder", Msg: fmt.Sprintf("after AddSet of a %d-value set: %s", n, msg), Replay: rp})
				}
				if got := t.RemoveSet(m.s); got != n || t.Len() != 0 {
					r.Report(ev.Violation{Sig: "family|RemoveSet|ladder", Msg: fmt.Sprintf("RemoveSet of a %d-value set from an equal set returned %d, Len %d", n, got, t.Len()), Replay: rp})
				}
				calls += 2
			}
		}
	}
	r.Set("large_size_family_calls", calls)
}

// churnSets: ONE set of each implementation driven through a long history over 40 values; every
// Add/Remove/Has result compared with a map model, Len/Slice/Range every 97 calls, and the set
// algebra against a second set every 1999 calls.
func churnSets(r *ev.Run) {
	n := ev.Pick(r, 140000, 600000)
	for _, k := range []kind{kMaps, kSync} {
		s := newSet(k)
		model := map[int]bool{}
		var g enum.LCG = 7
		bad := ""
		for i := 0; i < n && bad == ""; i++ {
			v, op := g.Next(40), g.Next(8)
			if ev.Tracing() {
				ev.Trace(map[string]any{"family": "churn-sets", "impl": int(k), "step": i, "op": op, "value": v})
			}
			switch {
			case op < 3:
				if got := s.Add(v); got != !model[v] {
					bad = fmt.Sprintf("call %d: Add(%d) = %v, want %v", i, v, got, !model[v])
				}
				model[v] = true
			case op < 6:
				if got := s.Remove(v); got != model[v] {
					bad = fmt.Sprintf("call %d: Remove(%d) = %v, want %v", i, v, got, model[v])
				}
				delete(model, v)
			default:
				if got := s.Has(v); got != model[v] {
					bad = fmt.Sprintf("call %d: Has(%d) = %v, want %v", i, v, got, model[v])
				}
			}
			if i%97 == 0 && bad == "" {
				sl := s.Slice()
				seen := map[int]bool{}
				for _, x := range sl {
					if !model[x] || seen[x] {
						bad = fmt.Sprintf("call %d: Slice contains %d (not a member, or twice)", i, x)
					}
					seen[x] = true
				}
				cnt := 0
				s.Range(func(int) bool { cnt++; return true })
				if s.Len() != len(model) || len(sl) != len(model) || cnt != len(model) {
					bad = fmt.Sprintf("call %d: Len %d, Slice %d, Range %d, model %d", i, s.Len(), len(sl), cnt, len(model))
				}
			}
			if i%1999 == 0 && bad == "" {
				o := newSet(1 - k)
				om := map[int]bool{}
				for x := 0; x < 40; x += 3 {
					o.Add(x)
					om[x] = true
				}
				check := func(name string, res sets.Set[int], f func(a, b bool) bool) {
					for x := 0; x < 40; x++ {
						if res.Has(x) != f(model[x], om[x]) {
							bad = fmt.Sprintf("call %d: %s wrong for value %d", i, name, x)
						}
					}
				}
				check("Union", s.Union(o), func(a, b bool) bool { return a || b })
				check("Intersect", s.Intersect(o), func(a, b bool) bool { return a && b })
				check("SetDiff", s.SetDiff(o), func(a, b bool) bool { return a && !b })
				check("SymDiff", s.SymDiff(o), func(a, b bool) bool { return a != b })
			}
		}
		if bad != "" {
			r.Report(ev.Violation{Sig: "family|churn", Msg: fmt.Sprintf("long history on one %s: %s", []string{"maps.Set", "sync2.Set"}[k], bad), Replay: map[string]any{"family": "churn-sets", "impl": int(k)}})
		}
	}
	r.Set("churn_family_operations", 2*n)
}

// ModelKey is the layout-independent state key (see seqmc.ModelKeyer).
func (x *h) ModelKey() string { return fmt.Sprint(x.k, x.m, x.isNil) }
