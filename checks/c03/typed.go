package main

import (
	"fmt"
	"strings"

	"gopkg.in/typ.v4/maps"
	"gopkg.in/typ.v4/sets"
	"gopkg.in/typ.v4/sync2"
	"verif/lib/ev"
	"verif/lib/fp"
	"verif/lib/seqmc"
	"verif/lib/spell"
)

// th is the construction search of h over an element type whose logical values have several ==-equal
// spellings (package spell): values are added, looked up and removed under rotating spellings; in every
// state all observers and the four algebra operations (against operands of every membership, built in
// the OTHER implementation under yet other spellings) are compared with a mask model.
type th[K comparable] struct {
	k kind
	u *spell.U[K]
	s sets.Set[K]
	m mask
}

func newTyped[K comparable](k kind, u *spell.U[K]) sets.Set[K] {
	if k == kMaps {
		return make(maps.Set[K])
	}
	return new(sync2.Set[K])
}

func (x *th[K]) Ops() []seqmc.Op {
	var ops []seqmc.Op
	for v := 0; v < x.u.N(); v++ {
		ops = append(ops, seqmc.Op{Name: "Add", A: v}, seqmc.Op{Name: "Remove", A: v}, seqmc.Op{Name: "Has", A: v})
	}
	return append(ops, seqmc.Op{Name: "Len"})
}

func (x *th[K]) Apply(op seqmc.Op) *seqmc.Fail {
	switch op.Name {
	case "Add":
		key := x.u.Key(op.A)
		got, want := x.s.Add(key), !x.m.has(op.A)
		x.m |= 1 << uint(op.A)
		if got != want {
			return seqmc.Failf("Add:report", "Add(%#v) = %v, want %v", key, got, want)
		}
	case "Remove":
		key := x.u.Key(op.A)
		got, want := x.s.Remove(key), x.m.has(op.A)
		x.m &^= 1 << uint(op.A)
		if got != want {
			return seqmc.Failf("Remove:report", "Remove(%#v) = %v, want %v", key, got, want)
		}
	case "Has":
		key := x.u.Key(op.A)
		if got := x.s.Has(key); got != x.m.has(op.A) {
			return seqmc.Failf("Has", "Has(%#v) = %v, members (logical) %v", key, got, x.m.list())
		}
	case "Len":
		if got := x.s.Len(); got != x.m.n() {
			return seqmc.Failf("Len", "Len = %d, members (logical) %v", got, x.m.list())
		}
	}
	return nil
}

func (x *th[K]) Key() string {
	return fmt.Sprintf("%s|%d|%v", fp.Of(&x.u.Keys, x.s), x.m, x.u.Phase())
}

// obsT compares a set's observers with a membership mask.
func obsT[K comparable](u *spell.U[K], s sets.Set[K], m mask) (string, string) {
	if n := s.Len(); n != m.n() {
		return "Len", fmt.Sprintf("Len = %d, members (logical) %v", n, m.list())
	}
	for v := 0; v < u.N(); v++ {
		for range u.Keys[v] {
			key := u.Key(v)
			if s.Has(key) != m.has(v) {
				return "Has", fmt.Sprintf("Has(%#v) = %v, members (logical) %v", key, s.Has(key), m.list())
			}
		}
	}
	for name, list := range map[string][]K{"Slice": s.Slice(), "Range": func() (l []K) { s.Range(func(v K) bool { l = append(l, v); return true }); return }()} {
		var got mask
		for _, v := range list {
			l := u.Logical(v)
			if l < 0 || got.has(l) {
				return name, fmt.Sprintf("%s yields %#v, which is no member or was yielded before (two spellings of one value are two members)", name, v)
			}
			got |= 1 << uint(l)
		}
		if got != m {
			return name, fmt.Sprintf("%s yields logical values %v, members %v", name, got.list(), m.list())
		}
	}
	// String: no format is promised; every member's own rendering must occur in it
	str := s.String()
	for _, v := range s.Slice() {
		if r := fmt.Sprint(v); !strings.Contains(str, r) {
			return "String", fmt.Sprintf("String() = %q does not contain member %q", str, r)
		}
	}
	return "", ""
}

func (x *th[K]) Observe() *seqmc.Fail {
	if sig, msg := obsT(x.u, x.s, x.m); sig != "" {
		return &seqmc.Fail{Sig: sig, Msg: msg}
	}
	for om := mask(0); om < 1<<uint(x.u.N()); om++ {
		other := newTyped(1-x.k, x.u)
		for _, v := range om.list() {
			other.Add(x.u.Key(v))
		}
		for _, o := range []struct {
			name string
			got  sets.Set[K]
			want mask
		}{
			{"Union", x.s.Union(other), x.m | om}, {"Intersect", x.s.Intersect(other), x.m & om},
			{"SetDiff", x.s.SetDiff(other), x.m &^ om}, {"SymDiff", x.s.SymDiff(other), x.m ^ om},
			{"Union(reversed)", other.Union(x.s), x.m | om}, {"Intersect(reversed)", other.Intersect(x.s), x.m & om},
			{"SetDiff(reversed)", other.SetDiff(x.s), om &^ x.m}, {"Clone", x.s.Clone(), x.m},
		} {
			if sig, msg := obsT(x.u, o.got, o.want); sig != "" {
				return &seqmc.Fail{Sig: o.name + "|" + sig, Msg: fmt.Sprintf("%s with an operand holding logical values %v: %s", o.name, om.list(), msg)}
			}
		}
		if sig, msg := obsT(x.u, x.s, x.m); sig != "" {
			return &seqmc.Fail{Sig: "operand-changed|" + sig, Msg: msg}
		}
		// AddSet / RemoveSet on a clone
		c := x.s.Clone()
		if n, want := c.AddSet(other), (om &^ x.m).n(); n != want {
			return seqmc.Failf("AddSet|count", "AddSet of logical values %v into %v returned %d, want %d", om.list(), x.m.list(), n, want)
		}
		if sig, msg := obsT(x.u, c, x.m|om); sig != "" {
			return &seqmc.Fail{Sig: "AddSet|" + sig, Msg: msg}
		}
		if n, want := c.RemoveSet(other), om.n(); n != want {
			return seqmc.Failf("RemoveSet|count", "RemoveSet returned %d, want %d", n, want)
		}
		if sig, msg := obsT(x.u, c, x.m&^om); sig != "" {
			return &seqmc.Fail{Sig: "RemoveSet|" + sig, Msg: msg}
		}
	}
	return nil
}

func typedSets[K comparable](r *ev.Run, mk func() *spell.U[K]) int {
	states := 0
	for _, k := range []kind{kMaps, kSync} {
		k := k
		name := []string{"maps.Set", "sync2.Set"}[k] + "/element type " + mk().Name
		res := seqmc.Explore(r, seqmc.Config{Name: name, MaxStates: 40000, New: func() seqmc.Sys {
			u := mk()
			return &th[K]{k: k, u: u, s: newTyped(k, u)}
		}})
		if !res.Exhaustive {
			r.MarkCapped()
		}
		states += res.States
	}
	return states
}

func allTypedSets(r *ev.Run) int {
	n := typedSets(r, spell.Float64)
	n += typedSets(r, spell.String)
	n += typedSets(r, spell.Any)
	n += typedSets(r, spell.Struct)
	n += typedSets(r, spell.Array)
	n += typedSets(r, spell.Complex)
	n += typedSets(r, spell.Pointers)
	n += typedSets(r, spell.Int8)
	n += typedSets(r, spell.Liars)
	n += typedSets(r, spell.Stringers)
	n += typedSets(r, spell.Errors)
	n += typedSets(r, spell.Chans)
	n += typedSets(r, spell.AnyAlike)
	n += typedSets(r, spell.StringAlike)
	n += typedSets(r, spell.FloatAlike)
	return n
}

// ModelKey is the layout-independent state key (see seqmc.ModelKeyer).
func (x *th[K]) ModelKey() string { return fmt.Sprint(x.k, x.m, x.u.Phase()) }
