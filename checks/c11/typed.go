package main

import (
	"fmt"
	"sort"

	"gopkg.in/typ.v4/maps"
	"verif/lib/ev"
	"verif/lib/fp"
	"verif/lib/seqmc"
	"verif/lib/spell"
)

// tb is h over key and value types whose logical values have several ==-equal spellings (package
// spell): pairs are added, looked up and removed under rotating spellings of both the key and the
// value. The model is a partial bijection over logical indices.
type tb[K, V comparable] struct {
	ku    *spell.U[K]
	vu    *spell.U[V]
	b     *maps.Bimap[K, V]
	model map[int]int
}

func (s *tb[K, V]) Ops() []seqmc.Op {
	var ops []seqmc.Op
	for k := 0; k < s.ku.N(); k++ {
		for v := 0; v < s.vu.N(); v++ {
			ops = append(ops, seqmc.Op{Name: "Add", A: k, B: v})
		}
		ops = append(ops, seqmc.Op{Name: "RemoveForward", A: k})
	}
	for v := 0; v < s.vu.N(); v++ {
		ops = append(ops, seqmc.Op{Name: "RemoveReverse", A: v})
	}
	return append(ops, seqmc.Op{Name: "Clear"}, seqmc.Op{Name: "Clone"})
}

func (s *tb[K, V]) Apply(op seqmc.Op) *seqmc.Fail {
	switch op.Name {
	case "Add":
		s.b.Add(s.ku.Key(op.A), s.vu.Key(op.B))
		for k, v := range s.model {
			if v == op.B {
				delete(s.model, k)
			}
		}
		s.model[op.A] = op.B
	case "RemoveForward":
		s.b.RemoveForward(s.ku.Key(op.A))
		delete(s.model, op.A)
	case "RemoveReverse":
		s.b.RemoveReverse(s.vu.Key(op.A))
		for k, v := range s.model {
			if v == op.A {
				delete(s.model, k)
			}
		}
	case "Clear":
		s.b.Clear()
		s.model = map[int]int{}
	case "Clone":
		c := s.b.Clone()
		s.b = &c
	}
	return nil
}

func (s *tb[K, V]) Key() string {
	return fmt.Sprintf("%s|%v|%v|%v", fp.Of(&s.ku.Keys, &s.vu.Keys, s.b), s.model, s.ku.Phase(), s.vu.Phase())
}

func (s *tb[K, V]) Observe() *seqmc.Fail {
	var want []pair
	for k, v := range s.model {
		want = append(want, pair{k, v})
	}
	sort.Slice(want, func(i, j int) bool { return want[i].k < want[j].k })
	if n := s.b.Len(); n != len(want) {
		return seqmc.Failf("Len", "Len() = %d, model has pairs %v (logical indices)", n, want)
	}
	// every spelling of every key and value
	for k := 0; k < s.ku.N(); k++ {
		mv, mok := s.model[k]
		for range s.ku.Keys[k] {
			key := s.ku.Key(k)
			v, ok := s.b.GetForward(key)
			if ok != mok || (ok && s.vu.Logical(v) != mv) || s.b.ContainsForward(key) != mok {
				return seqmc.Failf("GetForward", "GetForward(%#v) = (%#v,%v), ContainsForward = %v; the model maps that key to value %d (present %v); pairs %v", key, v, ok, s.b.ContainsForward(key), mv, mok, want)
			}
		}
	}
	for v := 0; v < s.vu.N(); v++ {
		mk, mok := -1, false
		for k, w := range s.model {
			if w == v {
				mk, mok = k, true
			}
		}
		for range s.vu.Keys[v] {
			val := s.vu.Key(v)
			k, ok := s.b.GetReverse(val)
			if ok != mok || (ok && s.ku.Logical(k) != mk) || s.b.ContainsReverse(val) != mok {
				return seqmc.Failf("GetReverse", "GetReverse(%#v) = (%#v,%v), ContainsReverse = %v; the model maps that value to key %d (present %v); pairs %v: the two directions are not inverse", val, k, ok, s.b.ContainsReverse(val), mk, mok, want)
			}
		}
	}
	var rg []pair
	s.b.Range(func(k K, v V) bool { rg = append(rg, pair{s.ku.Logical(k), s.vu.Logical(v)}); return true })
	sort.Slice(rg, func(i, j int) bool { return rg[i].k < rg[j].k })
	if fmt.Sprint(rg) != fmt.Sprint(want) {
		return seqmc.Failf("Range", "Range visits %v, model %v (logical indices)", rg, want)
	}
	return nil
}

func typedBimap[K, V comparable](r *ev.Run, mkK func() *spell.U[K], mkV func() *spell.U[V]) int {
	name := "bimap/" + mkK().Name + " -> " + mkV().Name
	res := seqmc.Explore(r, seqmc.Config{Name: name, MaxStates: 60000, New: func() seqmc.Sys {
		return &tb[K, V]{ku: mkK(), vu: mkV(), b: &maps.Bimap[K, V]{}, model: map[int]int{}}
	}})
	if !res.Exhaustive {
		r.MarkCapped()
	}
	return res.States
}

func allTypedBimaps(r *ev.Run) int {
	n := typedBimap(r, spell.Float64, spell.String)
	n += typedBimap(r, spell.String, spell.Float64)
	n += typedBimap(r, spell.Any, spell.Any)
	n += typedBimap(r, spell.Struct, spell.Array)
	n += typedBimap(r, spell.Complex, spell.Pointers)
	n += typedBimap(r, spell.Int8, spell.Struct)
	n += typedBimap(r, spell.AnyAlike, spell.StringAlike)
	n += typedBimap(r, spell.Stringers, spell.Errors)
	n += typedBimap(r, spell.Chans, spell.Stringers)
	n += typedBimap(r, spell.Liars, spell.Liars)
	n += typedBimap(r, spell.FloatAlike, spell.AnyAlike)
	return n
}

// ModelKey is the layout-independent state key (see seqmc.ModelKeyer).
func (s *tb[K, V]) ModelKey() string { return fmt.Sprint(s.model, s.ku.Phase(), s.vu.Phase()) }
