// C11: Bimap keeps its two directions mutually inverse.
package main

import (
	"fmt"
	"sort"
	"verif/lib/wraps"

	"gopkg.in/typ.v4/maps"
	"verif/lib/ev"
	"verif/lib/fp"
	"verif/lib/seqmc"
)

type pair struct{ k, v int }

type h struct {
	u     int
	b     *maps.Bimap[int, int]
	model map[int]int // k -> v, a partial bijection
}

func (s *h) Ops() []seqmc.Op {
	var ops []seqmc.Op
	for k := 0; k < s.u; k++ {
		for v := 0; v < s.u; v++ {
			ops = append(ops, seqmc.Op{Name: "Add", A: k, B: v})
		}
	}
	for k := -1; k <= s.u; k++ {
		ops = append(ops, seqmc.Op{Name: "RemoveForward", A: k}, seqmc.Op{Name: "RemoveReverse", A: k})
	}
	return append(ops, seqmc.Op{Name: "Clear"}, seqmc.Op{Name: "Clone"}, seqmc.Op{Name: "CloneMutate"})
}

func (s *h) Apply(op seqmc.Op) *seqmc.Fail {
	switch op.Name {
	case "Add":
		s.b.Add(op.A, op.B)
		for k, v := range s.model {
			if v == op.B {
				delete(s.model, k)
			}
		}
		s.model[op.A] = op.B
	case "RemoveForward":
		s.b.RemoveForward(op.A)
		delete(s.model, op.A)
	case "RemoveReverse":
		s.b.RemoveReverse(op.A)
		for k, v := range s.model {
			if v == op.A {
				delete(s.model, k)
			}
		}
	case "Clear":
		s.b.Clear()
		s.model = map[int]int{}
	case "Clone", "CloneMutate":
		// independence is judged by what can be OBSERVED (sharing that no call sequence can see is no
		// defect). "Clone": the search continues on the clone while the original, still alive, has
		// been driven through every kind of mutation; "CloneMutate": a clone is driven through them and
		// the search continues on the original. Damage that only shows later is found in the successors
		// (the fingerprint of the surviving object is the state key).
		muts := func(b *maps.Bimap[int, int]) []func() {
			return []func(){
				func() { b.Add(0, s.u-1) }, func() { b.Add(s.u-1, 0) }, func() { b.RemoveForward(1) },
				func() { b.RemoveReverse(1) }, func() { b.Add(1, 1) }, func() { b.Clear() }, func() { b.Add(2, 2) },
			}
		}
		// three holders at a time (a copy-on-write scheme that tracks "shared" with one flag is right
		// for two and wrong for three): "Clone" keeps clone A, mutates clone B, then the original;
		// "CloneMutate" keeps the original, mutates clone A, then A's own clone B
		cA := s.b.Clone()
		var v1, v2 *maps.Bimap[int, int]
		if op.Name == "Clone" {
			cB := s.b.Clone()
			v1, v2, s.b = &cB, s.b, &cA
		} else {
			cB := cA.Clone()
			v1, v2 = &cA, &cB
		}
		obsBefore := fmt.Sprint(observe(s.b, s.u))
		obs2 := fmt.Sprint(observe(v2, s.u))
		for i, m := range muts(v1) {
			m()
			if now := fmt.Sprint(observe(s.b, s.u)); now != obsBefore {
				return seqmc.Failf("Clone:shares-state", "%s: mutation %d of another copy changed this one: %s -> %s", op.Name, i, obsBefore, now)
			}
			if now := fmt.Sprint(observe(v2, s.u)); now != obs2 {
				return seqmc.Failf("Clone:shares-state", "%s: mutation %d of one copy changed a third one: %s -> %s", op.Name, i, obs2, now)
			}
		}
		for i, m := range muts(v2) {
			m()
			if now := fmt.Sprint(observe(s.b, s.u)); now != obsBefore {
				return seqmc.Failf("Clone:shares-state", "%s: mutation %d of the second other copy changed this one: %s -> %s", op.Name, i, obsBefore, now)
			}
		}
	}
	return nil
}

func (s *h) Key() string { return fp.Of(s.b) }

type obs struct {
	Len      int
	Fwd, Rev []pair // GetForward / GetReverse over the whole universe (+ outside)
	CF, CR   []bool
	Range    []pair
}

func observe(b *maps.Bimap[int, int], u int) obs {
	var o obs
	o.Len = b.Len()
	for k := -1; k <= u; k++ {
		if v, ok := b.GetForward(k); ok {
			o.Fwd = append(o.Fwd, pair{k, v})
		} else if v != 0 {
			o.Fwd = append(o.Fwd, pair{k, -99})
		}
		if key, ok := b.GetReverse(k); ok {
			o.Rev = append(o.Rev, pair{key, k})
		} else if key != 0 {
			o.Rev = append(o.Rev, pair{-99, k})
		}
		o.CF = append(o.CF, b.ContainsForward(k))
		o.CR = append(o.CR, b.ContainsReverse(k))
	}
	b.Range(func(k, v int) bool { o.Range = append(o.Range, pair{k, v}); return true })
	sort.Slice(o.Range, func(i, j int) bool { return o.Range[i].k < o.Range[j].k })
	sort.Slice(o.Rev, func(i, j int) bool { return o.Rev[i].k < o.Rev[j].k })
	return o
}

func (s *h) Observe() *seqmc.Fail {
	o := observe(s.b, s.u)
	var want []pair
	for k, v := range s.model {
		want = append(want, pair{k, v})
	}
	sort.Slice(want, func(i, j int) bool { return want[i].k < want[j].k })
	if o.Len != len(want) {
		return seqmc.Failf("Len", "Len() = %d, model has pairs %v", o.Len, want)
	}
	if fmt.Sprint(o.Fwd) != fmt.Sprint(want) {
		return seqmc.Failf("GetForward", "forward lookups give %v, model %v", o.Fwd, want)
	}
	if fmt.Sprint(o.Rev) != fmt.Sprint(want) {
		return seqmc.Failf("GetReverse", "reverse lookups give %v (as key,value), model %v: the two directions are not inverse", o.Rev, want)
	}
	if fmt.Sprint(o.Range) != fmt.Sprint(want) {
		return seqmc.Failf("Range", "Range visits %v, model %v", o.Range, want)
	}
	for i, k := 0, -1; k <= s.u; i, k = i+1, k+1 {
		_, wf := s.model[k]
		wr := false
		for _, v := range s.model {
			if v == k {
				wr = true
			}
		}
		if o.CF[i] != wf || o.CR[i] != wr {
			return seqmc.Failf("Contains", "ContainsForward(%d)=%v ContainsReverse(%d)=%v, model %v", k, o.CF[i], k, o.CR[i], want)
		}
	}
	// observers called from inside the Range callback (read-only re-entrancy)
	{
		var outer []pair
		bad := ""
		s.b.Range(func(k, v int) bool {
			outer = append(outer, pair{k, v})
			in := 0
			s.b.Range(func(int, int) bool { in++; return true })
			gv, ok := s.b.GetForward(k)
			gk, ok2 := s.b.GetReverse(v)
			if bad == "" && (in != len(want) || s.b.Len() != len(want) || !ok || !ok2 || gv != v || gk != k) {
				bad = fmt.Sprintf("inside the callback for (%d,%d): nested Range visits %d, Len %d, GetForward (%d,%v), GetReverse (%d,%v)", k, v, in, s.b.Len(), gv, ok, gk, ok2)
			}
			return true
		})
		sort.Slice(outer, func(i, j int) bool { return outer[i].k < outer[j].k })
		if bad != "" || fmt.Sprint(outer) != fmt.Sprint(want) {
			return seqmc.Failf("Range:nested-observers", "Range whose callback calls other observers visits %v (%s), model %v", outer, bad, want)
		}
	}
	// Range whose callback, at its first call, removes ANOTHER pair (RemoveForward, RemoveReverse, Clear):
	// every visit must still be a pair the map really held during the call (key AND value), no key twice,
	// and every pair that was not removed must be visited. (On a clone: Observe leaves s.b intact.)
	if len(want) >= 2 {
		for vi, victim := range want {
			for how := 0; how < 3; how++ {
				c := s.b.Clone()
				var visits []pair
				first := true
				c.Range(func(k, v int) bool {
					visits = append(visits, pair{k, v})
					if first {
						first = false
						target := victim
						if target.k == k {
							target = want[(vi+1)%len(want)]
						}
						switch how {
						case 0:
							c.RemoveForward(target.k)
						case 1:
							c.RemoveReverse(target.v)
						default:
							c.Clear()
						}
					}
					return true
				})
				seen := map[int]bool{}
				for _, vp := range visits {
					if mv, ok := s.model[vp.k]; !ok || mv != vp.v || seen[vp.k] {
						return seqmc.Failf("Range:during-removal", "Range whose callback removes another pair visited %v; the map held %v: a visit that is no pair of the map, or a key twice", visits, want)
					}
					seen[vp.k] = true
				}
				if how < 2 && len(visits) < len(want)-1 {
					return seqmc.Failf("Range:during-removal", "Range whose callback removes ONE other pair visited only %v of %v", visits, want)
				}
			}
		}
	}
	// Range stops when told
	for stop := 1; stop <= len(want); stop++ {
		n := 0
		s.b.Range(func(k, v int) bool { n++; return n < stop })
		if n != stop {
			return seqmc.Failf("Range:stop", "Range callback returning false at call %d was called %d times", stop, n)
		}
	}
	return nil
}

func main() {
	ev.GuardFor("C11")
	r := ev.Start("C11")
	defer r.FinishOnPanic()
	u := ev.Pick(r, 4, 7)
	res := seqmc.Explore(r, seqmc.Config{Name: "bimap", New: func() seqmc.Sys {
		return &h{u: u, b: &maps.Bimap[int, int]{}, model: map[int]int{}}
	}})
	if cases, msg := wraps.Bimap(); msg != "" {
		r.Report(ev.Violation{Sig: "family|wrap", Msg: msg, Replay: map[string]any{"family": "wrap"}})
	} else {
		r.Set("wrap_family_cases", cases)
	}
	// an Add that panics (an unhashable value inside an interface, on a key that collides with nothing;
	// the caller recovers) must leave the Bimap exactly as it was: no half of a pair
	for _, prior := range []int{0, 1, 3} {
		b := &maps.Bimap[string, any]{}
		for i := 0; i < prior; i++ {
			b.Add(fmt.Sprint("k", i), i)
		}
		for _, bad := range []func(){
			func() { b.Add("fresh", []int{1}) },
			func() { b.Add("fresh2", map[int]int{}) },
		} {
			func() {
				defer func() { recover() }()
				bad()
			}()
			n := 0
			ok := true
			b.Range(func(k string, v any) bool {
				n++
				defer func() {
					if recover() != nil {
						ok = false // the map holds a value that cannot even be looked up
					}
				}()
				if gk, found := b.GetReverse(v); !found || gk != k {
					ok = false
				}
				return true
			})
			_, f1 := b.GetForward("fresh")
			_, f2 := b.GetForward("fresh2")
			if b.Len() != prior || n != prior || !ok || f1 || f2 || b.ContainsForward("fresh") {
				r.Report(ev.Violation{Sig: "Add:recovered-panic", Msg: fmt.Sprintf("Bimap[string,any] with %d pairs: after Add(fresh key, unhashable value) panicked and was recovered: Len %d, Range visits %d pairs (consistent %v), GetForward(fresh) present %v", prior, b.Len(), n, ok, f1 || f2), Replay: map[string]any{"family": "recovered-panic", "pairs": prior}})
			}
		}
	}
	// millions of pairs, then Clear, then reuse (a Clear that takes a short cut above a size)
	{
		n := ev.Pick(r, 4<<20+5, 9<<20+5)
		b := &maps.Bimap[int32, int32]{}
		for i := 0; i < n; i++ {
			b.Add(int32(i), int32(-i-1))
		}
		bad := ""
		if b.Len() != n {
			bad = fmt.Sprintf("after %d Adds of distinct pairs Len = %d", n, b.Len())
		}
		b.Clear()
		if v, ok := b.GetForward(5); ok || b.Len() != 0 || b.ContainsForward(7) || b.ContainsReverse(-8) {
			bad = fmt.Sprintf("after Clear of %d pairs: Len %d, GetForward(5) = (%d,%v), ContainsReverse(-8) = %v", n, b.Len(), v, ok, b.ContainsReverse(-8))
		}
		if k, ok := b.GetReverse(-6); ok {
			bad = fmt.Sprintf("after Clear of %d pairs GetReverse(-6) = (%d,true)", n, k)
		}
		c := b.Clone()
		if _, ok := c.GetReverse(-6); ok || c.Len() != 0 {
			bad = fmt.Sprintf("the clone of a cleared Bimap of %d pairs still answers GetReverse", n)
		}
		b.Add(1, -2)
		if k, ok := b.GetReverse(-2); !ok || k != 1 || b.Len() != 1 || b.ContainsReverse(-3) {
			bad = fmt.Sprintf("after Clear of %d pairs and one Add: Len %d, GetReverse(-2) = (%d,%v), ContainsReverse(-3) = %v", n, b.Len(), k, ok, b.ContainsReverse(-3))
		}
		if bad != "" {
			r.Report(ev.Violation{Sig: "family|huge-clear", Msg: bad, Replay: map[string]any{"family": "huge-clear", "pairs": n}})
		}
		r.Set("huge_clear_pairs", n)
	}
	typedStates := allTypedBimaps(r)
	r.Set("key_value_type_states", typedStates)
	// Large-size family: up to 200 pairs with every collision pattern, against a pair model
	famCalls := 0
	for _, n := range []int{9, 17, 33, 65, 200} {
		b := &maps.Bimap[int, int]{}
		fwd, rev := map[int]int{}, map[int]int{}
		add := func(k, v int) {
			b.Add(k, v)
			if ov, ok := fwd[k]; ok {
				delete(rev, ov)
			}
			if ok2, ok := rev[v]; ok {
				delete(fwd, ok2)
			}
			fwd[k], rev[v] = v, k
		}
		check := func(what string) {
			famCalls++
			bad := b.Len() != len(fwd) || len(fwd) != len(rev)
			for k, v := range fwd {
				gv, ok := b.GetForward(k)
				gk, ok2 := b.GetReverse(v)
				if !ok || !ok2 || gv != v || gk != k || !b.ContainsForward(k) || !b.ContainsReverse(v) {
					bad = true
				}
			}
			cnt := 0
			b.Range(func(k, v int) bool { cnt++; return fwd[k] == v })
			if cnt != len(fwd) || b.ContainsForward(-1) || b.ContainsReverse(-1) {
				bad = true
			}
			if bad {
				r.Report(ev.Violation{Sig: "family|bimap", Msg: fmt.Sprintf("%s with about %d pairs: Bimap disagrees with the pair model (Len %d, model %d)", what, n, b.Len(), len(fwd)), Replay: map[string]any{"family": "big-bimap", "n": n}})
			}
		}
		for i := 0; i < n; i++ {
			add(i, i+1000)
		}
		check("after distinct Adds")
		for i := 0; i < n; i += 2 {
			add(i, i+1001) // same key, value of the next pair: double collision
		}
		check("after colliding Adds")
		for i := 0; i < n; i += 3 {
			b.RemoveForward(i)
			if v, ok := fwd[i]; ok {
				delete(rev, v)
				delete(fwd, i)
			}
			b.RemoveReverse(i + 1002)
			if k, ok := rev[i+1002]; ok {
				delete(fwd, k)
				delete(rev, i+1002)
			}
		}
		check("after removals")
		c := b.Clone()
		c.Add(-5, -6)
		c.RemoveForward(1)
		check("after mutating a clone, the original")
		b.Clear()
		fwd, rev = map[int]int{}, map[int]int{}
		add(3, 4)
		check("after Clear and one Add")
	}
	// Long-history churn family: tens of thousands of operations on ONE instance over 40 keys and
	// values in a deterministic pattern (a counter that wraps, maintenance every N operations,
	// growth and shrink cycles), the touched key and value checked after every call and the whole
	// map every 997 calls.
	{
		n := ev.Pick(r, 140000, 400000)
		b := &maps.Bimap[int, int]{}
		fwd, rev := map[int]int{}, map[int]int{}
		bad := ""
		full := func(i int) {
			if b.Len() != len(fwd) || len(fwd) != len(rev) {
				bad = fmt.Sprintf("after %d operations: Len = %d, model has %d pairs", i, b.Len(), len(fwd))
				return
			}
			for k, v := range fwd {
				gv, ok := b.GetForward(k)
				gk, ok2 := b.GetReverse(v)
				if !ok || !ok2 || gv != v || gk != k {
					bad = fmt.Sprintf("after %d operations: pair (%d,%d): GetForward = (%d,%v), GetReverse = (%d,%v)", i, k, v, gv, ok, gk, ok2)
					return
				}
			}
			cnt := 0
			b.Range(func(k, v int) bool { cnt++; return fwd[k] == v })
			if cnt != len(fwd) {
				bad = fmt.Sprintf("after %d operations: Range visits %d pairs, model has %d", i, cnt, len(fwd))
			}
		}
		x := uint32(12345)
		for i := 0; i < n && bad == ""; i++ {
			x = x*1664525 + 1013904223
			k, v, op := int(x>>8)%40, int(x>>16)%40, int(x>>24)%8
			if ev.Tracing() {
				ev.Trace(map[string]any{"family": "churn", "step": i, "op": op, "k": k, "v": v})
			}
			switch {
			case op < 5:
				b.Add(k, v)
				if ov, ok := fwd[k]; ok {
					delete(rev, ov)
				}
				if ok2, ok := rev[v]; ok {
					delete(fwd, ok2)
				}
				fwd[k], rev[v] = v, k
			case op == 5:
				b.RemoveForward(k)
				if ov, ok := fwd[k]; ok {
					delete(rev, ov)
					delete(fwd, k)
				}
			case op == 6:
				b.RemoveReverse(v)
				if ok2, ok := rev[v]; ok {
					delete(fwd, ok2)
					delete(rev, v)
				}
			default:
				if i%5000 == 4999 {
					b.Clear()
					fwd, rev = map[int]int{}, map[int]int{}
				}
			}
			gv, ok := b.GetForward(k)
			mv, mok := fwd[k]
			gk, ok2 := b.GetReverse(v)
			mk, mok2 := rev[v]
			if ok != mok || ok2 != mok2 || (ok && gv != mv) || (ok2 && gk != mk) || b.Len() != len(fwd) {
				bad = fmt.Sprintf("after %d operations (last: op %d on key %d value %d): GetForward(%d) = (%d,%v) want (%d,%v); GetReverse(%d) = (%d,%v) want (%d,%v); Len %d want %d", i+1, op, k, v, k, gv, ok, mv, mok, v, gk, ok2, mk, mok2, b.Len(), len(fwd))
			}
			if i%997 == 0 {
				full(i + 1)
			}
		}
		if bad == "" {
			full(n)
		}
		if bad != "" {
			r.Report(ev.Violation{Sig: "family|churn", Msg: bad, Replay: map[string]any{"family": "churn", "operations": n}})
		}
		r.Set("churn_family_operations", n)
	}
	r.Set("large_size_family_calls", famCalls)
	// nil receiver Len
	var nb *maps.Bimap[int, int]
	if nb.Len() != 0 {
		r.Report(ev.Violation{Sig: "nil-Len", Msg: "Len of a nil *Bimap is not 0"})
	}
	r.Set("states", res.States)
	r.Set("transitions", res.Transitions)
	r.Set("traces_validated_against_impl", res.Transitions)
	r.Set("max_depth", res.MaxDepth)
	r.Set("universe", u)
	r.Set("rule", "explicit-state BFS to fixpoint from the zero value over K=V={0..u-1} (incl. the zero value 0): Add(k,v) for all pairs, RemoveForward/RemoveReverse incl. absent, Clear, Clone (search continues on the clone, independence checked both ways by fingerprint); every lookup over the universe compared with a set-of-pairs model after every transition PLUS deterministic families beyond the exhaustive bound (large sizes, every single/double removal from trees built in 7 orders, long one-instance churn histories): see the *_family_* counters; the same search over 6 key/value type pairs whose values have several ==-equal spellings (+0.0/-0.0, equal strings in different memory, interfaces, structs, arrays, complex numbers), pointers and int8, every lookup made under every spelling")
	r.Finish()
}

// ModelKey is the layout-independent state key (see seqmc.ModelKeyer).
func (s *h) ModelKey() string { return fmt.Sprint(s.model) }
