package main

import (
	"fmt"
	"sort"

	"gopkg.in/typ.v4/slices"
	"verif/lib/enum"
	"verif/lib/ev"
)

type bigElem [1100]int64

// typedSorted drives slices.Sorted over ONE element type: vals are pairwise distinct and ascending under
// less (for zero-size types there is one value and less is always false). Every sequence of up to `depth`
// operations from Add(v), Remove(v), RemoveAt(0), RemoveAt(last), starting from NewSorted over two
// initial slices, against a sorted list of ranks.
func typedSorted[T comparable](r *ev.Run, tname string, vals []T, less func(a, b T) bool, depth int) int {
	rank := func(v T) int {
		for i, x := range vals {
			if x == v {
				return i
			}
		}
		return -1
	}
	calls := 0
	type op struct{ kind, arg int } // 0 Add(v) 1 Remove(v) 2 RemoveAt(0) 3 RemoveAt(last)
	var alphabet []op
	for v := range vals {
		alphabet = append(alphabet, op{0, v}, op{1, v})
	}
	alphabet = append(alphabet, op{2, 0}, op{3, 0})
	inits := [][]int{nil, {len(vals) - 1, 0}}
	var run func(seq []op)
	check := func(init []int, seq []op) string {
		in := make([]T, len(init))
		model := append([]int{}, init...)
		for i, k := range init {
			in[i] = vals[k]
		}
		sort.Ints(model)
		s := slices.NewSorted(in, less)
		verify := func(what string) string {
			calls++
			if s.Len() != len(model) {
				return fmt.Sprintf("%s: Len = %d, want %d", what, s.Len(), len(model))
			}
			for i, k := range model {
				if g := rank(s.Get(i)); g != k {
					return fmt.Sprintf("%s: Get(%d) has rank %d, want %d (model %v)", what, i, g, k, model)
				}
			}
			for k := range vals {
				want := -1
				for i, m := range model {
					if m == k {
						want = i
						break
					}
				}
				if got := s.Index(vals[k]); got != want || s.Contains(vals[k]) != (want >= 0) {
					return fmt.Sprintf("%s: Index(rank %d) = %d, Contains = %v, want %d", what, k, got, s.Contains(vals[k]), want)
				}
			}
			return ""
		}
		if m := verify("after NewSorted"); m != "" {
			return m
		}
		for i, o := range seq {
			what := fmt.Sprintf("after op %d of %v", i, seq)
			switch o.kind {
			case 0:
				pos := s.Add(vals[o.arg])
				at := sort.SearchInts(model, o.arg)
				end := sort.SearchInts(model, o.arg+1)
				model = append(model, 0)
				copy(model[at+1:], model[at:])
				model[at] = o.arg
				if pos < at || pos > end {
					return fmt.Sprintf("%s: Add returned position %d, want %d..%d", what, pos, at, end)
				}
			case 1:
				at := sort.SearchInts(model, o.arg)
				present := at < len(model) && model[at] == o.arg
				got := s.Remove(vals[o.arg])
				if present {
					end := sort.SearchInts(model, o.arg+1)
					if got < at || got >= end {
						return fmt.Sprintf("%s: Remove returned %d, want %d..%d", what, got, at, end-1)
					}
					model = append(model[:at], model[at+1:]...)
				} else if got != -1 {
					return fmt.Sprintf("%s: Remove of an absent value returned %d", what, got)
				}
			case 2, 3:
				if len(model) == 0 {
					continue
				}
				i := 0
				if o.kind == 3 {
					i = len(model) - 1
				}
				s.RemoveAt(i)
				model = append(model[:i], model[i+1:]...)
			}
			if m := verify(what); m != "" {
				return m
			}
		}
		return ""
	}
	failed := false
	run = func(seq []op) {
		if failed {
			return
		}
		for _, init := range inits {
			var msg string
			if p, m := enum.Catch(func() { msg = check(init, seq) }); p {
				msg = "panic: " + m
			}
			if msg != "" {
				failed = true
				r.Report(ev.Violation{Sig: "element-type|sorted", Msg: fmt.Sprintf("Sorted[%s] from initial ranks %v: %s", tname, init, msg), Replay: map[string]any{"element_type": tname, "init": fmt.Sprint(init), "ops": fmt.Sprint(seq)}})
				return
			}
		}
		if len(seq) == depth {
			return
		}
		for _, o := range alphabet {
			run(append(append([]op{}, seq...), o))
		}
	}
	run(nil)
	return calls
}

func allTypedSorted(r *ev.Run) int {
	d := ev.Pick(r, 3, 5)
	n := typedSorted(r, "struct{}", []struct{}{{}}, func(a, b struct{}) bool { return false }, d+2)
	n += typedSorted(r, "[0]int", [][0]int{{}}, func(a, b [0]int) bool { return false }, d+2)
	n += typedSorted(r, "bool", []bool{false, true}, func(a, b bool) bool { return !a && b }, d)
	n += typedSorted(r, "string", []string{"", "a", "b"}, func(a, b string) bool { return a < b }, d)
	n += typedSorted(r, "float64", []float64{-1.5, 0, 2.5}, func(a, b float64) bool { return a < b }, d)
	mk := func(tag int) bigElem {
		var b bigElem
		b[0], b[len(b)-1] = int64(tag), int64(-tag)
		return b
	}
	n += typedSorted(r, "[1100]int64 (8800 bytes)", []bigElem{mk(1), mk(2), mk(3)}, func(a, b bigElem) bool { return a[0] < b[0] }, d-1)
	n += typedSorted(r, "*int (by pointee)", func() []*int { a, b, c := 1, 2, 3; return []*int{&a, &b, &c} }(), func(a, b *int) bool { return *a < *b }, d)
	return n
}

// panickingLess: a less function that panics at its k-th call inside Add / Remove / Index / Contains (the
// caller recovers). Afterwards the Sorted must still be sorted and hold either exactly what it held
// before or exactly the completed operation's result - never a half-shifted slice.
func panickingLess(r *ev.Run) int {
	cases := 0
	for n := 0; n <= 7; n++ {
		for v := -1; v <= 2*n+1; v += 1 {
			for _, opName := range []string{"Add", "Remove", "Index", "Contains"} {
				for k := 1; k <= 6; k++ {
					base := make([]int, n)
					for i := range base {
						base[i] = 2 * i // even values; odd v are absent
					}
					armed, calls := false, 0
					less := func(a, b int) bool {
						if armed {
							if calls++; calls == k {
								panic("less failed")
							}
						}
						return a < b
					}
					s := slices.NewSorted(base, less)
					armed = true
					completed := false
					func() {
						defer func() { recover() }()
						switch opName {
						case "Add":
							s.Add(v)
						case "Remove":
							s.Remove(v)
						case "Index":
							s.Index(v)
						default:
							s.Contains(v)
						}
						completed = true
					}()
					armed = false
					cases++
					got := make([]int, s.Len())
					for i := range got {
						got[i] = s.Get(i)
					}
					before := append([]int{}, base...)
					after := append([]int{}, base...)
					switch opName {
					case "Add":
						after = append(after, v)
						sort.Ints(after)
					case "Remove":
						if i := sort.SearchInts(after, v); i < len(after) && after[i] == v {
							after = append(after[:i], after[i+1:]...)
						}
					}
					ok := fmt.Sprint(got) == fmt.Sprint(after) || (!completed && fmt.Sprint(got) == fmt.Sprint(before))
					if !ok {
						r.Report(ev.Violation{Sig: "panicking-less|sorted", Msg: fmt.Sprintf("Sorted %v: %s(%d) with a less function that panics at its call %d (completed=%v) leaves %v; want %v or %v", base, opName, v, k, completed, got, before, after), Replay: map[string]any{"family": "panicking-less", "n": n, "value": v, "op": opName, "call": k}})
						return cases
					}
				}
			}
		}
	}
	return cases
}
