// C07: slices.Sorted is always sorted and is an exact multiset.
package main

import (
	"fmt"
	"sort"
	"verif/lib/wraps"

	"gopkg.in/typ.v4/slices"
	"verif/lib/enum"
	"verif/lib/ev"
	"verif/lib/fp"
	"verif/lib/seqmc"
)

// KT is a (key,tag) pair for the key-only less function (ties between equal keys).
type KT struct{ K, T int }

type order int

const (
	asc order = iota
	desc
)

// ---- total orders on int -------------------------------------------------

type h struct {
	ord   order
	n     int
	init  []int
	s     slices.Sorted[int]
	model []int // sorted under the order
}

func (x *h) less(a, b int) bool {
	if x.ord == desc {
		return a > b
	}
	return a < b
}

func newH(ord order, n int, init []int) *h {
	x := &h{ord: ord, n: n, init: init}
	in := append([]int{}, init...)
	var caller []int
	if init != nil {
		caller = append(make([]int, 0, len(init)+3), init...) // spare capacity: an aliasing constructor would show
	}
	if ord == asc {
		x.s = slices.NewSortedOrdered(caller...)
	} else {
		x.s = slices.NewSorted(caller, func(a, b int) bool { return a > b })
	}
	x.model = append([]int{}, init...)
	sort.SliceStable(x.model, func(i, j int) bool { return x.less(x.model[i], x.model[j]) })
	// the caller's slice must be neither reordered ...
	for i := range in {
		if caller[i] != in[i] {
			panic(fmt.Sprintf("CTOR-REORDERED %v -> %v", in, caller))
		}
	}
	// ... nor aliased
	for i := range caller {
		caller[i] = -77
	}
	if len(caller) > 0 {
		_ = append(caller, -78, -79)
	}
	return x
}

func (x *h) Ops() []seqmc.Op {
	var ops []seqmc.Op
	if len(x.model) < x.n {
		for v := 0; v <= 2; v++ {
			ops = append(ops, seqmc.Op{Name: "Add", A: v})
		}
	}
	for v := -1; v <= 3; v++ {
		ops = append(ops, seqmc.Op{Name: "Remove", A: v})
	}
	for i := -1; i <= len(x.model); i++ {
		ops = append(ops, seqmc.Op{Name: "RemoveAt", A: i})
	}
	return ops
}

func (x *h) lower(v int) int {
	return sort.Search(len(x.model), func(i int) bool { return !x.less(x.model[i], v) })
}

func (x *h) contents() []int {
	out := make([]int, x.s.Len())
	for i := range out {
		out[i] = x.s.Get(i)
	}
	return out
}

func (x *h) Apply(op seqmc.Op) *seqmc.Fail {
	switch op.Name {
	case "Add":
		want := x.lower(op.A)
		got := x.s.Add(op.A)
		x.model = append(x.model, 0)
		copy(x.model[want+1:], x.model[want:])
		x.model[want] = op.A
		if got < 0 || got >= x.s.Len() || x.s.Get(got) != op.A {
			return seqmc.Failf("Add:position", "Add(%d) returned %d but that position holds something else: %v", op.A, got, x.contents())
		}
		// "the position at which the new value now sits": anywhere in the run of values equal to it
		hi := want
		for hi < len(x.model) && x.model[hi] == op.A {
			hi++
		}
		if got < want || got >= hi {
			return seqmc.Failf("Add:position", "Add(%d) returned %d, want a position in %d..%d (the run of equal values); contents %v", op.A, got, want, hi-1, x.contents())
		}
	case "Remove":
		want := -1
		if i := x.lower(op.A); i < len(x.model) && x.model[i] == op.A {
			want = i
		}
		// (read off the model, not the object: the call under test must be able to be the FIRST call on
		// a freshly constructed object - an observer in front of it would hide work the constructor postponed)
		before := append([]int{}, x.model...)
		var got int
		if p, m := enum.Catch(func() { got = x.s.Remove(op.A) }); p {
			return seqmc.Failf("Remove:panic", "Remove(%d) panicked on %v: %s", op.A, before, m)
		}
		// "deletes one occurrence and returns its former position": any position of the run of equal values
		hiR := want
		for want >= 0 && hiR < len(x.model) && x.model[hiR] == op.A {
			hiR++
		}
		if (want < 0 && got != -1) || (want >= 0 && (got < want || got >= hiR)) {
			return seqmc.Failf("Remove:position", "Remove(%d) = %d, want %d..%d; contents were %v", op.A, got, want, hiR-1, before)
		}
		if want >= 0 {
			x.model = append(x.model[:want:want], x.model[want+1:]...)
		} else if fmt.Sprint(before) != fmt.Sprint(x.contents()) {
			return seqmc.Failf("Remove(absent):changed-state", "Remove(%d) returned -1 but changed %v into %v", op.A, before, x.contents())
		}
	case "RemoveAt":
		before := append([]int{}, x.model...)
		inb := op.A >= 0 && op.A < len(x.model)
		p, m := enum.Catch(func() { x.s.RemoveAt(op.A) })
		if p != !inb {
			return seqmc.Failf("RemoveAt:bounds", "RemoveAt(%d) on length %d: panicked=%v (%s)", op.A, len(before), p, m)
		}
		if inb {
			x.model = append(x.model[:op.A:op.A], x.model[op.A+1:]...)
		} else if fmt.Sprint(before) != fmt.Sprint(x.contents()) {
			return seqmc.Failf("RemoveAt:bounds", "out-of-range RemoveAt(%d) changed %v into %v", op.A, before, x.contents())
		}
	}
	return nil
}

func (x *h) Key() string { return fmt.Sprintf("%d|%s", x.ord, fp.Of(&x.s)) }

func (x *h) Observe() *seqmc.Fail {
	if x.s.Len() != len(x.model) {
		return seqmc.Failf("Len", "Len = %d, model %v", x.s.Len(), x.model)
	}
	got := x.contents()
	if fmt.Sprint(got) != fmt.Sprint(x.model) {
		return seqmc.Failf("contents", "contents %v, want %v (initial %v)", got, x.model, x.init)
	}
	// (String has no promised format; it must name the contents)
	if s := x.s.String(); !enum.SameMultiset(enum.IntTokens(s), x.model) {
		return seqmc.Failf("String", "String() = %q, contents %v", s, x.model)
	}
	for v := -1; v <= 3; v++ {
		want := -1
		if i := x.lower(v); i < len(x.model) && x.model[i] == v {
			want = i
		}
		if gi := x.s.Index(v); gi != want {
			return seqmc.Failf("Index", "Index(%d) = %d, want %d in %v", v, gi, want, x.model)
		}
		if gc := x.s.Contains(v); gc != (want >= 0) {
			return seqmc.Failf("Contains", "Contains(%d) = %v in %v", v, gc, x.model)
		}
	}
	for _, i := range []int{-1, len(x.model)} {
		if p, _ := enum.Catch(func() { x.s.Get(i) }); !p {
			return seqmc.Failf("Get:bounds", "Get(%d) on length %d did not panic", i, len(x.model))
		}
	}
	return nil
}

// ---- key-only less on (key,tag) pairs: only sortedness + exact multiset -----

type hk struct {
	n     int
	s     slices.Sorted[KT]
	model map[KT]int
	next  int
}

func (x *hk) Ops() []seqmc.Op {
	var ops []seqmc.Op
	if x.s.Len() < x.n {
		for k := 0; k <= 1; k++ {
			ops = append(ops, seqmc.Op{Name: "Add", A: k})
		}
	}
	for i := 0; i < x.s.Len(); i++ {
		ops = append(ops, seqmc.Op{Name: "RemoveValueAt", A: i}, seqmc.Op{Name: "RemoveAt", A: i})
	}
	ops = append(ops, seqmc.Op{Name: "Remove", A: 0, B: 99}, seqmc.Op{Name: "Remove", A: 1, B: 99})
	return ops
}

func (x *hk) Apply(op seqmc.Op) *seqmc.Fail {
	switch op.Name {
	case "Add":
		// tags descend so that equal keys are not accidentally in tag order
		// tag = the largest tag of a fixed pool that is not in use (finite state space; equal
		// keys do not arrive in tag order)
		used := map[int]bool{}
		for _, e := range x.all() {
			used[e.T] = true
		}
		tag := x.n
		for used[tag] {
			tag--
		}
		v := KT{op.A, tag}
		i := x.s.Add(v)
		x.model[v]++
		if i < 0 || i >= x.s.Len() {
			return seqmc.Failf("Add:position", "Add(%v) returned %d", v, i)
		}
	case "RemoveAt":
		v := x.s.Get(op.A)
		x.s.RemoveAt(op.A)
		x.model[v]--
	case "RemoveValueAt":
		// remove the value found at a position by value: with ties the implementation
		// may return another element's index; the effect is read off the return value
		v := x.s.Get(op.A)
		before := x.s.Len()
		var i int
		if p, m := enum.Catch(func() { i = x.s.Remove(v) }); p {
			return seqmc.Failf("Remove:panic", "Remove(%v) panicked: %s", v, m)
		}
		if i >= 0 {
			if x.s.Len() != before-1 {
				return seqmc.Failf("Remove:effect", "Remove(%v) returned %d but length went %d -> %d", v, i, before, x.s.Len())
			}
			// Remove validates its hit with ==, so the element that went is v itself
			x.model[v]--
		} else if x.s.Len() != before {
			return seqmc.Failf("Remove(absent):changed-state", "Remove(%v) returned -1 but the length changed", v)
		}
	case "Remove":
		v := KT{op.A, op.B} // a tag that is never added: absent by ==
		before := fmt.Sprint(x.all())
		var i int
		if p, m := enum.Catch(func() { i = x.s.Remove(v) }); p {
			return seqmc.Failf("Remove:panic", "Remove(%v) (absent) panicked: %s", v, m)
		}
		if i != -1 || before != fmt.Sprint(x.all()) {
			return seqmc.Failf("Remove(absent):changed-state", "Remove(%v) of an absent value = %d, contents %s -> %v", v, i, before, x.all())
		}
	}
	return nil
}

func (x *hk) all() []KT {
	out := make([]KT, x.s.Len())
	for i := range out {
		out[i] = x.s.Get(i)
	}
	return out
}

func (x *hk) Key() string { return fp.Of(&x.s) }

func (x *hk) Observe() *seqmc.Fail {
	all := x.all()
	for i := 1; i < len(all); i++ {
		if all[i].K < all[i-1].K {
			return seqmc.Failf("not-sorted", "contents %v are not non-decreasing by key", all)
		}
	}
	cnt := map[KT]int{}
	for _, v := range all {
		cnt[v]++
	}
	for v, n := range x.model {
		if cnt[v] != n {
			return seqmc.Failf("multiset", "element %v occurs %d times, want %d; contents %v", v, cnt[v], n, all)
		}
	}
	for v, n := range cnt {
		if x.model[v] != n {
			return seqmc.Failf("multiset", "element %v occurs %d times, want %d; contents %v", v, n, x.model[v], all)
		}
	}
	return nil
}

func main() {
	ev.GuardFor("C07")
	r := ev.Start("C07")
	defer r.FinishOnPanic()
	if cases, msg := wraps.Sorted(); msg != "" {
		r.Report(ev.Violation{Sig: "family|wrap", Msg: msg, Replay: map[string]any{"family": "wrap"}})
	} else {
		r.Set("wrap_family_cases", cases)
	}
	n := ev.Pick(r, 5, 7)
	initLen := ev.Pick(r, 3, 4)
	var inits [][]int
	var gen func(cur []int)
	gen = func(cur []int) {
		inits = append(inits, append([]int{}, cur...))
		if len(cur) == initLen {
			return
		}
		for v := 0; v <= 2; v++ {
			gen(append(cur, v))
		}
	}
	gen(nil)
	inits[0] = nil
	states, trans, depth := 0, 0, 0
	// constructors: every initial slice (copied, not aliased, not reordered); then one BFS per
	// order from the empty state and from every initial slice (states merge by fingerprint)
	for _, ord := range []order{asc, desc} {
		for _, in := range inits {
			ord, in := ord, in
			if p, m := enum.Catch(func() { newH(ord, n, in) }); p {
				r.Report(ev.Violation{Sig: "NewSorted|caller-slice", Msg: "constructor: " + m, Replay: map[string]any{"init": fmt.Sprint(in)}})
				continue
			}
			res := seqmc.Explore(r, seqmc.Config{Name: fmt.Sprintf("order%d-init%v", ord, in), New: func() seqmc.Sys { return newH(ord, n, in) }, MaxStates: ev.Pick(r, 3000, 0)})
			states += res.States
			trans += res.Transitions
			if res.MaxDepth > depth {
				depth = res.MaxDepth
			}
			if r.Violations() > 0 {
				break
			}
		}
	}
	res := seqmc.Explore(r, seqmc.Config{Name: "key-only-less", New: func() seqmc.Sys {
		return &hk{n: ev.Pick(r, 4, 5), s: slices.NewSorted([]KT(nil), func(a, b KT) bool { return a.K < b.K }), model: map[KT]int{}}
	}})
	states += res.States
	trans += res.Transitions
	// element types and sizes: zero-size, one byte, larger than a page, pointers
	r.Set("element_type_calls", allTypedSorted(r))
	r.Set("panicking_less_cases", panickingLess(r))
	// Large-size family: up to 300 values with duplicates in three arrival orders and two sort
	// orders against a sorted-slice model (positions returned by Add/Index/Remove, Get, Contains)
	famCalls := 0
	for _, ord := range []order{asc, desc} {
		for _, mod := range []int{1000003, 11, 2} {
			for _, kind := range []string{"asc", "desc", "scramble"} {
				if msg := bigSorted(ord, ev.Pick(r, 130, 300), mod, kind, &famCalls); msg != "" {
					r.Report(ev.Violation{Sig: "family|sorted", Msg: msg, Replay: map[string]any{"order": int(ord), "mod": mod, "arrival": kind}})
				}
			}
		}
	}
	{ // long-history churn: ONE Sorted, tens of thousands of calls over 60 values
		n := ev.Pick(r, 140000, 400000)
		s := slices.NewSortedOrdered[int]()
		var model []int
		var g enum.LCG = 3
		for i := 0; i < n; i++ {
			v, op := g.Next(60), g.Next(8)
			if ev.Tracing() {
				ev.Trace(map[string]any{"family": "churn", "step": i, "op": op, "value": v})
			}
			lo := sort.SearchInts(model, v)
			present := lo < len(model) && model[lo] == v
			bad := ""
			switch {
			case op < 3 && len(model) < 150:
				hiA := lo
				for hiA < len(model) && model[hiA] == v {
					hiA++
				}
				if got := s.Add(v); got < lo || got > hiA {
					bad = fmt.Sprintf("Add(%d) = %d, want %d..%d", v, got, lo, hiA)
				}
				model = append(model, 0)
				copy(model[lo+1:], model[lo:])
				model[lo] = v
			case op < 6:
				want := -1
				if present {
					want = lo
				}
				hiR := lo
				for present && hiR < len(model) && model[hiR] == v {
					hiR++
				}
				if got := s.Remove(v); (!present && got != -1) || (present && (got < lo || got >= hiR)) {
					bad = fmt.Sprintf("Remove(%d) = %d, want %d..%d", v, got, want, hiR-1)
				}
				if present {
					model = append(model[:lo], model[lo+1:]...)
				}
			case op == 6 && len(model) > 0:
				k := g.Next(len(model))
				s.RemoveAt(k)
				model = append(model[:k], model[k+1:]...)
			default:
				want := -1
				if present {
					want = lo
				}
				if got := s.Index(v); got != want || s.Contains(v) != present {
					bad = fmt.Sprintf("Index(%d) = %d, want %d", v, got, want)
				}
			}
			if bad == "" && (s.Len() != len(model) || (i%97 == 0 && !enum.SameMultiset(enum.IntTokens(s.String()), model))) {
				bad = fmt.Sprintf("contents %s, want %v", s.String(), model)
			}
			if bad != "" {
				r.Report(ev.Violation{Sig: "family|churn", Msg: fmt.Sprintf("call %d of a long history on one Sorted: %s", i, bad), Replay: map[string]any{"family": "churn", "step": i}})
				break
			}
		}
		r.Set("churn_family_operations", n)
	}
	r.Set("large_size_family_calls", famCalls)
	// nil / uninitialised receivers
	var ns *slices.Sorted[int]
	if ns.Len() != 0 {
		r.Report(ev.Violation{Sig: "nil-Len", Msg: "Len of nil *Sorted is not 0"})
	}
	r.Set("states", states)
	r.Set("transitions", trans)
	r.Set("traces_validated_against_impl", trans)
	r.Set("max_depth", depth)
	r.Set("initial_slices", len(inits))
	r.Set("size_bound", n)
	r.Set("rule", "explicit-state BFS to fixpoint from NewSortedOrdered/NewSorted over every initial slice on {0,1,2} up to the given length, for the orders < and > (strict total orders) with alphabet Add(0..2), Remove(-1..3: absent below/inside/above), RemoveAt(-1..Len), and for a key-only less on (key,tag) pairs (ties); sorted-slice model compared through Get/Len/String/Index/Contains after every transition; caller's slice checked for copy semantics PLUS deterministic families beyond the exhaustive bound (large sizes, every single/double removal from trees built in 7 orders, long one-instance churn histories): see the *_family_* counters")
	r.Finish()
}

func bigSorted(ord order, n, mod int, kind string, calls *int) string {
	less := func(a, b int) bool {
		if ord == desc {
			return a > b
		}
		return a < b
	}
	var init []int
	for i := 0; i < 20; i++ {
		init = append(init, (i*37)%mod%50)
	}
	caller := append([]int{}, init...)
	s := slices.NewSorted(caller, less)
	for i := range caller {
		if caller[i] != init[i] {
			return "NewSorted reordered the caller's slice"
		}
		caller[i] = -99
	}
	model := append([]int{}, init...)
	sort.SliceStable(model, func(i, j int) bool { return less(model[i], model[j]) })
	lower := func(v int) int { return sort.Search(len(model), func(i int) bool { return !less(model[i], v) }) }
	check := func(what string) string {
		*calls++
		if s.Len() != len(model) {
			return fmt.Sprintf("%s: Len = %d, want %d", what, s.Len(), len(model))
		}
		for i, v := range model {
			if s.Get(i) != v {
				return fmt.Sprintf("%s: Get(%d) = %d, want %d (len %d)", what, i, s.Get(i), v, len(model))
			}
		}
		return ""
	}
	val := func(i int) int {
		switch kind {
		case "asc":
			return i % mod
		case "desc":
			return (n - i) % mod
		}
		return (i*7919 + 5) % n % mod
	}
	for i := 0; i < n; i++ {
		v := val(i)
		want := lower(v)
		hiA := want
		for hiA < len(model) && model[hiA] == v {
			hiA++
		}
		if got := s.Add(v); got < want || got > hiA {
			return fmt.Sprintf("Add(%d) at size %d returned %d, want %d..%d", v, len(model), got, want, hiA)
		}
		model = append(model, 0)
		copy(model[want+1:], model[want:])
		model[want] = v
		if i%9 == 0 || i > n-5 {
			if m := check(fmt.Sprintf("after %d Adds", i+1)); m != "" {
				return m
			}
		}
		for _, q := range []int{v, v + 1, -3} {
			wi := -1
			if k := lower(q); k < len(model) && model[k] == q {
				wi = k
			}
			if gi := s.Index(q); gi != wi || s.Contains(q) != (wi >= 0) {
				return fmt.Sprintf("Index(%d) = %d (Contains %v), want %d at size %d", q, gi, s.Contains(q), wi, len(model))
			}
		}
	}
	for i := 0; i < n+20; i++ {
		v := val((i * 3) % (n + 7))
		want := -1
		if k := lower(v); k < len(model) && model[k] == v {
			want = k
		}
		hiR := want
		for want >= 0 && hiR < len(model) && model[hiR] == v {
			hiR++
		}
		if got := s.Remove(v); (want < 0 && got != -1) || (want >= 0 && (got < want || got >= hiR)) {
			return fmt.Sprintf("Remove(%d) at size %d returned %d, want %d..%d", v, len(model), got, want, hiR-1)
		}
		if want >= 0 {
			model = append(model[:want], model[want+1:]...)
		}
		if i%5 == 0 && len(model) > 2 {
			k := (i * 13) % len(model)
			s.RemoveAt(k)
			model = append(model[:k], model[k+1:]...)
		}
		if i%9 == 0 {
			if m := check(fmt.Sprintf("after %d Removes", i+1)); m != "" {
				return m
			}
		}
	}
	return check("at the end")
}

// ModelKey is the layout-independent state key (see seqmc.ModelKeyer).
func (x *h) ModelKey() string  { return fmt.Sprint(x.ord, x.model) }
func (x *hk) ModelKey() string { return fmt.Sprint(x.model, x.next) }
