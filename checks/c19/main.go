// C19: channel helpers never lose, duplicate or invent a value.
package main

import (
	"context"
	"fmt"
	"math"
	"time"

	"gopkg.in/typ.v4/chans"
	"verif/lib/ev"
	"verif/lib/schk"
	"verif/vrt"
)

// hctx is a context whose Done channel is closed by a model thread.
type hctx struct {
	done chan struct{}
	err  error
}

func (c *hctx) Deadline() (time.Time, bool) { return time.Time{}, false }
func (c *hctx) Done() <-chan struct{}       { return c.done }
func (c *hctx) Err() error                  { return c.err }
func (c *hctx) Value(any) any               { return nil }

var _ context.Context = (*hctx)(nil)

type rec struct {
	ch        chan int
	ctx       *hctx
	prefill   []int
	sendOK    bool // result of the Send* helper
	recvV     int  // result of the Recv* helper
	recvOK    bool
	done      bool  // the helper returned
	peerGot   []int // values the peer received
	peerSent  []int // values whose send by the peer completed
	closed    bool  // the peer closed the channel
	cancelled bool
	queued    []int // RecvQueued result
	qn        int   // RecvQueuedFull result
	qbuf      []int
}

// ---------------------------------------------------------------- timed / context helpers

// conf: helper in {SendTimeout, SendContext, RecvTimeout, RecvContext}; peer in
// {none, recv, send, close, sendclose}; capacity 0..1; prefilled or not; timeout <=0 / >0.
type conf struct {
	helper  string
	peer    string
	capN    int
	prefill int
	timed   bool // positive timeout / a canceller thread exists
}

func (c conf) String() string {
	return fmt.Sprintf("%s/peer=%s/cap=%d/prefill=%d/limit=%v", c.helper, c.peer, c.capN, c.prefill, c.timed)
}

func timedScenario(c conf) schk.Scenario {
	return schk.Scenario{
		Name: c.String(), Bound: -1, RaceBound: -2, ExpectDeadlock: true,
		Body: func(s *vrt.Sched) any {
			r := &rec{ch: make(chan int, c.capN), ctx: &hctx{done: make(chan struct{})}}
			for i := 0; i < c.prefill; i++ {
				r.ch <- 1 + i
				r.prefill = append(r.prefill, 1+i)
			}
			d := time.Duration(0)
			if c.timed {
				d = time.Second
			}
			s.Spawn("helper", func() {
				switch c.helper {
				case "SendTimeout":
					r.sendOK = chans.SendTimeout(r.ch, 42, d)
				case "SendContext":
					r.sendOK = chans.SendContext(context.Context(r.ctx), r.ch, 42)
				case "RecvTimeout":
					r.recvV, r.recvOK = chans.RecvTimeout(r.ch, d)
				case "RecvContext":
					r.recvV, r.recvOK = chans.RecvContext(context.Context(r.ctx), (<-chan int)(r.ch))
				}
				r.done = true
			})
			switch c.peer {
			case "recv":
				s.Spawn("peer-recv", func() {
					v, ok := vrt.Recv2(r.ch)
					if ok {
						r.peerGot = append(r.peerGot, v)
					}
				})
			case "recv2":
				s.Spawn("peer-recv", func() {
					for i := 0; i < 2; i++ {
						v, ok := vrt.Recv2(r.ch)
						if ok {
							r.peerGot = append(r.peerGot, v)
						}
					}
				})
			case "send":
				s.Spawn("peer-send", func() { vrt.Send(r.ch, 7); r.peerSent = append(r.peerSent, 7) })
			case "close":
				s.Spawn("peer-close", func() { vrt.Close(r.ch); r.closed = true })
			case "sendclose":
				s.Spawn("peer-sendclose", func() {
					vrt.Send(r.ch, 7)
					r.peerSent = append(r.peerSent, 7)
					vrt.Close(r.ch)
					r.closed = true
				})
			}
			if c.timed && (c.helper == "SendContext" || c.helper == "RecvContext") {
				s.Spawn("canceller", func() { r.ctx.err = context.Canceled; vrt.Close(r.ctx.done); r.cancelled = true })
			}
			return r
		},
		Check: func(x *vrt.Exec, obs any) (*schk.Fail, string) {
			r := obs.(*rec)
			if x.Panic != "" {
				return nil, "panic"
			}
			// what is left in the channel (pass-through mode)
			var left []int
			for {
				stop := false
				select {
				case v, ok := <-r.ch:
					if !ok {
						stop = true
					} else {
						left = append(left, v)
					}
				default:
					stop = true
				}
				if stop {
					break
				}
			}
			count := func(l []int, v int) int {
				n := 0
				for _, x := range l {
					if x == v {
						n++
					}
				}
				return n
			}
			isSend := c.helper[:4] == "Send"
			out := fmt.Sprintf("done=%v send=%v recv=(%d,%v) left=%v peerGot=%v deadlock=%v", r.done, r.sendOK, r.recvV, r.recvOK, left, r.peerGot, x.Deadlock)
			if !r.done {
				// the helper is still blocked: only legitimate when it waits without limit
				if !x.Deadlock {
					return schk.Failf("helper-lost", "the helper neither returned nor is it blocked"), ""
				}
				if c.timed {
					return schk.Failf("blocked-despite-limit", "%s is blocked forever although its timer/context can still end the wait: %v", c.helper, x.Blocked), ""
				}
				// the value must not have been handed over
				if isSend && count(left, 42)+count(r.peerGot, 42) != 0 {
					return schk.Failf("send-duplicated", "helper still blocked but its value was delivered: %s", out), ""
				}
				return nil, out
			}
			if isSend {
				n := count(left, 42) + count(r.peerGot, 42)
				if r.sendOK && n != 1 {
					return schk.Failf("send-reported-but-lost", "%s returned true but the value is in the channel/with the peer %d times: %s", c.helper, n, out), ""
				}
				if !r.sendOK && n != 0 {
					return schk.Failf("send-denied-but-sent", "%s returned false but the value was sent (%d times): %s", c.helper, n, out), ""
				}
				if !r.sendOK && !c.timed {
					return schk.Failf("gave-up-without-limit", "%s returned false although it was told to wait without limit: %s", c.helper, out), ""
				}
				// nothing else was disturbed
				for _, v := range r.prefill {
					if count(left, v)+count(r.peerGot, v) != 1 {
						return schk.Failf("other-value-lost", "prefilled value %d is now present %d times: %s", v, count(left, v)+count(r.peerGot, v), out), ""
					}
				}
				return nil, out
			}
			// receive helpers: conservation of every value
			all := append(append([]int{}, r.prefill...), r.peerSent...)
			for _, v := range []int{1, 2, 7} {
				have := count(left, v) + count(r.peerGot, v)
				if r.recvOK && r.recvV == v {
					have++
				}
				if have != count(all, v) {
					return schk.Failf("value-not-conserved", "value %d: put in %d times, accounted for %d times: %s", v, count(all, v), have, out), ""
				}
			}
			if r.recvOK && count(all, r.recvV) == 0 {
				return schk.Failf("value-invented", "%s returned (%d,true) but that value was never sent: %s", c.helper, r.recvV, out), ""
			}
			if !r.recvOK && r.recvV != 0 {
				return schk.Failf("nonzero-with-false", "%s returned (%d,false): %s", c.helper, r.recvV, out), ""
			}
			if !r.recvOK && !c.timed && !r.closed {
				return schk.Failf("gave-up-without-limit", "%s returned false on an open channel although it was told to wait without limit: %s", c.helper, out), ""
			}
			return nil, out
		},
	}
}

// ---------------------------------------------------------------- queued receivers

type qconf struct {
	full         bool // RecvQueuedFull instead of RecvQueued
	capN, fill   int
	closed       bool
	limit        int
	blockedPeers int // senders blocked on the (full or unbuffered) channel
	rival        int // 1 = a competing plain receiver takes one value, 2 = a second queued receiver runs concurrently
}

func (c qconf) String() string {
	n := "RecvQueued"
	if c.full {
		n = "RecvQueuedFull"
	}
	if c.rival > 0 {
		return fmt.Sprintf("%s/cap=%d/fill=%d/closed=%v/limit=%d/rival=%d", n, c.capN, c.fill, c.closed, c.limit, c.rival)
	}
	return fmt.Sprintf("%s/cap=%d/fill=%d/closed=%v/limit=%d/blocked-senders=%d", n, c.capN, c.fill, c.closed, c.limit, c.blockedPeers)
}

// qbound: all interleavings, except for two long concurrent receivers (preemption bound 3)
// short renders a long value list as its length, head and tail.
func short(l []int) string {
	if len(l) <= 80 {
		return fmt.Sprint(l)
	}
	return fmt.Sprintf("[%d values: %v ... %v]", len(l), l[:6], l[len(l)-4:])
}

func qbound(c qconf) int {
	if c.rival == 2 {
		return 3
	}
	return -1
}

func queuedScenario(c qconf) schk.Scenario {
	return schk.Scenario{
		Name: c.String(), Bound: qbound(c), RaceBound: -2, ExpectDeadlock: true, MaxSteps: 20000 + 8*c.capN,
		Body: func(s *vrt.Sched) any {
			r := &rec{ch: make(chan int, c.capN)}
			for i := 0; i < c.fill; i++ {
				r.ch <- 1 + i
				r.prefill = append(r.prefill, 1+i)
			}
			if c.closed {
				vrt.Close(r.ch)
			}
			s.Spawn("helper", func() {
				vrt.NoBlock("RecvQueued*, which must never block")
				if c.full {
					r.qbuf = make([]int, c.limit)
					for i := range r.qbuf {
						r.qbuf[i] = -1
					}
					r.qn = chans.RecvQueuedFull(r.ch, r.qbuf)
				} else {
					r.queued = chans.RecvQueued(r.ch, c.limit)
				}
				vrt.NoBlock("")
				r.done = true
			})
			for p := 0; p < c.blockedPeers; p++ {
				p := p
				s.Spawn("peer-send", func() { vrt.Send(r.ch, 7+p); r.peerSent = append(r.peerSent, 7+p) })
			}
			switch c.rival {
			case 1:
				s.Spawn("rival-recv", func() {
					if v, ok := vrt.Recv2(r.ch); ok {
						r.peerGot = append(r.peerGot, v)
					}
				})
			case 2:
				s.Spawn("rival-queued", func() {
					vrt.NoBlock("RecvQueued*, which must never block")
					r.peerGot = chans.RecvQueued(r.ch, c.limit)
					vrt.NoBlock("")
				})
			}
			return r
		},
		Check: func(x *vrt.Exec, obs any) (*schk.Fail, string) {
			r := obs.(*rec)
			if x.Panic != "" {
				return nil, "panic"
			}
			if x.NoBlockViolated != "" || !r.done {
				return schk.Failf("queued-receiver-blocked", "%s blocked: %s %v", c, x.NoBlockViolated, x.Blocked), ""
			}
			got := r.queued
			if c.full {
				if r.qn < 0 || r.qn > len(r.qbuf) {
					return schk.Failf("queued-count", "RecvQueuedFull returned %d for a buffer of %d", r.qn, len(r.qbuf)), ""
				}
				got = r.qbuf[:r.qn]
				for i := r.qn; i < len(r.qbuf); i++ {
					if r.qbuf[i] != -1 {
						return schk.Failf("queued-wrote-beyond-count", "RecvQueuedFull returned %d but wrote buf[%d] = %d", r.qn, i, r.qbuf[i]), ""
					}
				}
			}
			var left []int
			for stop := false; !stop; {
				select {
				case v, ok := <-r.ch:
					if !ok {
						stop = true
					} else {
						left = append(left, v)
					}
				default:
					stop = true
				}
			}
			out := fmt.Sprintf("got=%v left=%v peerSent=%v rivalGot=%v", short(got), short(left), r.peerSent, short(r.peerGot))
			if c.rival > 0 {
				// two receivers share the queue: every queued value ends up with exactly one of them or
				// stays in the channel, each receiver sees its values in FIFO order, nothing is invented
				seen := map[int]int{}
				for _, l := range [][]int{got, r.peerGot, left} {
					for i, v := range l {
						seen[v]++
						if i > 0 && l[i-1] >= v {
							return schk.Failf("queued-order-or-invented", "%s: a receiver saw values out of order: %s", c, out), ""
						}
					}
				}
				for _, v := range r.prefill {
					if seen[v] != 1 {
						return schk.Failf("queued-lost", "%s: queued value %d is accounted for %d times: %s", c, v, seen[v], out), ""
					}
				}
				if len(seen) != len(r.prefill) || len(got) > max(c.limit, 0) {
					return schk.Failf("queued-invented", "%s: %s", c, out), ""
				}
				return nil, out
			}
			if len(got) > max(c.limit, 0) {
				return schk.Failf("queued-over-limit", "%s returned %d values: %s", c, len(got), out), ""
			}
			// FIFO: got ++ left must be the prefilled values followed by completed peer sends, nothing invented
			seq := append(append([]int{}, got...), left...)
			want := append([]int{}, r.prefill...)
			if len(seq) < len(want) {
				return schk.Failf("queued-lost", "%s: values lost: %s (prefilled %v)", c, out, r.prefill), ""
			}
			for i, v := range want {
				if seq[i] != v {
					return schk.Failf("queued-order-or-invented", "%s: expected the queued values %v first, in order: %s", c, want, out), ""
				}
			}
			for _, v := range seq[len(want):] {
				ok := false
				for _, p := range r.peerSent {
					if p == v {
						ok = true
					}
				}
				if !ok {
					return schk.Failf("queued-invented", "%s returned or left a value %d that was never sent: %s", c, v, out), ""
				}
			}
			// everything that was already queued must be returned up to the limit (no peers involved)
			if c.blockedPeers == 0 {
				wantN := c.fill
				if wantN > max(c.limit, 0) {
					wantN = max(c.limit, 0)
				}
				if len(got) != wantN {
					return schk.Failf("queued-count", "%s returned %d values, want %d: %s", c, len(got), wantN, out), ""
				}
			}
			return nil, out
		},
	}
}

// duoScenario: a Send* helper and a Recv* helper on the same channel, each with or without a
// limit (its own timer / shared canceller), all interleavings. Conservation: the value was
// reported sent iff the receiver reported it or it is still in the buffer.
func duoScenario(sendH, recvH string, capN, prefill int, sendTimed, recvTimed bool) schk.Scenario {
	name := fmt.Sprintf("duo/%s(limit=%v)+%s(limit=%v)/cap=%d/prefill=%d", sendH, sendTimed, recvH, recvTimed, capN, prefill)
	return schk.Scenario{
		Name: name, Bound: -1, RaceBound: -2, ExpectDeadlock: true,
		Body: func(s *vrt.Sched) any {
			r := &rec{ch: make(chan int, capN), ctx: &hctx{done: make(chan struct{})}}
			for i := 0; i < prefill; i++ {
				r.ch <- 1 + i
				r.prefill = append(r.prefill, 1+i)
			}
			dur := func(t bool) time.Duration {
				if t {
					return time.Second
				}
				return 0
			}
			never := &hctx{done: make(chan struct{})}
			ctxFor := func(t bool) context.Context {
				if t {
					return r.ctx
				}
				return never
			}
			s.Spawn("sender", func() {
				if sendH == "SendTimeout" {
					r.sendOK = chans.SendTimeout(r.ch, 42, dur(sendTimed))
				} else {
					r.sendOK = chans.SendContext(ctxFor(sendTimed), r.ch, 42)
				}
				r.done = true
			})
			s.Spawn("receiver", func() {
				if recvH == "RecvTimeout" {
					r.recvV, r.recvOK = chans.RecvTimeout(r.ch, dur(recvTimed))
				} else {
					r.recvV, r.recvOK = chans.RecvContext(ctxFor(recvTimed), (<-chan int)(r.ch))
				}
				r.closed = true // "receiver done"
			})
			if (sendTimed && sendH == "SendContext") || (recvTimed && recvH == "RecvContext") {
				s.Spawn("canceller", func() { r.ctx.err = context.Canceled; vrt.Close(r.ctx.done); r.cancelled = true })
			}
			return r
		},
		Check: func(x *vrt.Exec, obs any) (*schk.Fail, string) {
			r := obs.(*rec)
			if x.Panic != "" {
				return nil, "panic"
			}
			var left []int
			for len(r.ch) > 0 {
				left = append(left, <-r.ch)
			}
			out := fmt.Sprintf("senderDone=%v sent=%v receiverDone=%v recv=(%d,%v) left=%v deadlock=%v", r.done, r.sendOK, r.closed, r.recvV, r.recvOK, left, x.Deadlock)
			count := func(v int) int {
				n := 0
				for _, x := range left {
					if x == v {
						n++
					}
				}
				if r.closed && r.recvOK && r.recvV == v {
					n++
				}
				return n
			}
			if (!r.done && sendTimed) || (!r.closed && recvTimed) {
				return schk.Failf("blocked-despite-limit", "a helper with a limit is blocked forever: %s %v", out, x.Blocked), ""
			}
			if r.done {
				if n := count(42); (r.sendOK && n != 1) || (!r.sendOK && n != 0) {
					return schk.Failf("send-report-mismatch", "%s reported %v but the value is accounted for %d times: %s", sendH, r.sendOK, n, out), ""
				}
				if !r.sendOK && !sendTimed {
					return schk.Failf("gave-up-without-limit", "%s returned false without a limit: %s", sendH, out), ""
				}
			} else if count(42) != 0 {
				return schk.Failf("send-duplicated", "sender still blocked but its value was delivered: %s", out), ""
			}
			for _, v := range r.prefill {
				if count(v) != 1 {
					return schk.Failf("value-not-conserved", "prefilled value %d accounted for %d times: %s", v, count(v), out), ""
				}
			}
			if r.closed {
				if r.recvOK && r.recvV != 42 && r.recvV != 1 && r.recvV != 2 {
					return schk.Failf("value-invented", "%s returned (%d,true): %s", recvH, r.recvV, out), ""
				}
				if !r.recvOK && r.recvV != 0 {
					return schk.Failf("nonzero-with-false", "%s returned (%d,false): %s", recvH, r.recvV, out), ""
				}
				if !r.recvOK && !recvTimed {
					return schk.Failf("gave-up-without-limit", "%s returned false on an open channel without a limit: %s", recvH, out), ""
				}
			}
			return nil, out
		},
	}
}

// ---------------------------------------------------------------- several helper calls per thread, several threads

// mrec: what a multi scenario observes. Call j of thread t sends the value 40+10*t+j.
type mrec struct {
	ch      chan int
	ctx     *hctx
	prefill []int
	progs   [][]string
	cur     []int   // per thread: index of the call in progress (len(prog) when the thread is done)
	sendOK  [][]int // per thread, per call: -1 not finished, 0 false, 1 true
	recvV   [][]int // per thread, per call
	recvOK  [][]int
	closed  bool // a "CL" step closed the channel
}

// multiScenario: every thread runs a program of helper calls one after the other on ONE channel;
// "ST"/"SC"/"RT"/"RC" = SendTimeout/SendContext/RecvTimeout/RecvContext, suffix "+" = with a limit
// (positive timeout / a context that a canceller thread cancels at some point), "-" = without.
// A second call on the same thread is where state that survives a call (a reused timer, a pooled
// buffer) would show. Oracle: value conservation over the whole execution.
func multiScenario(progs [][]string, capN, prefill, bound int) schk.Scenario {
	return multiScenarioZ(progs, capN, prefill, bound, false)
}

// multiScenarioZ; zero: the first call of thread 0 sends the ZERO value of the element type (a value like
// any other: a receiver must report (0,true) for it, a sender true).
func multiScenarioZ(progs [][]string, capN, prefill, bound int, zero bool) schk.Scenario {
	name := fmt.Sprintf("multi/%v/cap=%d/prefill=%d", progs, capN, prefill)
	if zero {
		name += "/thread 0 sends the zero value"
	}
	valOf := func(t, j int) int {
		if zero && t == 0 && j == 0 {
			return 0
		}
		return 40 + 10*t + j
	}
	timedOf := func(c string) bool { return c[2] == '+' }
	return schk.Scenario{
		Name: name, Bound: bound, RaceBound: -2, ExpectDeadlock: true,
		Body: func(s *vrt.Sched) any {
			r := &mrec{ch: make(chan int, capN), ctx: &hctx{done: make(chan struct{})}, progs: progs, cur: make([]int, len(progs))}
			for i := 0; i < prefill; i++ {
				r.ch <- 1 + i
				r.prefill = append(r.prefill, 1+i)
			}
			never := &hctx{done: make(chan struct{})}
			needCancel := false
			for t, prog := range progs {
				r.sendOK = append(r.sendOK, make([]int, len(prog)))
				r.recvV = append(r.recvV, make([]int, len(prog)))
				r.recvOK = append(r.recvOK, make([]int, len(prog)))
				for j, c := range prog {
					r.sendOK[t][j], r.recvOK[t][j] = -1, -1
					if c[1] == 'C' && timedOf(c) {
						needCancel = true
					}
				}
			}
			b2i := func(b bool) int {
				if b {
					return 1
				}
				return 0
			}
			for t := range progs {
				t := t
				s.Spawn(fmt.Sprint("T", t), func() {
					for j, c := range progs[t] {
						r.cur[t] = j
						d := time.Duration(0)
						var ctx context.Context = never
						if timedOf(c) {
							// the smallest positive duration is a limit like any other (only <= 0 means none)
							d, ctx = time.Duration(1), r.ctx
						}
						v := valOf(t, j)
						switch c[:2] {
						case "ST":
							r.sendOK[t][j] = b2i(chans.SendTimeout(r.ch, v, d))
						case "SC":
							r.sendOK[t][j] = b2i(chans.SendContext(ctx, r.ch, v))
						case "RT":
							got, ok := chans.RecvTimeout(r.ch, d)
							r.recvV[t][j], r.recvOK[t][j] = got, b2i(ok)
						case "RC":
							got, ok := chans.RecvContext(ctx, (<-chan int)(r.ch))
							r.recvV[t][j], r.recvOK[t][j] = got, b2i(ok)
						case "PR": // a plain receive by a rival consumer
							got, ok := vrt.Recv2(r.ch)
							r.recvV[t][j], r.recvOK[t][j] = got, b2i(ok)
						case "CL": // the channel is closed (no sender is part of such a scenario)
							vrt.Close(r.ch)
							r.closed = true
						}
					}
					r.cur[t] = len(progs[t])
				})
			}
			if needCancel {
				s.Spawn("canceller", func() { r.ctx.err = context.Canceled; vrt.Close(r.ctx.done) })
			}
			return r
		},
		Check: func(x *vrt.Exec, obs any) (*schk.Fail, string) {
			r := obs.(*mrec)
			if x.Panic != "" {
				return nil, "panic"
			}
			var left []int
			for len(r.ch) > 0 {
				left = append(left, <-r.ch)
			}
			out := fmt.Sprintf("progs=%v at=%v send=%v recv=%v/%v left=%v deadlock=%v", r.progs, r.cur, r.sendOK, r.recvV, r.recvOK, left, x.Deadlock)
			count := func(v int) int {
				n := 0
				for _, l := range left {
					if l == v {
						n++
					}
				}
				for t := range r.progs {
					for j := range r.progs[t] {
						if r.recvOK[t][j] == 1 && r.recvV[t][j] == v {
							n++
						}
					}
				}
				return n
			}
			known := map[int]bool{}
			for _, v := range r.prefill {
				known[v] = true
				if n := count(v); n != 1 {
					return schk.Failf("value-not-conserved", "prefilled value %d accounted for %d times: %s", v, n, out), ""
				}
			}
			for t, prog := range r.progs {
				if r.cur[t] < len(prog) && timedOf(prog[r.cur[t]]) {
					return schk.Failf("blocked-despite-limit", "thread %d's call %d (%s) has a limit and is blocked forever: %s %v", t, r.cur[t], prog[r.cur[t]], out, x.Blocked), ""
				}
				lastPre := 0
				for j, c := range prog {
					v := valOf(t, j)
					if c[:2] == "CL" {
						continue
					}
					if c[0] == 'S' {
						known[v] = true
						n := count(v)
						switch r.sendOK[t][j] {
						case 1:
							if n != 1 {
								return schk.Failf("send-report-mismatch", "thread %d call %d (%s) reported true but its value %d is accounted for %d times: %s", t, j, c, v, n, out), ""
							}
						case 0:
							if n != 0 {
								return schk.Failf("send-report-mismatch", "thread %d call %d (%s) reported false but its value %d was delivered %d times: %s", t, j, c, v, n, out), ""
							}
							if !timedOf(c) {
								return schk.Failf("gave-up-without-limit", "thread %d call %d (%s) returned false without a limit: %s", t, j, c, out), ""
							}
						default:
							if n != 0 {
								return schk.Failf("send-duplicated", "thread %d call %d (%s) has not returned but its value %d was delivered: %s", t, j, c, v, out), ""
							}
						}
						continue
					}
					switch r.recvOK[t][j] {
					case 1:
						if got := r.recvV[t][j]; got >= 1 && got <= len(r.prefill) {
							if got < lastPre {
								return schk.Failf("fifo", "thread %d received prefilled value %d after %d: %s", t, got, lastPre, out), ""
							}
							lastPre = got
						}
					case 0:
						if r.recvV[t][j] != 0 {
							return schk.Failf("recv-false-with-value", "thread %d call %d (%s) returned (%d,false): %s", t, j, c, r.recvV[t][j], out), ""
						}
						if !timedOf(c) && !r.closed {
							return schk.Failf("gave-up-without-limit", "thread %d call %d (%s) returned false without a limit on an open channel: %s", t, j, c, out), ""
						}
					}
				}
			}
			for t := range r.progs {
				for j := range r.progs[t] {
					if r.recvOK[t][j] == 1 && !known[r.recvV[t][j]] {
						return schk.Failf("invented", "thread %d call %d received %d, which nobody sent: %s", t, j, r.recvV[t][j], out), ""
					}
				}
			}
			for _, l := range left {
				if !known[l] {
					return schk.Failf("invented", "value %d left in the channel was never sent: %s", l, out), ""
				}
			}
			return nil, fmt.Sprintf("send=%v recv=%v/%v left=%v", r.sendOK, r.recvV, r.recvOK, left)
		},
	}
}

// twiceScenario: one thread calls RecvQueued twice (limit k, then the rest) on a channel holding n
// values and keeps both results; a sender adds one more value at some point. Both results are read
// only at the end: what the first call returned must not be affected by the second call.
func twiceScenario(n, k int) schk.Scenario {
	type trec struct {
		ch   chan int
		a, b []int
		sent bool
	}
	return schk.Scenario{
		Name: fmt.Sprintf("RecvQueued-twice/queued=%d/first-limit=%d", n, k), Bound: -1, RaceBound: -2, ExpectDeadlock: true,
		Body: func(s *vrt.Sched) any {
			r := &trec{ch: make(chan int, n+1)}
			for i := 1; i <= n; i++ {
				r.ch <- i
			}
			s.Spawn("helper", func() {
				vrt.NoBlock("RecvQueued, which must never block")
				r.a = chans.RecvQueued(r.ch, k)
				r.b = chans.RecvQueued(r.ch, n+5)
				vrt.NoBlock("")
			})
			s.Spawn("sender", func() { vrt.Send(r.ch, n+1); r.sent = true })
			return r
		},
		Check: func(x *vrt.Exec, obs any) (*schk.Fail, string) {
			r := obs.(*trec)
			if x.Panic != "" {
				return nil, "panic"
			}
			if x.NoBlockViolated != "" {
				return schk.Failf("queued-receiver-blocked", "%s", x.NoBlockViolated), ""
			}
			var left []int
			for len(r.ch) > 0 {
				left = append(left, <-r.ch)
			}
			all := append(append(append([]int{}, r.a...), r.b...), left...)
			out := fmt.Sprintf("first=%v second=%v left=%v sent=%v", r.a, r.b, left, r.sent)
			want := n
			if r.sent {
				want = n + 1
			}
			if len(all) != want || len(r.a) != min(k, n) {
				return schk.Failf("queued-count", "two RecvQueued calls in a row (limit %d, then unlimited) on %d queued values: %s", k, n, out), ""
			}
			for i, v := range all {
				if v != i+1 {
					return schk.Failf("queued-order-or-invented", "two RecvQueued calls in a row: the first result, the second result and the rest must read 1..%d in order: %s", want, out), ""
				}
			}
			return nil, out
		},
	}
}

func main() {
	r := ev.Start("C19")
	var scs []schk.Scenario
	for _, full := range []bool{false, true} {
		for capN := 0; capN <= ev.Pick(r, 2, 3); capN++ {
			for fill := 0; fill <= capN; fill++ {
				for _, closed := range []bool{false, true} {
					for limit := 0; limit <= ev.Pick(r, 3, 4); limit++ {
						scs = append(scs, queuedScenario(qconf{full, capN, fill, closed, limit, 0, 0}))
						if !closed && fill == capN {
							scs = append(scs, queuedScenario(qconf{full, capN, fill, closed, limit, 1, 0}))
							if capN <= 1 {
								scs = append(scs, queuedScenario(qconf{full, capN, fill, closed, limit, 2, 0}))
							}
						}
					}
				}
			}
		}
	}
	// negative limits: nothing may be received
	for _, full := range []bool{false} {
		for _, limit := range []int{-1, -2, math.MinInt} {
			for capN := 0; capN <= 2; capN++ {
				scs = append(scs, queuedScenario(qconf{full: full, capN: capN, fill: capN, limit: limit}))
				scs = append(scs, queuedScenario(qconf{full: full, capN: capN, fill: capN, closed: true, limit: limit}))
			}
			scs = append(scs, queuedScenario(qconf{full: full, capN: 0, fill: 0, limit: limit, blockedPeers: 1}))
		}
	}
	// large queues (a batch path behind a fill-level threshold) alone and with a rival receiver
	for _, full := range []bool{false, true} {
		for _, capN := range []int{15, 16, 17, 33, 64} {
			for _, limit := range []int{capN - 1, capN, capN + 3} {
				scs = append(scs, queuedScenario(qconf{full: full, capN: capN, fill: capN, limit: limit}))
				scs = append(scs, queuedScenario(qconf{full: full, capN: capN, fill: capN, closed: true, limit: limit}))
				scs = append(scs, queuedScenario(qconf{full: full, capN: capN, fill: capN, limit: limit, rival: 1}))
				if capN <= 17 {
					scs = append(scs, queuedScenario(qconf{full: full, capN: capN, fill: capN, limit: limit, rival: 2}))
				}
			}
		}
	}
	// two calls in a row by one thread, both results kept
	for n := 0; n <= 4; n++ {
		for k := 0; k <= n; k++ {
			scs = append(scs, twiceScenario(n, k))
		}
	}
	scs = append(scs, twiceScenario(40, 17), twiceScenario(300, 256))
	// very long queues (a batch size / preallocation cap would sit well above the sizes above)
	hugeCaps := []int{65535, 65537, 70000}
	if r.Thorough() {
		hugeCaps = append(hugeCaps, 1<<17+1, 1<<20+1)
	}
	for _, full := range []bool{false, true} {
		for _, capN := range hugeCaps {
			scs = append(scs, queuedScenario(qconf{full: full, capN: capN, fill: capN, limit: capN + 3}))
			scs = append(scs, queuedScenario(qconf{full: full, capN: capN, fill: capN, closed: true, limit: capN}))
			if !full {
				scs = append(scs, queuedScenario(qconf{full: full, capN: capN, fill: capN, closed: true, limit: math.MaxInt}))
			}
		}
	}
	for _, h := range []string{"SendTimeout", "SendContext", "RecvTimeout", "RecvContext"} {
		peers := []string{"none", "recv", "recv2"}
		if h[:4] == "Recv" {
			peers = []string{"none", "send", "close", "sendclose", "recv"}
		}
		for _, p := range peers {
			for capN := 0; capN <= ev.Pick(r, 1, 2); capN++ {
				for pre := 0; pre <= capN; pre++ {
					for _, timed := range []bool{false, true} {
						if h == "SendContext" || h == "RecvContext" || true {
							scs = append(scs, timedScenario(conf{h, p, capN, pre, timed}))
						}
					}
				}
			}
		}
	}
	for _, sh := range []string{"SendTimeout", "SendContext"} {
		for _, rh := range []string{"RecvTimeout", "RecvContext"} {
			for capN := 0; capN <= 2; capN++ {
				for pre := 0; pre <= capN; pre++ {
					for _, st := range []bool{false, true} {
						for _, rt := range []bool{false, true} {
							scs = append(scs, duoScenario(sh, rh, capN, pre, st, rt))
						}
					}
				}
			}
		}
	}
	// several calls per thread / several helpers of the same kind on one channel
	calls := []string{"ST+", "ST-", "SC+", "SC-", "RT+", "RT-", "RC+", "RC-"}
	for _, a := range calls {
		for _, b := range calls {
			for capN := 0; capN <= 1; capN++ {
				// one thread, two calls in a row, against a peer making the complementary single call
				peer := "RT-"
				if a[0] == 'R' {
					peer = "ST-"
				}
				scs = append(scs, multiScenario([][]string{{a, b}, {peer}}, capN, 0, -1))
				if r.Thorough() {
					for _, c := range calls {
						scs = append(scs, multiScenario([][]string{{a, b}, {c}}, capN, capN, -1))
						scs = append(scs, multiScenario([][]string{{a}, {b}, {c}}, capN, 0, -1))
					}
				}
			}
		}
	}
	for _, pair := range [][2]string{{"ST+", "RT+"}, {"ST-", "RT-"}, {"SC+", "RC+"}, {"SC-", "RT+"}, {"ST+", "RC-"}} {
		for capN := 0; capN <= 1; capN++ {
			scs = append(scs, multiScenarioZ([][]string{{pair[0]}, {pair[1]}}, capN, 0, -1, true))
			scs = append(scs, multiScenarioZ([][]string{{pair[0], pair[0]}, {pair[1], pair[1]}}, capN, 0, ev.Pick(r, 3, -1), true))
		}
	}
	// a receiving helper, a rival plain receiver and a closer on a channel that holds queued values
	for _, h := range []string{"RT+", "RT-", "RC+", "RC-"} {
		for capN := 1; capN <= 2; capN++ {
			for pre := 1; pre <= capN; pre++ {
				scs = append(scs, multiScenario([][]string{{h}, {"PR-"}, {"CL-"}}, capN, pre, -1))
				scs = append(scs, multiScenario([][]string{{h, h}, {"PR-"}, {"CL-"}}, capN, pre, ev.Pick(r, 3, -1)))
			}
		}
	}
	for _, tri := range [][]string{{"ST+", "ST+", "RT+"}, {"SC+", "ST-", "RC+"}, {"RT+", "RC+", "ST+"}, {"RT-", "RT+", "SC+"}, {"ST+", "SC+", "RC-"}} {
		for capN := 0; capN <= 1; capN++ {
			scs = append(scs, multiScenario([][]string{{tri[0]}, {tri[1]}, {tri[2]}}, capN, 0, ev.Pick(r, 3, -1)))
		}
	}
	schk.Main(r, scs, ev.Pick(r, 45*time.Second, 600*time.Second), func(r *ev.Run) {
		r.Set("rule", "controlled scheduler over the instrumented chans package (channel operations, select and timers modelled; a started timer may fire at any later point). Queued receivers: every capacity x fill level x open/closed x limit (RecvQueuedFull: buffer length), alone and with 1-2 senders blocked on the channel: never blocked, FIFO prefix, nothing invented, nothing lost, rest left in the channel. Timed/context helpers: helper || peer (none, receives once/twice, sends, closes, sends then closes) || timer or canceller, capacity 0..1(2), prefilled or not, limit on/off, under ALL interleavings with every ready select case tried: oracle is value conservation (true iff the value is in the buffer or with the peer; (v,true) iff v left the channel; closed counts as false; no limit means never giving up on an open channel). Multi scenarios: threads running 1-2 helper calls in a row on one channel (every ordered pair of the 8 helper/limit variants against a complementary peer; thorough: against every third call, and every triple of single calls) with the same conservation oracle over all calls, so that state surviving a call (a reused timer) is exercised")
		r.Assume("timers are untimed: firing is possible at any point after NewTimer until Stop; sends on a closed channel are outside the property (they panic in Go)")
	})
}
