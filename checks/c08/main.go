// C08: Array2D is a grid of independent cells for every width and height.
package main

import (
	"fmt"
	"math"
	"math/bits"
	"sort"
	"strings"
	"sync"

	"gopkg.in/typ.v4/arrays"
	"verif/lib/enum"
	"verif/lib/ev"
)

var e *enum.E

type grid [][]int // model: [y][x]

func label(x, y int) int { return 100 + 10*y + x }

// fresh returns a w x h array with all cells distinctly labelled, built through
// Set only when via == "set", else through New2DFromJagged.
func fresh(w, h int) (arrays.Array2D[int], grid) {
	a := arrays.New2D[int](w, h)
	g := make(grid, h)
	for y := 0; y < h; y++ {
		g[y] = make([]int, w)
		for x := 0; x < w; x++ {
			g[y][x] = label(x, y)
			a.Set(x, y, label(x, y))
		}
	}
	return a, g
}

func clone(g grid) grid {
	c := make(grid, len(g))
	for i := range g {
		c[i] = append([]int{}, g[i]...)
	}
	return c
}

// diff compares the whole array with the model through Get.
func diff(a arrays.Array2D[int], g grid, w, h int) string {
	if a.Width() != w || a.Height() != h {
		return fmt.Sprintf("Width/Height = %d/%d, want %d/%d", a.Width(), a.Height(), w, h)
	}
	for y := 0; y < h; y++ {
		for x := 0; x < w; x++ {
			var v int
			if p, m := enum.Catch(func() { v = a.Get(x, y) }); p {
				return fmt.Sprintf("Get(%d,%d) panicked inside the bounds: %s", x, y, m)
			}
			if v != g[y][x] {
				return fmt.Sprintf("cell (%d,%d) = %d, want %d", x, y, v, g[y][x])
			}
		}
	}
	return ""
}

func str(g grid) string {
	var sb strings.Builder
	sb.WriteByte('[')
	for y, row := range g {
		if y > 0 {
			sb.WriteByte(' ')
		}
		sb.WriteString(fmt.Sprint(row))
	}
	sb.WriteByte(']')
	return sb.String()
}

type op struct {
	name       string
	a, b, c, d int
}

func (o op) String() string { return fmt.Sprintf("%s(%d,%d,%d,%d)", o.name, o.a, o.b, o.c, o.d) }

// ops enumerates every operation for a shape, coordinates from -1 to w / h.
// farCoords: coordinates far outside a w x h array, including those whose product with the width or
// the height wraps around 2^64 into the range of real cells (y with y*w = t mod 2^64 for a valid flat
// offset t): every one of them must be rejected like -1 or w.
func farCoords(w, h int) []int {
	set := map[int]bool{}
	for _, c := range []int{math.MinInt, math.MinInt + 1, -(1 << 62), -(1 << 32), -(1 << 31), -2, 1 << 31, 1<<31 + 1, 1 << 32, 1<<32 + 1, 1 << 62, 1<<62 + 1, math.MaxInt - 1, math.MaxInt} {
		set[c] = true
	}
	for _, dim := range []int{w, h} {
		if dim <= 1 {
			continue
		}
		for t := 0; t <= w*h; t++ {
			for k := uint64(1); k < uint64(dim); k++ {
				// y = (t + k*2^64) / dim when that is an integer: y*dim wraps to t
				hi, lo := k, uint64(t) // the 128-bit number k*2^64 + t
				q, rem := bits.Div64(hi, lo, uint64(dim))
				if rem == 0 && q < 1<<63 {
					set[int(q)] = true
				}
			}
		}
	}
	var out []int
	for c := range set {
		if c < 0 || (c >= w && c >= h) {
			out = append(out, c)
		}
	}
	sort.Ints(out)
	return out
}

func farOps(w, h int) []op {
	var out []op
	for _, c := range farCoords(w, h) {
		out = append(out, op{"Set", c, 0, 0, 0}, op{"Set", 0, c, 0, 0}, op{"Get", c, 0, 0, 0}, op{"Get", 0, c, 0, 0}, op{"Set", c, c, 0, 0},
			op{"Row", c, 0, 0, 0}, op{"RowSpan", 0, w - 1, c, 0}, op{"RowSpan", 0, 0, c, 0}, op{"RowSpan", c, c, 0, 0}, op{"RowSpan", 0, c, 0, 0},
			op{"Fill", 0, 0, c, 0}, op{"Fill", 0, 0, 0, c}, op{"Fill", c, 0, 0, 0}, op{"Fill", 0, c, 0, 0})
	}
	return out
}

func ops(w, h int) []op {
	var out []op
	for y := -1; y <= h; y++ {
		for x := -1; x <= w; x++ {
			out = append(out, op{"Set", x, y, 0, 0}, op{"Get", x, y, 0, 0})
		}
		out = append(out, op{"Row", y, 0, 0, 0})
		for x1 := -1; x1 <= w; x1++ {
			for x2 := x1; x2 <= w; x2++ {
				out = append(out, op{"RowSpan", x1, x2, y, 0})
			}
		}
	}
	for y1 := -1; y1 <= h; y1++ {
		for y2 := -1; y2 <= h; y2++ {
			for x1 := -1; x1 <= w; x1++ {
				for x2 := -1; x2 <= w; x2++ {
					out = append(out, op{"Fill", x1, y1, x2, y2})
				}
			}
		}
	}
	out = append(out, op{"Clone", 0, 0, 0, 0})
	return append(out, farOps(w, h)...)
}

// apply runs one op on the array and the model; returns a failure message or "".
// val is the value written by this op (distinct per step).
func apply(a arrays.Array2D[int], g grid, w, h int, o op, val int) (sig, msg string) {
	inx := func(x int) bool { return x >= 0 && x < w }
	iny := func(y int) bool { return y >= 0 && y < h }
	e.Call()
	switch o.name {
	case "Set":
		ok := inx(o.a) && iny(o.b)
		p, m := enum.Catch(func() { a.Set(o.a, o.b, val) })
		if p == ok {
			return "Set|bounds", fmt.Sprintf("Set(%d,%d) on %dx%d: panicked=%v %s", o.a, o.b, w, h, p, m)
		}
		if ok {
			g[o.b][o.a] = val
		}
	case "Get":
		ok := inx(o.a) && iny(o.b)
		var v int
		p, m := enum.Catch(func() { v = a.Get(o.a, o.b) })
		if p == ok {
			return "Get|bounds", fmt.Sprintf("Get(%d,%d) on %dx%d: panicked=%v %s", o.a, o.b, w, h, p, m)
		}
		if ok && v != g[o.b][o.a] {
			return "Get|value", fmt.Sprintf("Get(%d,%d) = %d, want %d", o.a, o.b, v, g[o.b][o.a])
		}
	case "Row", "RowSpan":
		var x1, x2, y int
		var ok bool
		var row []int
		var p bool
		var m string
		if o.name == "Row" {
			x1, x2, y = 0, w-1, o.a
			ok = iny(y)
			p, m = enum.Catch(func() { row = a.Row(y) })
		} else {
			x1, x2, y = o.a, o.b, o.c
			ok = inx(x1) && inx(x2) && iny(y)
			p, m = enum.Catch(func() { row = a.RowSpan(x1, x2, y) })
		}
		if p == ok {
			return o.name + "|bounds", fmt.Sprintf("%v on %dx%d: panicked=%v %s", o, w, h, p, m)
		}
		if !ok {
			break
		}
		if len(row) != x2-x1+1 {
			return o.name + "|length", fmt.Sprintf("%v on %dx%d returned %d elements, want %d", o, w, h, len(row), x2-x1+1)
		}
		for i, v := range row {
			if v != g[y][x1+i] {
				return o.name + "|contents", fmt.Sprintf("%v on %dx%d: element %d = %d, want cell (%d,%d) = %d", o, w, h, i, v, x1+i, y, g[y][x1+i])
			}
		}
		// live window: writes through the slice land in exactly those cells ...
		for i := range row {
			row[i] = val + i
			g[y][x1+i] = val + i
		}
		if d := diff(a, g, w, h); d != "" {
			return o.name + "|write-through", fmt.Sprintf("after writing through %v on %dx%d: %s", o, w, h, d)
		}
		// ... and writes to the array show in the slice
		for i := range row {
			a.Set(x1+i, y, val+50+i)
			g[y][x1+i] = val + 50 + i
			if row[i] != val+50+i {
				return o.name + "|not-live", fmt.Sprintf("%v on %dx%d: Set(%d,%d) not visible through the returned slice", o, w, h, x1+i, y)
			}
		}
	case "Fill":
		ok := inx(o.a) && inx(o.c) && iny(o.b) && iny(o.d)
		p, m := enum.Catch(func() { a.Fill(o.a, o.b, o.c, o.d, val) })
		if p == ok {
			return "Fill|bounds", fmt.Sprintf("%v on %dx%d: panicked=%v %s", o, w, h, p, m)
		}
		if ok {
			x1, x2, y1, y2 := o.a, o.c, o.b, o.d
			if x2 < x1 {
				x1, x2 = x2, x1
			}
			if y2 < y1 {
				y1, y2 = y2, y1
			}
			for y := y1; y <= y2; y++ {
				for x := x1; x <= x2; x++ {
					g[y][x] = val
				}
			}
		}
	case "Clone":
		c := a.Clone()
		if d := diff(c, g, w, h); d != "" {
			return "Clone|contents", "clone differs: " + d
		}
		gc := clone(g)
		for y := 0; y < h; y++ {
			for x := 0; x < w; x++ {
				c.Set(x, y, -1)
			}
		}
		if d := diff(a, g, w, h); d != "" {
			return "Clone|shares-memory", "writing to the clone changed the original: " + d
		}
		c2 := a.Clone()
		if w > 0 && h > 0 {
			a.Set(w-1, h-1, val)
			g[h-1][w-1] = val
		}
		if d := diff(c2, gc, w, h); d != "" {
			return "Clone|shares-memory", "writing to the original changed the clone: " + d
		}
	}
	// frame condition: exactly the intended cells changed
	if d := diff(a, g, w, h); d != "" {
		return o.name + "|frame", fmt.Sprintf("after %v on %dx%d: %s", o, w, h, d)
	}
	// no format is promised: the rendering must name exactly the cells (labels are distinct)
	if s := a.String(); !enum.SameMultiset(enum.IntTokens(s), enum.IntTokens(str(g))) {
		return "String", fmt.Sprintf("String() = %q, cells %q", s, str(g))
	}
	return "", ""
}

// typedGrids runs the cell model over ONE element type: shapes up to 3x3, every cell given a distinct
// value made by mk, then New2DFilled / Set / Get / Fill / Row / Clone / New2DFromJagged / String against a
// [][]T model. String's model is the documented layout with every cell rendered by fmt.Sprint on the cell
// itself. same decides whether two cells are the very same value (identity for pointers).
func typedGrids[T any](tname string, mk func(i int) T, same func(a, b T) bool) {
	render := func(g [][]T) string {
		var sb strings.Builder
		sb.WriteByte('[')
		for y, row := range g {
			if y > 0 {
				sb.WriteByte(' ')
			}
			sb.WriteByte('[')
			for x, c := range row {
				if x > 0 {
					sb.WriteByte(' ')
				}
				sb.WriteString(fmt.Sprint(c))
			}
			sb.WriteByte(']')
		}
		sb.WriteByte(']')
		return sb.String()
	}
	for w := 0; w <= 3; w++ {
		for h := 0; h <= 3; h++ {
			rp := map[string]any{"element_type": tname, "w": w, "h": h}
			e.Input(w != h)
			if p, m := enum.Catch(func() {
				a := arrays.New2D[T](w, h)
				g := make([][]T, h)
				for y := range g {
					g[y] = make([]T, w)
				}
				cmp := func(what string, a arrays.Array2D[T], g [][]T) bool {
					e.Call()
					for y := 0; y < h; y++ {
						for x := 0; x < w; x++ {
							if !same(a.Get(x, y), g[y][x]) {
								e.Fail("element-type|"+what, rp, "Array2D[%s] %dx%d %s: cell (%d,%d) = %v, want %v", tname, w, h, what, x, y, a.Get(x, y), g[y][x])
								return false
							}
						}
					}
					got := a.String()
					for y := range g {
						for _, c := range g[y] {
							if r := fmt.Sprint(c); !strings.Contains(got, r) {
								e.Fail("String", rp, "Array2D[%s] %dx%d %s: String() = %q does not contain the cell %q (cells: %s)", tname, w, h, what, got, r, render(g))
								return false
							}
						}
					}
					return true
				}
				if !cmp("zero-valued", a, g) {
					return
				}
				n := 0
				for y := 0; y < h; y++ {
					for x := 0; x < w; x++ {
						n++
						v := mk(n)
						a.Set(x, y, v)
						g[y][x] = v
					}
				}
				if !cmp("after Set of every cell", a, g) {
					return
				}
				c := a.Clone()
				cg := make([][]T, h)
				for y := range g {
					cg[y] = append([]T{}, g[y]...)
				}
				if w > 0 && h > 0 {
					v := mk(100)
					c.Set(w-1, h-1, v)
					cg[h-1][w-1] = v
					if !cmp("original after writing to its clone", a, g) || !cmp("clone", c, cg) {
						return
					}
					fv := mk(200)
					a.Fill(w-1, h-1, 0, h/2, fv)
					for y := h / 2; y < h; y++ {
						for x := 0; x < w; x++ {
							g[y][x] = fv
						}
					}
					if !cmp("after Fill", a, g) {
						return
					}
					row := a.Row(0)
					rv := mk(300)
					row[0] = rv
					g[0][0] = rv
					if !cmp("after a write through Row(0)", a, g) {
						return
					}
				}
				fl := mk(400)
				f := arrays.New2DFilled(w, h, fl)
				fg := make([][]T, h)
				for y := range fg {
					fg[y] = make([]T, w)
					for x := range fg[y] {
						fg[y][x] = fl
					}
				}
				if !cmp("New2DFilled", f, fg) {
					return
				}
				j := arrays.New2DFromJagged(w, h, g)
				cmp("New2DFromJagged(model)", j, g)
			}); p {
				e.Fail("element-type|panic", rp, "Array2D[%s] %dx%d: %s", tname, w, h, m)
			}
		}
	}
}

type cellS struct{ A, B int }
type cellStringer struct{ n int }

func (c cellStringer) String() string { return fmt.Sprintf("<%d>", c.n) }

type cellPS struct{ n int }

func (c *cellPS) String() string { return fmt.Sprintf("{ps %d}", c.n) }

type cellErrStr struct{ n int }

func (c cellErrStr) String() string { return fmt.Sprintf("str%d", c.n) }
func (c cellErrStr) Error() string  { return fmt.Sprintf("err%d", c.n) }

// hugeGrids: arrays of more than 2^25 one-byte cells in very wide, very tall and lop-sided shapes (a
// strategy that changes with the number of cells - parallel bands, blocked copies - shows only here). One
// pass each: New2DFilled, a full Fill, a Fill of an inner rectangle, single Sets at the corners, Row,
// Clone; every cell is read back after each step against a function model (O(cells) per step).
func hugeGrids(r *ev.Run, shapes [][2]int) int {
	calls := 0
	for _, sh := range shapes {
		w, h := sh[0], sh[1]
		rp := map[string]any{"w": w, "h": h, "family": "huge-grid"}
		bad := func(what string, x, y int, got, want uint8) {
			e.Fail("huge-grid", rp, "%dx%d array of bytes, %s: cell (%d,%d) = %d, want %d", w, h, what, x, y, got, want)
		}
		// want(x,y) is the model: a stack of rectangles over a base value
		type rect struct {
			x1, y1, x2, y2 int
			v              uint8
		}
		var layers []rect
		base := uint8(7)
		model := func(x, y int) uint8 {
			for i := len(layers) - 1; i >= 0; i-- {
				l := layers[i]
				if x >= l.x1 && x <= l.x2 && y >= l.y1 && y <= l.y2 {
					return l.v
				}
			}
			return base
		}
		check := func(a arrays.Array2D[uint8], what string) bool {
			calls++
			for y := 0; y < h; y++ {
				row := a.Row(y)
				if len(row) != w {
					e.Fail("huge-grid", rp, "%dx%d array, %s: Row(%d) has length %d", w, h, what, y, len(row))
					return false
				}
				for x, got := range row {
					if want := model(x, y); got != want {
						bad(what, x, y, got, want)
						return false
					}
				}
			}
			return true
		}
		if p, m := enum.Catch(func() {
			a := arrays.New2DFilled(w, h, base)
			if !check(a, "after New2DFilled") {
				return
			}
			a.Fill(0, 0, w-1, h-1, 9)
			layers = append(layers, rect{0, 0, w - 1, h - 1, 9})
			if !check(a, "after Fill of the whole array") {
				return
			}
			x1, y1, x2, y2 := w/3, h/3, w-1-w/5, h-1
			a.Fill(x2, y2, x1, y1, 11) // corners given in the other order
			layers = append(layers, rect{x1, y1, x2, y2, 11})
			if !check(a, "after Fill of an inner rectangle reaching the last row") {
				return
			}
			for i, c := range [][2]int{{0, 0}, {w - 1, 0}, {0, h - 1}, {w - 1, h - 1}, {w / 2, h / 2}} {
				a.Set(c[0], c[1], uint8(100+i))
				layers = append(layers, rect{c[0], c[1], c[0], c[1], uint8(100 + i)})
			}
			if !check(a, "after Set at the corners") {
				return
			}
			c := a.Clone()
			a.Fill(0, 0, w-1, 0, 1)
			if !check(c, "clone after a Fill of the original's first row") {
				return
			}
		}); p {
			e.Fail("huge-grid|panic", rp, "%dx%d array of bytes: %s", w, h, m)
		}
	}
	return calls
}

func main() {
	ev.GuardFor("C08")
	r := ev.Start("C08")
	defer r.FinishOnPanic()
	e = &enum.E{R: r}
	maxDim := ev.Pick(r, 4, 5)
	pairDim := ev.Pick(r, 3, 4)
	var swg sync.WaitGroup
	for w := 0; w <= maxDim; w++ {
		for h := 0; h <= maxDim; h++ {
			w, h := w, h
			swg.Add(1)
			go func() { // one goroutine per shape (the shapes are independent)
				defer swg.Done()
				shape := map[string]any{"w": w, "h": h}
				// construction through Set on every cell, read back
				var a arrays.Array2D[int]
				var g grid
				if p, m := enum.Catch(func() { a, g = fresh(w, h) }); p {
					e.Fail("Set|panic", shape, "building a %dx%d array through Set panicked: %s", w, h, m)
					return
				}
				if d := diff(a, g, w, h); d != "" {
					e.Fail("Set|aliasing", shape, "%dx%d array after setting every cell to a distinct label: %s", w, h, d)
					return
				}
				all := ops(w, h)
				bad := false
				// every single operation from the labelled state
				for _, o := range all {
					a, g := fresh(w, h)
					e.Input(w != h && w > 0 && h > 0)
					if sig, msg := apply(a, g, w, h, o, 500); sig != "" {
						e.Fail(sig, map[string]any{"w": w, "h": h, "ops": []string{o.String()}}, "%s", msg)
						bad = true
					}
				}
				if bad {
					return
				}
				// every ordered pair of operations for small shapes
				if w <= pairDim && h <= pairDim {
					for _, o1 := range all {
						if o1.name == "Get" {
							continue
						}
						for _, o2 := range all {
							a, g := fresh(w, h)
							e.Input(w != h && w > 0 && h > 0)
							if sig, _ := apply(a, g, w, h, o1, 500); sig != "" {
								break
							}
							if sig, msg := apply(a, g, w, h, o2, 700); sig != "" {
								e.Fail(sig, map[string]any{"w": w, "h": h, "ops": []string{o1.String(), o2.String()}}, "after %v: %s", o1, msg)
							}
						}
						if r.Violations() > 5 {
							break
						}
					}
				}
				// New2DFilled
				{
					e.Call()
					f := arrays.New2DFilled(w, h, 9)
					gf := make(grid, h)
					for y := range gf {
						gf[y] = make([]int, w)
						for x := range gf[y] {
							gf[y][x] = 9
						}
					}
					if d := diff(f, gf, w, h); d != "" {
						e.Fail("New2DFilled", shape, "New2DFilled(%d,%d,9): %s", w, h, d)
					}
				}
				// New2DFromJagged: every row count 0..h+1; row lengths cycle through 0..w+1
				for rows := 0; rows <= h+1; rows++ {
					for shift := 0; shift <= w+1; shift++ {
						jag := make([][]int, rows)
						want := make(grid, h)
						for y := range want {
							want[y] = make([]int, w)
						}
						for y := 0; y < rows; y++ {
							l := (y + shift) % (w + 2)
							jag[y] = make([]int, l)
							for x := 0; x < l; x++ {
								jag[y][x] = label(x, y)
								if x < w && y < h {
									want[y][x] = label(x, y)
								}
							}
						}
						e.Input(rows > h || shift > 0)
						e.Call()
						var ja arrays.Array2D[int]
						rp := map[string]any{"w": w, "h": h, "jagged_rows": rows, "row_length_shift": shift}
						if p, m := enum.Catch(func() { ja = arrays.New2DFromJagged(w, h, jag) }); p {
							e.Fail("New2DFromJagged|panic", rp, "New2DFromJagged(%d,%d, %d rows) panicked: %s", w, h, rows, m)
							continue
						}
						if d := diff(ja, want, w, h); d != "" {
							e.Fail("New2DFromJagged|contents", rp, "New2DFromJagged(%d,%d, %v): %s", w, h, jag, d)
						}
					}
				}
			}()
		}
	}
	swg.Wait()
	// Large/odd-shape family: long thin and wide arrays, a power-of-two square, empty sides
	famCalls := 0
	for _, sh := range [][2]int{{1, 17}, {17, 1}, {16, 16}, {33, 7}, {7, 33}, {0, 9}, {9, 0}, {2, 64}, {64, 2}, {65, 64}, {100, 100}, {4097, 1}, {1, 4097}, {3, 1400}, {1400, 3}, {129, 129}} {
		w, h := sh[0], sh[1]
		shape := map[string]any{"w": w, "h": h, "family": "odd-shapes"}
		{
			famCalls++
			f := arrays.New2DFilled(w, h, 9)
			gf := make(grid, h)
			for y := range gf {
				gf[y] = make([]int, w)
				for x := range gf[y] {
					gf[y][x] = 9
				}
			}
			if d := diff(f, gf, w, h); d != "" {
				e.Fail("New2DFilled", shape, "New2DFilled(%d,%d,9): %s", w, h, d)
			}
		}
		a, g := fresh(w, h)
		if d := diff(a, g, w, h); d != "" {
			e.Fail("Set|aliasing", shape, "%dx%d array after setting every cell: %s", w, h, d)
			continue
		}
		var sel []op
		for _, y := range []int{-1, 0, h / 2, h - 1, h} {
			for _, x := range []int{-1, 0, w / 2, w - 1, w} {
				sel = append(sel, op{"Set", x, y, 0, 0}, op{"Get", x, y, 0, 0})
			}
			sel = append(sel, op{"Row", y, 0, 0, 0}, op{"RowSpan", 0, w - 1, y, 0}, op{"RowSpan", w / 2, w - 1, y, 0}, op{"RowSpan", 0, w / 2, y, 0}, op{"RowSpan", w - 1, w - 1, y, 0})
		}
		for _, c := range [][4]int{{0, 0, w - 1, h - 1}, {w - 1, h - 1, 0, 0}, {w - 1, 0, 0, h - 1}, {0, h - 1, w - 1, 0}, {w / 2, h / 2, w - 1, 0}, {w / 3, h - 1, w / 2, h / 2}, {0, 0, w, 0}, {0, 0, 0, h}} {
			sel = append(sel, op{"Fill", c[0], c[1], c[2], c[3]})
		}
		sel = append(sel, op{"Clone", 0, 0, 0, 0})
		val := 500
		for _, o := range sel {
			if w == 0 || h == 0 {
				if o.name == "RowSpan" && o.a > o.b {
					continue
				}
			}
			if o.name == "RowSpan" && o.a > o.b {
				continue
			}
			famCalls++
			val += 100
			if sig, msg := apply(a, g, w, h, o, val); sig != "" {
				e.Fail(sig, map[string]any{"w": w, "h": h, "family": "odd-shapes", "op": o.String()}, "%s", msg)
				break
			}
		}
	}
	r.Set("large_size_family_calls", famCalls)
	r.Sample(map[string]any{"w": 3, "h": 2, "ops": []string{"Set(2,0,..)", "Get(0,1)"}})
	{
		hs := [][2]int{{8192, 4100}, {4099, 8200}, {1, 1<<25 + 3}}
		if r.Thorough() {
			hs = append(hs, [2]int{1<<25 + 3, 1}, [2]int{3, 1<<24 + 1}, [2]int{16385, 16387}, [2]int{1<<27 + 5, 2})
		}
		r.Set("huge_grid_checks", hugeGrids(r, hs))
	}
	// element types: the same cell model over strings, floats, structs, pointers, interfaces, slices
	typedGrids("string", func(i int) string { return []string{"", "a b", "x", "[", "]", "0"}[i%6] + fmt.Sprint(i) }, func(a, b string) bool { return a == b })
	typedGrids("float64", func(i int) float64 {
		return []float64{math.Copysign(0, -1), 1.5, math.Inf(1), math.NaN(), -2}[i%5] + float64(i%2)
	}, func(a, b float64) bool { return math.Float64bits(a) == math.Float64bits(b) })
	typedGrids("struct", func(i int) cellS { return cellS{i, -i} }, func(a, b cellS) bool { return a == b })
	typedGrids("*struct", func(i int) *cellS {
		if i%4 == 0 {
			return nil
		}
		return &cellS{i, -i}
	}, func(a, b *cellS) bool { return a == b })
	typedGrids("any", func(i int) any {
		switch i % 6 {
		case 0:
			return nil
		case 1:
			return i
		case 2:
			return &cellS{i, i}
		case 3:
			return fmt.Sprint("s", i)
		case 4:
			return cellStringer{i}
		}
		return &[]int{i}
	}, func(a, b any) bool { return a == b })
	typedGrids("[]int", func(i int) []int {
		if i%3 == 0 {
			return nil
		}
		return []int{i, i + 1}
	}, func(a, b []int) bool {
		return len(a) == len(b) && (len(a) == 0 || &a[0] == &b[0]) && (a == nil) == (b == nil)
	})
	typedGrids("*[]int", func(i int) *[]int { return &[]int{i} }, func(a, b *[]int) bool { return a == b })
	typedGrids("map[int]int", func(i int) map[int]int { return map[int]int{i: i} }, func(a, b map[int]int) bool { return fmt.Sprintf("%p", a) == fmt.Sprintf("%p", b) })
	typedGrids("*map[int]int", func(i int) *map[int]int { return &map[int]int{i: i} }, func(a, b *map[int]int) bool { return a == b })
	typedGrids("*[2]int", func(i int) *[2]int { return &[2]int{i, i} }, func(a, b *[2]int) bool { return a == b })
	typedGrids("Stringer", func(i int) fmt.Stringer { return cellStringer{i} }, func(a, b fmt.Stringer) bool { return a == b })
	// cells that fmt prints in a way a hand-rolled rendering gets wrong: nil pointers whose type has a
	// pointer-receiver String method (fmt prints <nil>), values that are both error and Stringer (fmt uses Error)
	typedGrids("*cellPS (pointer-receiver String, nil cells)", func(i int) *cellPS {
		if i%2 == 0 {
			return nil
		}
		return &cellPS{i}
	}, func(a, b *cellPS) bool { return a == b })
	typedGrids("cellErrStr (error and Stringer)", func(i int) cellErrStr { return cellErrStr{i} }, func(a, b cellErrStr) bool { return a == b })
	typedGrids("error", func(i int) error {
		if i%2 == 0 {
			return nil
		}
		return cellErrStr{i}
	}, func(a, b error) bool { return a == b })
	typedGrids("error", func(i int) error {
		if i%2 == 0 {
			return nil
		}
		return fmt.Errorf("e%d", i)
	}, func(a, b error) bool { return a == b })
	e.Finish(fmt.Sprintf("every shape w,h in 0..%d from the all-cells-distinct labelling: every Set/Get with x in -1..w, y in -1..h and with coordinates far outside (extremes of int, and every coordinate whose product with the width or height wraps around 2^64 onto a real cell); Row(y) and RowSpan(x1<=x2,y) incl. out of range with write-through both ways; Fill for every pair of corners in either order incl. one coordinate outside; Clone; String; arrays of more than 2^25 byte cells in wide, tall and lop-sided shapes (full and partial Fill, corner Sets, Clone, every cell read back); the same model over 12 element types (strings, floats incl. NaN and -0, structs, pointers to structs/slices/maps/arrays, interfaces, slices, maps, Stringers, errors) on shapes up to 3x3 with String rendered cell by cell; every ordered pair of operations for shapes up to %dx%d; New2DFilled; New2DFromJagged for every row count 0..h+1 and row lengths 0..w+1; oracle: cell-grid model with frame condition (exactly the intended cells change); non-trivial = non-square shape", maxDim, pairDim, pairDim))
}
