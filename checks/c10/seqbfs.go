package main

import (
	"errors"
	"fmt"
	"strings"

	"gopkg.in/typ.v4/chans"
	"verif/lib/ev"
	"verif/lib/fp"
	"verif/lib/seqmc"
)

// apiH is the sequential harness of the PubSub API (one goroutine, pass-through mode): explicit-state
// search over subscribe / unsubscribe / publish histories on ONE PubSub, with a table of up to H
// subscription handles that stay in the table after their removal (so that every call is also made
// with channels that were already removed), and one retained WithOnly publisher. All subscriptions are
// buffered and drained after every call, so nothing blocks. Model: which handles are subscribed;
// oracle: after every call each handle's channel holds exactly the events the model says, is closed
// iff it was removed, and the documented errors come back.
type apiH struct {
	H        int
	ps       *chans.PubSub[int]
	handles  []<-chan int
	live     []bool
	retained *chans.PubSub[int] // a WithOnly publisher kept across later calls
	retFor   int
	expect   [][]int
	// a second, unrelated PubSub with one subscription: what happens on one must not show on the other
	other       *chans.PubSub[int]
	otherCh     <-chan int
	otherLive   bool
	otherExpect []int
}

func newAPI(h int) *apiH {
	x := &apiH{H: h, ps: &chans.PubSub[int]{}, retFor: -1, other: &chans.PubSub[int]{}, otherLive: true}
	x.otherCh = x.other.SubBuf(4)
	return x
}

func (x *apiH) Ops() []seqmc.Op {
	var ops []seqmc.Op
	if len(x.handles) < x.H {
		ops = append(ops, seqmc.Op{Name: "SubBuf"}, seqmc.Op{Name: "Sub(DefaultBuffer)"})
	}
	ops = append(ops, seqmc.Op{Name: "UnsubAll"}, seqmc.Op{Name: "Unsub(nil)"}, seqmc.Op{Name: "Unsub(foreign)"},
		seqmc.Op{Name: "PubSync"}, seqmc.Op{Name: "PubWait"}, seqmc.Op{Name: "PubSliceSync"}, seqmc.Op{Name: "PubSliceWait"})
	for i := range x.handles {
		ops = append(ops, seqmc.Op{Name: "Unsub", A: i}, seqmc.Op{Name: "WithOnly.PubSync", A: i}, seqmc.Op{Name: "WithOnly.PubSliceSync", A: i}, seqmc.Op{Name: "Retain WithOnly", A: i})
	}
	if x.retained != nil {
		ops = append(ops, seqmc.Op{Name: "retained.PubSync"})
	}
	ops = append(ops, seqmc.Op{Name: "other.PubSync"})
	if x.otherLive {
		ops = append(ops, seqmc.Op{Name: "other.UnsubAll"})
	}
	return ops
}

func catch(f func()) (panicked bool, msg string) {
	defer func() {
		if r := recover(); r != nil {
			panicked, msg = true, fmt.Sprint(r)
		}
	}()
	f()
	return
}

func (x *apiH) deliver(only int, evs ...int) {
	for i := range x.handles {
		if x.live[i] && (only < 0 || only == i) {
			x.expect[i] = append(x.expect[i], evs...)
		}
	}
}

func (x *apiH) Apply(op seqmc.Op) *seqmc.Fail {
	switch op.Name {
	case "SubBuf", "Sub(DefaultBuffer)":
		var ch <-chan int
		if op.Name == "SubBuf" {
			ch = x.ps.SubBuf(4)
		} else {
			x.ps.DefaultBuffer = 4
			ch = x.ps.Sub()
		}
		if ch == nil || cap(ch) != 4 {
			return seqmc.Failf("Sub:channel", "%s returned a channel of capacity %d, want 4", op.Name, cap(ch))
		}
		for i, h := range x.handles {
			if h == ch {
				return seqmc.Failf("Sub:channel", "%s returned the channel of handle %d again", op.Name, i)
			}
		}
		x.handles, x.live, x.expect = append(x.handles, ch), append(x.live, true), append(x.expect, nil)
	case "Unsub":
		err := x.ps.Unsub(x.handles[op.A])
		if x.live[op.A] && err != nil {
			return seqmc.Failf("Unsub:error", "Unsub of a subscribed channel returned %v", err)
		}
		if !x.live[op.A] && !errors.Is(err, chans.ErrAlreadyUnsubscribed) {
			return seqmc.Failf("Unsub:error", "Unsub of a channel that was already removed returned %v, want ErrAlreadyUnsubscribed", err)
		}
		x.live[op.A] = false
	case "Unsub(nil)":
		if err := x.ps.Unsub(nil); !errors.Is(err, chans.ErrSubscriptionNotInitalized) {
			return seqmc.Failf("Unsub:error", "Unsub(nil) returned %v, want ErrSubscriptionNotInitalized", err)
		}
	case "Unsub(foreign)":
		if err := x.ps.Unsub(make(chan int)); !errors.Is(err, chans.ErrAlreadyUnsubscribed) {
			return seqmc.Failf("Unsub:error", "Unsub of a channel this PubSub never handed out returned %v, want ErrAlreadyUnsubscribed", err)
		}
	case "UnsubAll":
		if err := x.ps.UnsubAll(); err != nil {
			return seqmc.Failf("UnsubAll:error", "UnsubAll returned %v", err)
		}
		for i := range x.live {
			x.live[i] = false
		}
	case "PubSync":
		x.ps.PubSync(1)
		x.deliver(-1, 1)
	case "PubWait":
		x.ps.PubWait(2)
		x.deliver(-1, 2)
	case "PubSliceSync":
		x.ps.PubSliceSync([]int{3, 4})
		x.deliver(-1, 3, 4)
	case "PubSliceWait":
		x.ps.PubSliceWait([]int{5})
		x.deliver(-1, 5)
	case "WithOnly.PubSync":
		x.ps.WithOnly(x.handles[op.A]).PubSync(6)
		x.deliver(op.A, 6)
	case "WithOnly.PubSliceSync":
		x.ps.WithOnly(x.handles[op.A]).PubSliceSync([]int{7, 8})
		x.deliver(op.A, 7, 8)
	case "other.PubSync":
		x.other.PubSync(11)
		if x.otherLive {
			x.otherExpect = append(x.otherExpect, 11)
		}
	case "other.UnsubAll":
		x.other.UnsubAll()
		x.otherLive = false
	case "Retain WithOnly":
		x.retained, x.retFor = x.ps.WithOnly(x.handles[op.A]), op.A
		if !x.live[op.A] {
			x.retFor = -2 // a publisher for a channel that is not subscribed: reaches nobody
		}
	case "retained.PubSync":
		if x.retFor >= 0 && !x.live[x.retFor] {
			// the one subscription of the retained publisher has been removed from its parent since:
			// this specific history has a signature of its own
			if p, m := catch(func() { x.retained.PubSync(9) }); p {
				return seqmc.Failf("retained-WithOnly-after-removal|panic:"+strings.ReplaceAll(m, " ", "-"), "a WithOnly publisher made while subscription %d was subscribed, used after that subscription was removed from the parent: panic: %s", x.retFor, m)
			}
			return x.drain("retained.PubSync after the subscription was removed")
		}
		x.retained.PubSync(9)
		if x.retFor >= 0 {
			if !x.live[x.retFor] {
				// its one subscription has been removed from the parent since: the event must go nowhere
				// (the channel is closed; sending to it would panic)
				return x.drain("retained.PubSync after the subscription was removed")
			}
			x.deliver(x.retFor, 9)
		}
	}
	return x.drain(op.Name)
}

// drain empties every handle's channel and compares with what the model expects.
func (x *apiH) drain(what string) *seqmc.Fail {
	{
		var got []int
		closed := false
		for done := false; !done; {
			select {
			case v, ok := <-x.otherCh:
				if !ok {
					closed, done = true, true
				} else {
					got = append(got, v)
				}
			default:
				done = true
			}
		}
		want := x.otherExpect
		x.otherExpect = nil
		if fmt.Sprint(got) != fmt.Sprint(want) || closed != !x.otherLive {
			return seqmc.Failf("instance-isolation", "after %s: the subscriber of a second, unrelated PubSub received %v (closed=%v), want %v (closed=%v)", what, got, closed, want, !x.otherLive)
		}
	}
	for i, ch := range x.handles {
		var got []int
		closed := false
		for done := false; !done; {
			select {
			case v, ok := <-ch:
				if !ok {
					closed, done = true, true
				} else {
					got = append(got, v)
				}
			default:
				done = true
			}
		}
		want := x.expect[i]
		x.expect[i] = nil
		if fmt.Sprint(got) != fmt.Sprint(want) {
			return seqmc.Failf("delivery", "after %s: subscription %d (subscribed=%v) received %v, want %v", what, i, x.live[i], got, want)
		}
		if closed != !x.live[i] {
			return seqmc.Failf("closed", "after %s: subscription %d: channel closed = %v although subscribed = %v", what, i, closed, x.live[i])
		}
	}
	return nil
}

func (x *apiH) Key() string {
	// the handles first: their channels are numbered in handle order before the PubSub is walked
	return fp.Of(&struct {
		Handles   []<-chan int
		Live      []bool
		PS        *chans.PubSub[int]
		Retained  *chans.PubSub[int]
		RetFor    int
		Other     *chans.PubSub[int]
		OtherLive bool
	}{x.handles, x.live, x.ps, x.retained, x.retFor, x.other, x.otherLive})
}

func (x *apiH) Observe() *seqmc.Fail { return nil }

// sequentialAPI runs the search and returns (states, transitions).
func sequentialAPI(r *ev.Run) (int, int) {
	h := ev.Pick(r, 3, 4)
	res := seqmc.Explore(r, seqmc.Config{Name: "sequential-api", Workers: 1, MaxStates: 200000, New: func() seqmc.Sys { return newAPI(h) }})
	if !res.Exhaustive {
		r.MarkCapped()
	}
	return res.States, res.Transitions
}

// ModelKey is the layout-independent state key (see seqmc.ModelKeyer): which handles exist and are
// subscribed, the retained publisher's target, the other PubSub's subscription.
func (x *apiH) ModelKey() string {
	return fmt.Sprint(len(x.handles), x.live, x.retained != nil, x.retFor, x.otherLive)
}
