// C10: PubSub delivers every event exactly once to every subscriber.
package main

import (
	"bytes"
	"errors"
	"fmt"
	"os"
	"os/exec"
	"path/filepath"
	"sort"
	"strings"
	"sync"
	"sync/atomic"
	"time"

	"gopkg.in/typ.v4/chans"
	"verif/lib/ev"
	"verif/lib/schk"
	"verif/vrt"
)

type conf struct {
	variant string // Pub PubSlice PubWait PubSliceWait PubSync PubSliceSync
	bufs    []int  // one subscriber per entry, with that buffer size
	timeout bool
	manager string // "", Unsub0, UnsubAll, Sub, UnsubUnknown, UnsubNil, WithOnly0, Pub2 (a second publisher)
	// lazy: per subscriber 'f' = its receiver keeps receiving (default), 'n' = nobody receives from
	// it, '1' = its receiver takes one value and stops. Only used with a timeout: every pair must
	// then still end in a delivery (into the buffer) or one OnPubTimeout call.
	lazy string
}

func (c conf) String() string {
	if c.lazy != "" {
		return fmt.Sprintf("%s/subs=%v/receivers=%s/timeout=%v/manager=%s", c.variant, c.bufs, c.lazy, c.timeout, c.manager)
	}
	return fmt.Sprintf("%s/subs=%v/timeout=%v/manager=%s", c.variant, c.bufs, c.timeout, c.manager)
}

type rec struct {
	c        conf
	ps       *chans.PubSub[int]
	subs     []<-chan int
	got      [][]int // per subscriber: values received, in order
	closed   []bool  // per subscriber: the receiver saw the channel closed
	timeouts []int   // events handed to OnPubTimeout
	newSub   <-chan int
	errs     []error
	returned bool
	// snapshot at the instant the publisher's call returned (Wait/Sync variants)
	pendingAtReturn int
	nEvents         int
	viol            *schk.Fail
}

//go:norace
func (r *rec) onTimeout(e int) { r.timeouts = append(r.timeouts, e) }

//go:norace
func (r *rec) receiver(j int) {
	for n := 0; ; n++ {
		if len(r.c.lazy) > j && r.c.lazy[j] == '1' && n == 1 {
			return
		}
		v, ok := vrt.Recv2(r.subs[j])
		if !ok {
			r.closed[j] = true
			return
		}
		r.got[j] = append(r.got[j], v)
	}
}

func events(variant string) []int {
	if strings.Contains(variant, "Slice") {
		return []int{1, 2}
	}
	return []int{1}
}

//go:norace
func (r *rec) publish(ps *chans.PubSub[int], variant string, evs []int) {
	switch variant {
	case "Pub":
		ps.Pub(evs[0])
	case "PubWait":
		ps.PubWait(evs[0])
	case "PubSync":
		ps.PubSync(evs[0])
	case "PubSlice":
		ps.PubSlice(evs)
	case "PubSliceWait":
		ps.PubSliceWait(evs)
	case "PubSliceSync":
		ps.PubSliceSync(evs)
	}
}

//go:norace
func (r *rec) publisher() {
	evs := events(r.c.variant)
	r.nEvents = len(evs)
	r.publish(r.ps, r.c.variant, evs)
	r.returned = true
	// the caller owns its slice again as soon as the call returns: reuse it (what was published
	// are the values at the time of the call)
	for i := range evs {
		evs[i] += 100
	}
	// completion before return (Wait and Sync variants): every sender goroutine this call
	// started has finished its hand-off or its timeout callback
	// has finished: its send completed (SendsDone counts completed channel sends, whatever goroutines the
	// implementation uses and whether or not they still exist) or OnPubTimeout was called for it
	done := len(r.timeouts)
	for _, sub := range r.subs {
		done += vrt.SendsDone[<-chan int, int](sub)
	}
	r.pendingAtReturn = r.nEvents*len(r.subs) - done
}

//go:norace
func (r *rec) manage() {
	switch r.c.manager {
	case "Unsub0":
		r.errs = append(r.errs, r.ps.Unsub(r.subs[0]))
	case "UnsubAll":
		r.errs = append(r.errs, r.ps.UnsubAll())
	case "Sub":
		r.newSub = r.ps.SubBuf(4)
	case "UnsubUnknown":
		r.errs = append(r.errs, r.ps.Unsub(make(chan int)))
	case "UnsubNil":
		r.errs = append(r.errs, r.ps.Unsub(nil))
	case "WithOnly0":
		only := r.ps.WithOnly(r.subs[0])
		r.publish(only, "PubSync", []int{9})
	case "Pub2":
		r.publish(r.ps, "PubSync", []int{8})
	case "WithOnlyUnsub":
		// a WithOnly clone that is still publishing while its subscription is removed from the parent
		only := r.ps.WithOnly(r.subs[0])
		vrt.Go(func() { r.publish(only, "PubSync", []int{9}) })
		r.errs = append(r.errs, r.ps.Unsub(r.subs[0]))
	}
}

func scenario(c conf, bound int) schk.Scenario {
	return schk.Scenario{
		Name: c.String(), Bound: bound, RaceBound: 1, ExpectDeadlock: true,
		RaceSig: fmt.Sprintf("data-race|%s|%s", c.variant, c.manager),
		Body: func(s *vrt.Sched) any {
			r := &rec{c: c, ps: &chans.PubSub[int]{}}
			if c.timeout {
				// any positive duration is a limit: a nanosecond for odd subscriber counts, a second otherwise
				r.ps.PubTimeoutAfter = time.Second
				if len(c.bufs)%2 == 1 {
					r.ps.PubTimeoutAfter = time.Duration(1)
				}
				r.ps.OnPubTimeout = r.onTimeout
			}
			for j, b := range c.bufs {
				if j%2 == 0 {
					r.ps.DefaultBuffer = b
					r.subs = append(r.subs, r.ps.Sub())
				} else {
					r.subs = append(r.subs, r.ps.SubBuf(b))
				}
			}
			r.got = make([][]int, len(r.subs))
			r.closed = make([]bool, len(r.subs))
			s.Spawn("publisher", r.publisher)
			for j := range r.subs {
				j := j
				if len(c.lazy) > j && c.lazy[j] == 'n' {
					continue
				}
				s.Spawn(fmt.Sprint("recv", j), func() { r.receiver(j) })
			}
			if c.manager != "" {
				s.Spawn("manager", r.manage)
			}
			return r
		},
		Check: func(x *vrt.Exec, obs any) (*schk.Fail, string) {
			r := obs.(*rec)
			if x.Panic != "" {
				cls := "other"
				if strings.Contains(x.Panic, "send on closed channel") {
					cls = "send-on-closed-channel"
				}
				return schk.Failf(fmt.Sprintf("panic:%s|%s|%s", cls, c.variant, c.manager), "the process would die: %q while %s runs concurrently with %s", x.Panic, c.variant, c.manager), ""
			}
			// quiescence: only receivers may still be waiting (they are willing to receive forever)
			for _, b := range x.Blocked {
				if !strings.Contains(b, "(recv") {
					return schk.Failf("stuck", "at quiescence a thread other than a receiver is blocked: %v", x.Blocked), ""
				}
			}
			evs := events(c.variant)
			removed := map[int]bool{}
			switch c.manager {
			case "Unsub0", "WithOnlyUnsub":
				removed[0] = true
			case "UnsubAll":
				for j := range r.subs {
					removed[j] = true
				}
			}
			count := func(l []int, v int) int {
				n := 0
				for _, x := range l {
					if x == v {
						n++
					}
				}
				return n
			}
			var newGot []int
			if r.newSub != nil {
				for len(r.newSub) > 0 {
					newGot = append(newGot, <-r.newSub)
				}
			}
			if c.lazy != "" {
				// handed to the channel = delivered: drain what the lazy receivers left in the buffers
				for j := range r.subs {
					for len(r.subs[j]) > 0 {
						if v, ok := <-r.subs[j]; ok {
							r.got[j] = append(r.got[j], v)
						}
					}
				}
			}
			// the order of the timeout callbacks of independent senders is not part of the property
			// (nor of the happens-before state): canonical order in the outcome
			sort.Ints(r.timeouts)
			out := fmt.Sprintf("got=%v timeouts=%v new=%v closed=%v errs=%v", r.got, r.timeouts, newGot, r.closed, r.errs)
			sync := strings.HasSuffix(c.variant, "Sync")
			for _, e := range evs {
				total, missing := count(r.timeouts, e)+count(newGot, e), 0
				for j := range r.subs {
					d := count(r.got[j], e)
					if d > 1 {
						return schk.Failf("duplicate-delivery", "event %d reached subscriber %d %d times: %s", e, j, d, out), ""
					}
					total += d
					if !removed[j] && d == 0 {
						missing++
					}
				}
				if count(newGot, e) > 1 {
					return schk.Failf("duplicate-delivery", "event %d reached the new subscriber twice: %s", e, out), ""
				}
				if !c.timeout && count(r.timeouts, e) != 0 {
					return schk.Failf("spurious-timeout", "OnPubTimeout(%d) was called although no timeout is configured: %s", e, out), ""
				}
				// every subscriber that stayed subscribed and keeps receiving: a delivery, or (only with a
				// timeout) one OnPubTimeout call in its place
				if missing > count(r.timeouts, e) {
					return schk.Failf("event-lost", "event %d did not reach %d subscriber(s) that stayed subscribed, but only %d timeout callback(s) were made: %s", e, missing, count(r.timeouts, e), out), ""
				}
				max := len(r.subs)
				if r.newSub != nil {
					max++
				}
				if total > max {
					return schk.Failf("delivered-and-timed-out", "event %d: deliveries + timeouts = %d for %d subscriber(s): %s", e, total, max, out), ""
				}
				if c.manager == "" && total != len(r.subs) {
					return schk.Failf("delivered-xor-timed-out", "event %d: deliveries + timeouts = %d, want exactly %d: %s", e, total, len(r.subs), out), ""
				}
			}
			// Sync variants: publication order at every subscriber
			if sync && len(evs) == 2 {
				for j := range r.subs {
					i1, i2 := -1, -1
					for i, v := range r.got[j] {
						if v == 1 {
							i1 = i
						}
						if v == 2 {
							i2 = i
						}
					}
					if i1 >= 0 && i2 >= 0 && i2 < i1 {
						return schk.Failf("out-of-order", "subscriber %d received the events of one PubSliceSync call out of order: %s", j, out), ""
					}
				}
			}
			// nothing unknown was delivered
			for j := range r.subs {
				for _, v := range r.got[j] {
					ok := v == 1 || (v == 2 && len(evs) == 2) || (v == 9 && (c.manager == "WithOnly0" || c.manager == "WithOnlyUnsub") && j == 0) || (v == 8 && c.manager == "Pub2")
					if !ok {
						return schk.Failf("misdelivery", "subscriber %d received %d: %s", j, v, out), ""
					}
				}
			}
			// the publisher returned, and (Wait/Sync, no manager) only after everything was handed off
			if !r.returned {
				return schk.Failf("stuck", "the publish call never returned: %v", x.Blocked), ""
			}
			if c.variant != "Pub" && c.variant != "PubSlice" && c.manager == "" && r.pendingAtReturn > 0 {
				return schk.Failf("returned-early", "%s returned while %d hand-off(s) were still pending: %s", c.variant, r.pendingAtReturn, out), ""
			}
			// manager effects
			switch c.manager {
			case "Unsub0", "UnsubAll", "WithOnlyUnsub":
				if len(r.errs) != 1 || r.errs[0] != nil {
					return schk.Failf("unsub-error", "%s returned %v", c.manager, r.errs), ""
				}
				for j := range r.subs {
					if r.closed[j] != removed[j] {
						return schk.Failf("closed-wrong-channel", "%s: subscriber %d closed=%v, want %v: %s", c.manager, j, r.closed[j], removed[j], out), ""
					}
				}
			case "UnsubUnknown":
				if len(r.errs) != 1 || !errors.Is(r.errs[0], chans.ErrAlreadyUnsubscribed) {
					return schk.Failf("unsub-error", "Unsub(unknown channel) returned %v", r.errs), ""
				}
			case "UnsubNil":
				if len(r.errs) != 1 || !errors.Is(r.errs[0], chans.ErrSubscriptionNotInitalized) {
					return schk.Failf("unsub-error", "Unsub(nil) returned %v", r.errs), ""
				}
			case "WithOnly0":
				if count(r.got[0], 9)+count(r.timeouts, 9) != 1 {
					return schk.Failf("withonly", "WithOnly(sub0).PubSync(9): subscriber 0 got it %d times: %s", count(r.got[0], 9), out), ""
				}
			case "Pub2":
				for j := range r.subs {
					if count(r.got[j], 8)+count(r.timeouts, 8) < 1 {
						return schk.Failf("event-lost", "the second publisher's event did not reach subscriber %d: %s", j, out), ""
					}
				}
			}
			if c.manager != "Unsub0" && c.manager != "UnsubAll" && c.manager != "WithOnlyUnsub" {
				for j := range r.subs {
					if r.closed[j] {
						return schk.Failf("closed-wrong-channel", "subscriber %d's channel was closed by %q: %s", j, c.manager, out), ""
					}
				}
			}
			return nil, out
		},
	}
}

// crowdScenario: n unbuffered subscriptions, all but the `idle` ones with a receiver that keeps
// receiving, one asynchronous publisher (Pub / PubSlice), no timeout. A subscriber that nobody receives
// from may keep its own hand-off waiting for ever, but it must not keep the event from any subscriber
// that IS being received from (more subscribers than any internal pool of sender goroutines).
func crowdScenario(variant string, n int, idle []int, bound int) schk.Scenario {
	return crowdScenarioB(variant, n, 0, idle, bound)
}

// crowdScenarioB: the same with subscriptions of buffer size buf (with a buffer of 1 and a two-event
// PubSlice an idle subscriber takes the first event into its buffer and keeps the second one waiting).
func crowdScenarioB(variant string, n, buf int, idle []int, bound int) schk.Scenario {
	isIdle := map[int]bool{}
	for _, j := range idle {
		isIdle[j] = true
	}
	return schk.Scenario{
		Name: fmt.Sprintf("crowd/%s/%d-subscribers(buffer %d)/nobody-receives-from=%v", variant, n, buf, idle), Bound: bound, Delay: true, RaceBound: -2, ExpectDeadlock: true, MaxSteps: 40000 + 60*n,
		Schedules: map[bool]int{false: 0, true: 1}[n > 100],
		Body: func(s *vrt.Sched) any {
			r := &rec{c: conf{variant: variant}, ps: &chans.PubSub[int]{}}
			for j := 0; j < n; j++ {
				r.subs = append(r.subs, r.ps.SubBuf(buf))
			}
			r.got = make([][]int, n)
			r.closed = make([]bool, n)
			s.Spawn("publisher", r.publisher)
			for j := 0; j < n; j++ {
				j := j
				if !isIdle[j] {
					s.Spawn(fmt.Sprint("recv", j), func() { r.receiver(j) })
				}
			}
			return r
		},
		Check: func(x *vrt.Exec, obs any) (*schk.Fail, string) {
			r := obs.(*rec)
			if x.Panic != "" {
				return schk.Failf("panic:other|"+variant+"|crowd", "the process would die: %q", x.Panic), ""
			}
			senders := 0
			for _, b := range x.Blocked {
				if !strings.Contains(b, "(recv") {
					senders++
				}
			}
			if senders > len(idle)*len(events(variant)) || !r.returned {
				return schk.Failf("stuck", "%d subscribers, nobody receives from %v: at quiescence %d threads other than receivers are blocked (returned=%v); at most one hand-off per event and idle subscriber may wait", n, idle, senders, r.returned), ""
			}
			for j := 0; j < n; j++ {
				if isIdle[j] {
					continue
				}
				want := events(variant)
				got := append([]int{}, r.got[j]...)
				sort.Ints(got) // the asynchronous publishers promise no order
				if fmt.Sprint(got) != fmt.Sprint(want) {
					return schk.Failf("event-lost", "%d subscribers, nobody receives from %v: subscriber %d, which is being received from, got %v, want %v", n, idle, j, r.got[j], want), ""
				}
			}
			return nil, "ok"
		},
	}
}

func main() {
	r := ev.Start("C10")
	var scs []schk.Scenario
	bufsets := [][]int{{}, {0}, {1}, {0, 0}, {0, 1}, {1, 0}, {1, 1}}
	if r.Thorough() {
		bufsets = append(bufsets, []int{0, 0, 0}, []int{1, 0, 1})
	}
	for _, v := range []string{"Pub", "PubSlice", "PubWait", "PubSliceWait", "PubSync", "PubSliceSync"} {
		for _, bs := range bufsets {
			for _, to := range []bool{false, true} {
				for _, m := range []string{"", "Unsub0", "UnsubAll", "Sub", "UnsubUnknown", "UnsubNil", "WithOnly0", "Pub2", "WithOnlyUnsub"} {
					if len(bs) == 0 && (m == "Unsub0" || m == "WithOnly0" || m == "WithOnlyUnsub") {
						continue
					}
					if m == "WithOnlyUnsub" && v != "PubSync" {
						continue
					}
					if !r.Thorough() && len(bs) == 2 && (m == "UnsubUnknown" || m == "UnsubNil") {
						continue
					}
					c := conf{v, bs, to, m, ""}
					// delay-bounded: every configuration (many threads: publisher, receivers, manager,
					// one sender goroutine and one timer per (event, subscriber) pair)
					d := scenario(c, ev.Pick(r, 2, 4))
					d.Name += "/delay-bounded"
					d.Delay = true
					scs = append(scs, d)
					// preemption-bounded (forced switches free): the configurations with few threads
					slice := strings.Contains(v, "Slice")
					switch {
					case len(bs) <= 1 && !to && !slice:
						scs = append(scs, scenario(c, -1))
					case len(bs) <= 1 && slice && to && m != "":
						// two events, timers and a manager: many threads even with one subscriber; the quick
						// tier relies on the delay-bounded twin, the thorough tier adds preemption bound 1
						if r.Thorough() {
							sc := scenario(c, 1)
							sc.RaceBound = -2
							scs = append(scs, sc)
						}
					case len(bs) <= 1:
						scs = append(scs, scenario(c, ev.Pick(r, 2, 3)))
					case !to && !slice:
						sc := scenario(c, ev.Pick(r, 1, 3))
						sc.RaceBound = -2 // the delay-bounded twin of this configuration runs in the race build
						scs = append(scs, sc)
					case r.Thorough():
						sc := scenario(c, 1)
						sc.RaceBound = -2
						scs = append(scs, sc)
					}
				}
			}
		}
	}
	// receivers that do not (keep) receive, with a timeout: delivered-xor-timed-out must still hold
	for _, v := range []string{"Pub", "PubSlice", "PubWait", "PubSliceWait", "PubSync", "PubSliceSync"} {
		for _, lz := range []struct {
			bufs []int
			lazy string
		}{{[]int{0}, "n"}, {[]int{1}, "n"}, {[]int{1}, "1"}, {[]int{2}, "n"}, {[]int{1, 1}, "nn"}, {[]int{0, 1}, "fn"}, {[]int{1, 0}, "1f"}, {[]int{2, 0}, "nf"}} {
			if !r.Thorough() && len(lz.bufs) == 2 && strings.Contains(v, "Slice") && v != "PubSliceWait" {
				continue
			}
			c := conf{v, lz.bufs, true, "", lz.lazy}
			d := scenario(c, ev.Pick(r, 2, 4))
			d.Name += "/delay-bounded"
			d.Delay = true
			scs = append(scs, d)
			if len(lz.bufs) == 1 {
				scs = append(scs, scenario(c, ev.Pick(r, 2, 3)))
			}
		}
	}
	for _, variant := range []string{"Pub", "PubSlice"} {
		for _, n := range ev.Pick(r, []int{3, 1100}, []int{3, 70, 1100, 2049, 4100}) {
			if n > 100 {
				// thousands of model threads: buffered subscriptions (no rendezvous partner search), and
				// the two-event publisher, whose second event an idle subscriber keeps waiting
				if variant == "PubSlice" {
					scs = append(scs, crowdScenarioB(variant, n, 1, []int{0, n - 1}, 0))
				} else if r.Thorough() && n <= 1100 {
					// (unbuffered: every step searches all threads for a rendezvous partner - one schedule of
					// 1100 subscribers takes most of a minute, 4100 would take hours)
					scs = append(scs, crowdScenarioB(variant, n, 0, []int{0, n - 1}, 0))
				}
				continue
			}
			scs = append(scs, crowdScenario(variant, n, []int{0}, 1), crowdScenario(variant, n, []int{n / 2, n - 1}, 1), crowdScenario(variant, n, nil, 1))
		}
	}
	if os.Getenv("VERIF_C10_SEQ") != "" {
		// child process: the sequential parts only (see below)
		r.Set("sequential_family_calls", sequentialFamily(r))
		r.Set("huge_crowd_family_subscribers", hugeCrowd(r))
		st, tr := sequentialAPI(r)
		r.Set("sequential_api_states", st)
		r.Set("sequential_api_transitions", tr)
		r.Finish()
	}
	if os.Getenv("VERIF_SHARD") == "" && os.Getenv("VERIF_REPLAY") == "" {
		// The sequential families and the sequential API search call the real package without the
		// scheduler; a publisher that panics in one of ITS OWN goroutines would take this process down,
		// so they run in a child process whose death is a violation, not an infrastructure error.
		pf := filepath.Join(os.TempDir(), fmt.Sprintf("c10seq-%d.json", os.Getpid()))
		cmd := exec.Command(os.Args[0], os.Args[1:]...)
		cmd.Env = append(os.Environ(), "VERIF_C10_SEQ=1", "VERIF_PARTIAL="+pf)
		var errb bytes.Buffer
		cmd.Stderr = &errb
		cmd.Stdout = &errb
		// (they take a few seconds; a publisher that keeps a lock for ever stops them for good)
		limit := ev.Pick(r, 4*time.Minute, 20*time.Minute)
		err := cmd.Start()
		if err == nil {
			done := make(chan error, 1)
			go func() { done <- cmd.Wait() }()
			select {
			case err = <-done:
			case <-time.After(limit):
				cmd.Process.Kill()
				<-done
				err = fmt.Errorf("no result after %v", limit)
				errb.WriteString("\npanic: hang: the single-goroutine histories did not finish (a call never returned)")
			}
		}
		if _, statErr := os.Stat(pf); statErr == nil {
			r.Absorb(pf, "")
			os.Remove(pf)
		} else {
			tail := errb.String()
			if i := strings.Index(tail, "panic:"); i >= 0 {
				tail = tail[i:]
			}
			if len(tail) > 900 {
				tail = tail[:900]
			}
			first := strings.SplitN(strings.TrimSpace(tail), "\n", 2)[0]
			r.Report(ev.Violation{Sig: "crash|sequential|" + strings.ReplaceAll(first, " ", "_"), Msg: fmt.Sprintf("the process died during the single-goroutine Sub/Unsub/publish histories (%v): %s", err, strings.ReplaceAll(tail, "\n", " | ")), Replay: map[string]any{"family": "sequential"}})
		}
	}
	schk.Main(r, scs, ev.Pick(r, 50*time.Second, 1500*time.Second), func(r *ev.Run) {
		r.Set("rule", "controlled scheduler over the instrumented chans package (RWMutex with writer preference, WaitGroup, spawned sender goroutines, channels, select and timers are model objects): one publisher using each of the 6 publish variants (1 event, 2 for the Slice variants), 0-2 (3) subscribers with buffers {0,1} created through Sub/DefaultBuffer and SubBuf, timeout off / on with a recording OnPubTimeout, one receiver per subscription that keeps receiving until its channel is closed, and optionally a manager thread doing one of Unsub(sub0), UnsubAll, Sub, Unsub(unknown), Unsub(nil), WithOnly(sub0).PubSync, or a second publisher; executions run to quiescence (only receivers may remain blocked). In addition (one goroutine, no scheduler) an explicit-state search to fixpoint over the sequential API: SubBuf/Sub, Unsub of every handle incl. already removed ones, nil and foreign channels, UnsubAll, the four synchronous publish variants, WithOnly(handle) publishers made on the spot and one retained across later calls, up to 3 (4) subscription handles, every channel drained and compared with a subscription model after every call. Ledger oracle: per (event, subscriber) at most one delivery; every subscriber that stayed subscribed gets each event or, only with a timeout, one OnPubTimeout stands in for it; deliveries + timeouts never exceed the subscribers (and equal them without a manager); Sync variants in publication order; Wait/Sync return only after every hand-off or timeout callback is done; Unsub/UnsubAll close exactly the removed channels and return the documented errors; WithOnly reaches only the given subscription; no panic")
		r.Assume("timers are untimed (may fire at any point after creation); 'eventually' for Pub/PubSlice means at quiescence of the closed driver")
	})
}

// hugeCrowd: 2^16+1 unbuffered subscribers, none of them receiving yet when the publish call starts;
// then one receiver per subscription. Far beyond anything the scheduler can explore (it models tens of
// threads): ONE free-running execution per publish variant on the real runtime - a deterministic
// large-size family member, not an exhaustive exploration. Whatever the timing, every subscriber must
// get the event exactly once, the call must return, nothing may panic.
func hugeCrowd(r *ev.Run) int {
	const n = 1<<16 + 1
	for _, variant := range []string{"PubSync", "PubWait", "PubSliceSync"} {
		ps := &chans.PubSub[int]{}
		subs := make([]<-chan int, n)
		for i := range subs {
			subs[i] = ps.Sub()
		}
		rp := map[string]any{"family": "huge-crowd", "variant": variant, "subscribers": n}
		ret := make(chan string, 1)
		go func() {
			defer func() {
				if p := recover(); p != nil {
					ret <- fmt.Sprint("panic: ", p)
				}
			}()
			switch variant {
			case "PubSync":
				ps.PubSync(7)
			case "PubWait":
				ps.PubWait(7)
			default:
				ps.PubSliceSync([]int{7})
			}
			ret <- ""
		}()
		time.Sleep(30 * time.Millisecond) // the publisher is (very probably) waiting for its first receiver now
		got := make([]int32, n)
		var wg sync.WaitGroup
		for i := range subs {
			wg.Add(1)
			go func(i int) {
				defer wg.Done()
				atomic.StoreInt32(&got[i], int32(<-subs[i]))
			}(i)
		}
		all := make(chan struct{})
		go func() { wg.Wait(); close(all) }()
		msg, timedOut := "", false
		select {
		case msg = <-ret:
		case <-time.After(3 * time.Minute):
			timedOut = true
		}
		if msg != "" {
			r.Report(ev.Violation{Sig: "family|huge-crowd|panic", Msg: fmt.Sprintf("%s with %d subscribers that start receiving after the call began: %s", variant, n, msg), Replay: rp})
			return n // the receivers of a dead publisher stay blocked; the process ends with the check
		}
		if !timedOut {
			select {
			case <-all:
			case <-time.After(3 * time.Minute):
				timedOut = true
			}
		}
		missing := 0
		for i := range got {
			if atomic.LoadInt32(&got[i]) != 7 {
				missing++
			}
		}
		if timedOut || missing > 0 {
			r.Report(ev.Violation{Sig: "family|huge-crowd|lost", Msg: fmt.Sprintf("%s with %d subscribers that start receiving after the call began: %d of them never received the event (call returned: %v)", variant, n, missing, !timedOut), Replay: rp})
			return n
		}
		if err := ps.UnsubAll(); err != nil {
			r.Report(ev.Violation{Sig: "family|huge-crowd|unsub", Msg: fmt.Sprintf("UnsubAll after %s to %d subscribers: %v", variant, n, err), Replay: rp})
		}
	}
	return n
}

// sequentialFamily: long single-goroutine Sub/Unsub/UnsubAll/publish histories with up to 70
// subscriptions (pass-through mode, buffered subscriptions so nothing blocks), against a list
// model: which channels are subscribed, which are closed, what each received.
func sequentialFamily(r *ev.Run) int {
	calls := 0
	fail := func(format string, a ...any) {
		r.Report(ev.Violation{Sig: "family|sequential", Msg: fmt.Sprintf(format, a...), Replay: map[string]any{"family": "sequential-history"}})
	}
	for _, n := range []int{1, 2, 3, 7, 15, 16, 17, 33, 70} {
		n := n
		func() {
			defer func() {
				if p := recover(); p != nil {
					r.Report(ev.Violation{Sig: "family|panic", Msg: fmt.Sprintf("sequential history with %d subscriptions panicked: %v", n, p), Replay: map[string]any{"family": "sequential-history", "n": n}})
				}
			}()
			ps := &chans.PubSub[int]{}
			type sub struct {
				ch     <-chan int
				live   bool
				expect []int
			}
			var subs []*sub
			add := func(k int) {
				for i := 0; i < k; i++ {
					subs = append(subs, &sub{ch: ps.SubBuf(64), live: true})
					calls++
				}
			}
			pub := func(v int, how int) {
				switch how % 3 {
				case 0:
					ps.PubSync(v)
				case 1:
					ps.PubWait(v)
				default:
					ps.PubSliceSync([]int{v})
				}
				calls++
				for _, s := range subs {
					if s.live {
						s.expect = append(s.expect, v)
					}
				}
			}
			unsub := func(i int) {
				err := ps.Unsub(subs[i].ch)
				calls++
				if subs[i].live && err != nil {
					fail("n=%d: Unsub of a live subscription returned %v", n, err)
				}
				if !subs[i].live && !errors.Is(err, chans.ErrAlreadyUnsubscribed) {
					fail("n=%d: Unsub of a subscription that was already removed returned %v, want ErrAlreadyUnsubscribed", n, err)
				}
				subs[i].live = false
			}
			check := func(what string) bool {
				for i, s := range subs {
					var got []int
					closed := false
					for done := false; !done; {
						select {
						case v, ok := <-s.ch:
							if !ok {
								closed, done = true, true
							} else {
								got = append(got, v)
							}
						default:
							done = true
						}
					}
					if fmt.Sprint(got) != fmt.Sprint(s.expect) || closed != !s.live {
						fail("n=%d %s: subscription %d received %v (closed=%v), want %v (closed=%v)", n, what, i, got, closed, s.expect, !s.live)
						return false
					}
					s.expect = nil
				}
				return true
			}
			add(n)
			pub(1, 0)
			ok := check("after the first publish")
			for i := 0; ok && i < n; i += 3 {
				unsub(i)
			}
			pub(2, 1)
			ok = ok && check("after unsubscribing every third")
			if ok {
				unsub(0) // already removed
				add(2)
				pub(3, 2)
				ok = check("after re-subscribing")
			}
			if ok {
				if err := ps.UnsubAll(); err != nil {
					fail("UnsubAll returned %v", err)
				}
				calls++
				for _, s := range subs {
					s.live = false
				}
				first := len(subs)
				add(n)
				pub(4, 0)
				ok = check("after UnsubAll and new subscriptions")
				for i := 0; ok && i < first; i += 2 {
					unsub(i) // all removed by UnsubAll: must be ErrAlreadyUnsubscribed and touch nothing
				}
				unsub(first) // a live one
				pub(5, 1)
				ok = ok && check("after stale Unsubs")
				only := ps.WithOnly(subs[len(subs)-1].ch)
				only.PubSync(6)
				calls++
				if subs[len(subs)-1].live {
					subs[len(subs)-1].expect = append(subs[len(subs)-1].expect, 6)
				}
				ok = ok && check("after WithOnly publish")
			}
		}()
	}
	return calls
}
