// C04 (sequential part): every single-goroutine call sequence on sync2.Map equals a map[K]V.
// Built WITHOUT the overlay: it runs the files in /repo byte for byte.
package main

import (
	"fmt"
	"sort"
	"time"

	"gopkg.in/typ.v4/sync2"
	"verif/lib/ev"
	"verif/lib/fp"
	"verif/lib/seqmc"
)

type h struct {
	keys  int
	m     *sync2.Map[int, int]
	model map[int]int
}

func (x *h) Ops() []seqmc.Op {
	var ops []seqmc.Op
	for k := 0; k < x.keys; k++ {
		ops = append(ops, seqmc.Op{Name: "Load", A: k}, seqmc.Op{Name: "LoadAndDelete", A: k}, seqmc.Op{Name: "Delete", A: k})
		for v := 1; v <= 2; v++ {
			ops = append(ops, seqmc.Op{Name: "Store", A: k, B: v}, seqmc.Op{Name: "LoadOrStore", A: k, B: v})
		}
	}
	ops = append(ops, seqmc.Op{Name: "Load", A: x.keys}) // a key that is never stored: pure misses
	ops = append(ops, seqmc.Op{Name: "Range"}, seqmc.Op{Name: "Range", A: 1})
	return ops
}

func (x *h) Apply(op seqmc.Op) *seqmc.Fail {
	mv, mok := x.model[op.A]
	switch op.Name {
	case "Load":
		v, ok := x.m.Load(op.A)
		if ok != mok || v != mv {
			return seqmc.Failf("Load", "Load(%d) = (%d,%v), map has (%d,%v)", op.A, v, ok, mv, mok)
		}
	case "Store":
		x.m.Store(op.A, op.B)
		x.model[op.A] = op.B
	case "LoadOrStore":
		v, loaded := x.m.LoadOrStore(op.A, op.B)
		want := op.B
		if mok {
			want = mv
		} else {
			x.model[op.A] = op.B
		}
		if loaded != mok || v != want {
			return seqmc.Failf("LoadOrStore", "LoadOrStore(%d,%d) = (%d,%v), want (%d,%v)", op.A, op.B, v, loaded, want, mok)
		}
	case "LoadAndDelete":
		v, loaded := x.m.LoadAndDelete(op.A)
		delete(x.model, op.A)
		if loaded != mok || v != mv {
			return seqmc.Failf("LoadAndDelete", "LoadAndDelete(%d) = (%d,%v), map had (%d,%v)", op.A, v, loaded, mv, mok)
		}
	case "Delete":
		x.m.Delete(op.A)
		delete(x.model, op.A)
	case "Range":
		seen := map[int]int{}
		calls := 0
		var dup *seqmc.Fail
		x.m.Range(func(k, v int) bool {
			calls++
			if _, ok := seen[k]; ok {
				dup = seqmc.Failf("Range:twice", "Range visited key %d twice", k)
			}
			seen[k] = v
			return op.A == 0 || calls < op.A
		})
		if dup != nil {
			return dup
		}
		for k, v := range seen {
			if w, ok := x.model[k]; !ok || w != v {
				return seqmc.Failf("Range:value", "Range visited (%d,%d), map has %v", k, v, x.model)
			}
		}
		if op.A == 0 && len(seen) != len(x.model) {
			return seqmc.Failf("Range:missed", "Range visited %v, map has %v", seen, x.model)
		}
		if op.A > 0 {
			want := op.A
			if len(x.model) < want {
				want = len(x.model)
			}
			if calls != want {
				return seqmc.Failf("Range:stop", "Range told to stop after %d calls made %d calls on %d keys", op.A, calls, len(x.model))
			}
		}
	}
	return nil
}

func (x *h) Key() string {
	var ks []int
	for k := range x.model {
		ks = append(ks, k)
	}
	sort.Ints(ks)
	s := fp.Of(x.m) + "|"
	for _, k := range ks {
		s += fmt.Sprintf("%d=%d,", k, x.model[k])
	}
	return s
}

func (x *h) Observe() *seqmc.Fail {
	for k := 0; k <= x.keys; k++ {
		if f := x.Apply(seqmc.Op{Name: "Load", A: k}); f != nil {
			return f
		}
	}
	if f := x.Apply(seqmc.Op{Name: "Range"}); f != nil {
		return f
	}
	for k := 0; k <= x.keys; k++ {
		if f := x.Apply(seqmc.Op{Name: "Load", A: k}); f != nil {
			return f
		}
	}
	return nil
}

func main() {
	r := ev.Start("C04")
	r.SetDeadline(ev.Pick(r, 40*time.Second, 900*time.Second))
	keys := ev.Pick(r, 2, 3)
	res := seqmc.Explore(r, seqmc.Config{Name: "map-sequential", New: func() seqmc.Sys {
		return &h{keys: keys, m: new(sync2.Map[int, int]), model: map[int]int{}}
	}})
	if !res.Exhaustive {
		r.MarkCapped()
	}
	r.Set("states", res.States)
	r.Set("transitions", res.Transitions)
	r.Set("max_depth", res.MaxDepth)
	r.Set("fixpoint", res.Exhaustive)
	r.Set("keys", keys)
	r.Sample(map[string]any{"sequential": "Store(0,1) Load(0) Delete(0) Store(1,1) -> key 0 expunged, then Store(0,2) must re-enter the dirty map"})
	r.Finish()
}
