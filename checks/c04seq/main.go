// C04 (sequential part): every single-goroutine call sequence on sync2.Map equals a map[K]V.
// Built WITHOUT the overlay: it runs the files in /repo byte for byte.
package main

import (
	"time"

	"verif/lib/ev"
	"verif/lib/maph"
	"verif/lib/seqmc"
)

func main() {
	r := ev.Start("C04")
	r.SetDeadline(ev.Pick(r, 40*time.Second, 900*time.Second))
	keys := ev.Pick(r, 4, 5)
	res := seqmc.Explore(r, seqmc.Config{Name: "map-sequential", New: func() seqmc.Sys {
		return maph.New(keys)
	}})
	if !res.Exhaustive {
		r.MarkCapped()
	}
	r.Set("states", res.States)
	r.Set("transitions", res.Transitions)
	r.Set("max_depth", res.MaxDepth)
	r.Set("fixpoint", res.Exhaustive)
	r.Set("keys", keys)
	r.Sample(map[string]any{"sequential": "Store(0,1) Load(0) Delete(0) Store(1,1) -> key 0 expunged, then Store(0,2) must re-enter the dirty map"})
	r.Finish()
}
