// C04 (sequential part): every single-goroutine call sequence on sync2.Map equals a map[K]V.
// Built WITHOUT the overlay: it runs the files in /repo byte for byte.
package main

import (
	"math"
	"sort"
	"time"
	"verif/lib/wraps"

	"fmt"
	"verif/lib/ev"

	"gopkg.in/typ.v4/sync2"
	"verif/lib/enum"
	"verif/lib/maph"
	"verif/lib/seqmc"
	"verif/lib/spell"
)

func main() {
	ev.GuardFor("C04")
	r := ev.Start("C04")
	defer r.FinishOnPanic()
	r.SetDeadline(ev.Pick(r, 40*time.Second, 900*time.Second))
	keys := ev.Pick(r, 4, 5)
	res := seqmc.Explore(r, seqmc.Config{Name: "map-sequential", New: func() seqmc.Sys {
		return maph.New(keys)
	}})
	// keys that are not equal to themselves (NaN): every Store makes a new entry that no Load, Delete or
	// LoadOrStore can ever name again, but Range must still visit each of them ("every key present for
	// the whole call"), before and after the entries are promoted to the read-only map
	for _, warm := range []int{0, 1, 40} {
		var m sync2.Map[float64, int]
		nan := math.NaN()
		m.Store(nan, 1)
		m.Store(1.5, 3)
		m.Store(nan, 2)
		if _, loaded := m.LoadOrStore(nan, 4); loaded {
			r.Report(ev.Violation{Sig: "family|nan-keys", Msg: "LoadOrStore(NaN) found an entry (NaN is equal to nothing)", Replay: map[string]any{"family": "nan-keys"}})
		}
		for i := 0; i < warm; i++ {
			m.Load(1.5)
			m.Load(nan)
		}
		m.Delete(nan)
		for pass := 0; pass < 2; pass++ {
			var vals []int
			nans := 0
			m.Range(func(k float64, v int) bool {
				if k != k {
					nans++
				}
				vals = append(vals, v)
				return true
			})
			sort.Ints(vals)
			if nans != 3 || fmt.Sprint(vals) != "[1 2 3 4]" {
				r.Report(ev.Violation{Sig: "family|nan-keys", Msg: fmt.Sprintf("a map holding three NaN keys (values 1, 2, 4) and 1.5 (value 3), %d Loads before: Range visited %d NaN keys and the values %v", 2*warm, nans, vals), Replay: map[string]any{"family": "nan-keys", "loads_before": 2 * warm}})
				break
			}
		}
		if _, ok := m.Load(nan); ok {
			r.Report(ev.Violation{Sig: "family|nan-keys", Msg: "Load(NaN) found an entry", Replay: map[string]any{"family": "nan-keys"}})
		}
	}
	if cases, msg := wraps.Map(); msg != "" {
		r.Report(ev.Violation{Sig: "family|wrap", Msg: msg, Replay: map[string]any{"family": "wrap"}})
	} else {
		r.Set("wrap_family_cases", cases)
	}
	if !res.Exhaustive {
		r.MarkCapped()
	}
	// the zero value of V as a stored value (it must not read as "absent")
	if res0 := seqmc.Explore(r, seqmc.Config{Name: "map-sequential/values 0 and 2", New: func() seqmc.Sys { return maph.NewVals(3, 0, 2) }}); !res0.Exhaustive {
		r.MarkCapped()
	} else {
		r.Set("zero_value_states", res0.States)
	}
	// key types whose keys have several ==-equal spellings (+0.0/-0.0, equal strings in different
	// memory, interfaces / structs / arrays holding them), pointers, int8: the same search over 2 keys
	run := func(cfg seqmc.Config) seqmc.Result { return seqmc.Explore(r, cfg) }
	typedStates := 0
	typedStates += maph.ExploreTyped(r, run, spell.Float64).States
	typedStates += maph.ExploreTyped(r, run, spell.String).States
	typedStates += maph.ExploreTyped(r, run, spell.Any).States
	typedStates += maph.ExploreTyped(r, run, spell.Struct).States
	typedStates += maph.ExploreTyped(r, run, spell.Array).States
	typedStates += maph.ExploreTyped(r, run, spell.Complex).States
	typedStates += maph.ExploreTyped(r, run, spell.Pointers).States
	typedStates += maph.ExploreTyped(r, run, spell.Int8).States
	typedStates += maph.ExploreTyped(r, run, spell.Liars).States
	typedStates += maph.ExploreTyped(r, run, spell.Stringers).States
	typedStates += maph.ExploreTyped(r, run, spell.Errors).States
	typedStates += maph.ExploreTyped(r, run, spell.Chans).States
	typedStates += maph.ExploreTyped(r, run, spell.AnyAlike).States
	typedStates += maph.ExploreTyped(r, run, spell.StringAlike).States
	typedStates += maph.ExploreTyped(r, run, spell.FloatAlike).States
	r.Set("key_type_states", typedStates)
	// Large-map family: scripted single-goroutine histories over 5..200 keys (promotion thresholds
	// that depend on the size of the dirty map, tombstones left behind in a large read map,
	// re-creation of the dirty map), compared with map[K]V after every phase and at the end.
	famCalls := 0
	for _, n := range []int{5, 9, 17, 33, 63, 64, 65, 100, 129, 200} {
		for pat := 0; pat < 6; pat++ {
			if msg := bigMap(n, pat, &famCalls); msg != "" {
				r.Report(ev.Violation{Sig: "family|large-map", Msg: msg, Replay: map[string]any{"family": "large-map", "keys": n, "pattern": pat}})
			}
		}
	}
	for _, n := range ev.Pick(r, []int{5, 64, 4097, 16385, 70001}, []int{5, 64, 4097, 16385, 70001, 1<<20 + 1}) {
		// in its own goroutine: a callback that can never get the map's lock would otherwise stop this
		// process for good (the family takes milliseconds; two minutes without an answer is a hang)
		done := make(chan string, 1)
		var calls int
		go func() { done <- reentrantBig(n, &calls) }()
		select {
		case msg := <-done:
			famCalls += calls
			if msg != "" {
				r.Report(ev.Violation{Sig: "family|reentrant-range", Msg: msg, Replay: map[string]any{"family": "reentrant-range", "keys": n}})
			}
		case <-time.After(2 * time.Minute):
			r.Report(ev.Violation{Sig: "family|reentrant-range-hang", Msg: fmt.Sprintf("map of %d keys, one goroutine: a call made from inside a Range callback (Store / Range / Load / Delete on the same map) has not returned for two minutes", n), Replay: map[string]any{"family": "reentrant-range", "keys": n}})
		}
		if r.Violations() > 0 {
			break
		}
	}
	// long-history churn: ONE map, hundreds of thousands of calls over 12 keys (behaviour keyed to a
	// count of operations: compaction after N deletes, counters that wrap), every result compared
	{
		n := ev.Pick(r, 150000, 2000000)
		h := maph.New(12)
		var g enum.LCG = 99
		names := []string{"Load", "Load", "Store", "Store", "LoadOrStore", "LoadAndDelete", "LoadAndDelete", "Delete", "Load", "Store"}
		for i := 0; i < n; i++ {
			op := seqmc.Op{Name: names[g.Next(len(names))], A: g.Next(13), B: 1 + g.Next(2)}
			if i%211 == 0 {
				op = seqmc.Op{Name: "Range", A: g.Next(3)}
			}
			if ev.Tracing() {
				ev.Trace(map[string]any{"family": "churn", "step": i, "op": op})
			}
			famCalls++
			if f := h.Apply(op); f != nil {
				r.Report(ev.Violation{Sig: "family|churn", Msg: fmt.Sprintf("call %d of a long single-goroutine history: %s", i, f.Msg), Replay: map[string]any{"family": "churn", "step": i}})
				break
			}
		}
		r.Set("churn_family_operations", n)
	}
	r.Set("large_size_family_calls", famCalls)
	r.Set("states", res.States)
	r.Set("transitions", res.Transitions)
	r.Set("max_depth", res.MaxDepth)
	r.Set("fixpoint", res.Exhaustive)
	r.Set("keys", keys)
	r.Sample(map[string]any{"sequential": "Store(0,1) Load(0) Delete(0) Store(1,1) -> key 0 expunged, then Store(0,2) must re-enter the dirty map"})
	r.Finish()
}

// reentrantBig: ONE goroutine, a map of n keys (n above any plausible size threshold), and Range calls
// whose callback itself uses the map - Store of a new key, a complete nested Range (which promotes),
// another Store, Load and Delete of keys - while the outer Range is still walking. The contract of Range
// allows all of this. Oracle: the outer Range visits every key that was present and untouched for the
// whole call exactly once with its value, nothing twice, and only values the key really held.
func reentrantBig(n int, calls *int) string {
	m := new(sync2.Map[int, int])
	model := map[int]int{}
	for k := 0; k < n; k++ {
		m.Store(k, k+1)
		model[k] = k + 1
	}
	*calls += n
	for round := 0; round < 3; round++ {
		touched := map[int]bool{} // keys stored or deleted during this outer Range
		seen := map[int]int{}
		step := 0
		bad := ""
		fresh := n + 10*round
		m.Range(func(k, v int) bool {
			if _, dup := seen[k]; dup && bad == "" {
				bad = fmt.Sprintf("the outer Range visited key %d twice", k)
			}
			seen[k] = v
			if w, ok := model[k]; bad == "" && !touched[k] && (!ok || w != v) {
				bad = fmt.Sprintf("the outer Range visited (%d,%d), the map holds (%d,%v) for that key", k, v, w, ok)
			}
			step++
			switch step {
			case 1, n / 2:
				m.Store(fresh, 7) // a new key: goes to the dirty map
				model[fresh], touched[fresh] = 7, true
				fresh++
				inner := 0
				m.Range(func(int, int) bool { inner++; return true }) // promotes
				if inner != len(model) && bad == "" {
					bad = fmt.Sprintf("a Range nested in the callback visited %d keys, the map holds %d", inner, len(model))
				}
				m.Store(fresh, 8) // another new key: the dirty map is created again
				model[fresh], touched[fresh] = 8, true
				fresh++
				*calls += 3
			case 2, n/2 + 1:
				victim := (k + n/3) % n
				m.Delete(victim)
				delete(model, victim)
				touched[victim] = true
				if w, ok := m.Load(k); (!ok || w != v) && !touched[k] && bad == "" {
					bad = fmt.Sprintf("Load(%d) inside the callback = (%d,%v), Range handed over %d", k, w, ok, v)
				}
				*calls += 2
			}
			return true
		})
		*calls++
		if bad != "" {
			return fmt.Sprintf("map of %d keys, one goroutine, round %d: %s", n, round, bad)
		}
		for k, v := range model {
			if touched[k] {
				continue
			}
			if got, ok := seen[k]; !ok || got != v {
				return fmt.Sprintf("map of %d keys, one goroutine, round %d: key %d was present and untouched during the whole Range but the Range visited (%d,%v) for it", n, round, k, got, ok)
			}
		}
		// afterwards the map equals the model
		cnt := 0
		m.Range(func(k, v int) bool {
			cnt++
			if w, ok := model[k]; (!ok || w != v) && bad == "" {
				bad = fmt.Sprintf("after the round the map holds (%d,%d), the model (%d,%v)", k, v, w, ok)
			}
			return true
		})
		if bad == "" && cnt != len(model) {
			bad = fmt.Sprintf("after the round the map holds %d keys, the model %d", cnt, len(model))
		}
		if bad != "" {
			return fmt.Sprintf("map of %d keys, one goroutine, round %d: %s", n, round, bad)
		}
	}
	return ""
}

// bigMap runs one scripted history; pat selects which keys are deleted and how promotion is forced.
func bigMap(n, pat int, calls *int) string {
	h := maph.New(n + 2)
	do := func(name string, a, b int) string {
		*calls++
		if ev.Tracing() {
			ev.Trace(map[string]any{"family": "large-map", "keys": n, "pattern": pat, "op": name, "a": a, "b": b})
		}
		if f := h.Apply(seqmc.Op{Name: name, A: a, B: b}); f != nil {
			return fmt.Sprintf("large-map history (%d keys, pattern %d): %s", n, pat, f.Msg)
		}
		return ""
	}
	promote := func(kind int) string {
		if kind%2 == 0 {
			return do("Range", 0, 0)
		}
		for i := 0; i <= n+1; i++ { // misses on a key that is never stored
			if m := do("Load", n+1, 0); m != "" {
				return m
			}
		}
		return ""
	}
	check := func() string {
		for k := 0; k <= n; k++ {
			if m := do("Load", k, 0); m != "" {
				return m
			}
		}
		return do("Range", 0, 0)
	}
	deleted := func(k int) bool {
		switch pat {
		case 0:
			return true
		case 1:
			return k%2 == 0
		case 2:
			return k >= n/2
		case 3:
			return k < n/2
		case 4:
			return k%7 == 3
		}
		return k == n-1 || k == 0
	}
	steps := []func() string{
		func() string { // fill
			for k := 0; k < n; k++ {
				if m := do("Store", k, 1); m != "" {
					return m
				}
			}
			return ""
		},
		func() string { return promote(pat) },
		func() string { // delete a subset: tombstones in the read map
			for k := 0; k < n; k++ {
				if deleted(k) {
					name := "Delete"
					if k%3 == 0 {
						name = "LoadAndDelete"
					}
					if m := do(name, k, 0); m != "" {
						return m
					}
				}
			}
			return ""
		},
		func() string { return do("Store", n, 2) }, // a new key: the dirty map is re-created
		func() string { // bring the deleted keys back
			for k := 0; k < n; k++ {
				if deleted(k) {
					name := "Store"
					if k%2 == 1 {
						name = "LoadOrStore"
					}
					if m := do(name, k, 2); m != "" {
						return m
					}
				}
			}
			return ""
		},
		func() string { return promote(pat + 1) },
		check,
		func() string { // a second round with the roles swapped
			for k := 0; k < n; k++ {
				if !deleted(k) {
					if m := do("LoadAndDelete", k, 0); m != "" {
						return m
					}
				}
			}
			if m := do("LoadOrStore", n, 1); m != "" {
				return m
			}
			if m := do("Store", n+1, 1); m != "" {
				return m
			}
			return promote(pat)
		},
		check,
	}
	for _, st := range steps {
		if m := st(); m != "" {
			return m
		}
	}
	return ""
}
