// C16: Queue is FIFO and Stack is LIFO.
package main

import (
	"fmt"

	"gopkg.in/typ.v4/lists"
	"verif/lib/enum"
	"verif/lib/ev"
	"verif/lib/fp"
	"verif/lib/seqmc"
)

type qh struct {
	n     int
	q     *lists.Queue[int]
	model []int
}

func (s *qh) Ops() []seqmc.Op {
	ops := []seqmc.Op{{Name: "Dequeue"}, {Name: "Peek"}, {Name: "Len"}}
	if len(s.model) < s.n {
		ops = append(ops, seqmc.Op{Name: "Enqueue", A: 0}, seqmc.Op{Name: "Enqueue", A: 2}) // 0: the zero value is data like any other
	}
	return ops
}

func (s *qh) Apply(op seqmc.Op) *seqmc.Fail {
	switch op.Name {
	case "Enqueue":
		s.q.Enqueue(op.A)
		s.model = append(s.model, op.A)
	case "Dequeue":
		v, ok := s.q.Dequeue()
		if len(s.model) == 0 {
			if ok || v != 0 {
				return seqmc.Failf("Dequeue:empty", "Dequeue on empty queue = (%d,%v)", v, ok)
			}
		} else {
			if !ok || v != s.model[0] {
				return seqmc.Failf("Dequeue:order", "Dequeue = (%d,%v), want (%d,true); queue %v", v, ok, s.model[0], s.model)
			}
			s.model = s.model[1:]
		}
	case "Peek":
		v, ok := s.q.Peek()
		if len(s.model) == 0 {
			if ok || v != 0 {
				return seqmc.Failf("Peek:empty", "Peek on empty queue = (%d,%v)", v, ok)
			}
		} else if !ok || v != s.model[0] {
			return seqmc.Failf("Peek:value", "Peek = (%d,%v), want (%d,true); queue %v", v, ok, s.model[0], s.model)
		}
	case "Len":
		if n := s.q.Len(); n != len(s.model) {
			return seqmc.Failf("Len", "Len = %d, want %d", n, len(s.model))
		}
	}
	return nil
}
func (s *qh) Key() string { return fp.Of(s.q) }
func (s *qh) Observe() *seqmc.Fail {
	if n := s.q.Len(); n != len(s.model) {
		return seqmc.Failf("Len", "Len = %d, want %d (%v)", n, len(s.model), s.model)
	}
	v, ok := s.q.Peek()
	if len(s.model) == 0 && (ok || v != 0) || len(s.model) > 0 && (!ok || v != s.model[0]) {
		return seqmc.Failf("Peek:value", "Peek = (%d,%v) on queue %v", v, ok, s.model)
	}
	// drain: the complete remaining order
	for i, w := range s.model {
		v, ok := s.q.Dequeue()
		if !ok || v != w {
			return seqmc.Failf("Dequeue:order", "draining queue %v: element %d came out as (%d,%v)", s.model, i, v, ok)
		}
	}
	if v, ok := s.q.Dequeue(); ok || v != 0 || s.q.Len() != 0 {
		return seqmc.Failf("Dequeue:empty", "after draining: Dequeue = (%d,%v), Len %d", v, ok, s.q.Len())
	}
	s.q.Enqueue(7) // still usable
	if v, ok := s.q.Peek(); !ok || v != 7 || s.q.Len() != 1 {
		return seqmc.Failf("unusable-after-empty", "after draining and Enqueue(7): Peek = (%d,%v), Len %d", v, ok, s.q.Len())
	}
	return nil
}

type sh struct {
	n     int
	s     *lists.Stack[int]
	model []int
}

func (s *sh) Ops() []seqmc.Op {
	ops := []seqmc.Op{{Name: "Pop"}, {Name: "Peek"}}
	if len(s.model) < s.n {
		ops = append(ops, seqmc.Op{Name: "Push", A: 0}, seqmc.Op{Name: "Push", A: 2}) // 0: the zero value is data like any other
	}
	return ops
}
func (s *sh) Apply(op seqmc.Op) *seqmc.Fail {
	n := len(s.model)
	switch op.Name {
	case "Push":
		s.s.Push(op.A)
		s.model = append(s.model, op.A)
	case "Pop":
		v, ok := s.s.Pop()
		if n == 0 {
			if ok || v != 0 {
				return seqmc.Failf("Pop:empty", "Pop on empty stack = (%d,%v)", v, ok)
			}
		} else {
			if !ok || v != s.model[n-1] {
				return seqmc.Failf("Pop:order", "Pop = (%d,%v), want (%d,true); stack %v", v, ok, s.model[n-1], s.model)
			}
			s.model = s.model[:n-1]
		}
	case "Peek":
		v, ok := s.s.Peek()
		if n == 0 {
			if ok || v != 0 {
				return seqmc.Failf("Peek:empty", "Peek on empty stack = (%d,%v)", v, ok)
			}
		} else if !ok || v != s.model[n-1] {
			return seqmc.Failf("Peek:value", "Peek = (%d,%v), want (%d,true)", v, ok, s.model[n-1])
		}
	}
	return nil
}
func (s *sh) Key() string { return fp.Of(s.s) }
func (s *sh) Observe() *seqmc.Fail {
	if len(*s.s) != len(s.model) {
		return seqmc.Failf("Len", "len(stack) = %d, want %d", len(*s.s), len(s.model))
	}
	v, ok := s.s.Peek()
	n := len(s.model)
	if n == 0 && (ok || v != 0) || n > 0 && (!ok || v != s.model[n-1]) {
		return seqmc.Failf("Peek:value", "Peek = (%d,%v) on stack %v", v, ok, s.model)
	}
	for i := n - 1; i >= 0; i-- {
		v, ok := s.s.Pop()
		if !ok || v != s.model[i] {
			return seqmc.Failf("Pop:order", "draining stack %v: position %d came out as (%d,%v)", s.model, i, v, ok)
		}
	}
	if v, ok := s.s.Pop(); ok || v != 0 || len(*s.s) != 0 {
		return seqmc.Failf("Pop:empty", "after draining: Pop = (%d,%v), len %d", v, ok, len(*s.s))
	}
	s.s.Push(7)
	if v, ok := s.s.Peek(); !ok || v != 7 || len(*s.s) != 1 {
		return seqmc.Failf("unusable-after-empty", "after draining and Push(7): Peek = (%d,%v)", v, ok)
	}
	return nil
}

// family: fill to n and drain, then refill/drain in a saw-tooth, at sizes the BFS cannot reach
// (capacity-dependent paths of the slice-backed stack).
func family(r *ev.Run, nmax int) int {
	calls := 0
	for n := 1; n <= nmax; n = n + 1 + n/8 {
		var st lists.Stack[int]
		var q lists.Queue[int]
		var ms, mq []int
		step := func(push bool, v int) string {
			calls += 2
			if push {
				st.Push(v)
				q.Enqueue(v)
				ms, mq = append(ms, v), append(mq, v)
				return ""
			}
			gv, gok := st.Pop()
			qv, qok := q.Dequeue()
			if len(ms) == 0 {
				if gok || qok {
					return "removal from empty succeeded"
				}
				return ""
			}
			if !gok || gv != ms[len(ms)-1] {
				return fmt.Sprintf("Stack.Pop = (%d,%v), want %d (size %d)", gv, gok, ms[len(ms)-1], len(ms))
			}
			if !qok || qv != mq[0] {
				return fmt.Sprintf("Queue.Dequeue = (%d,%v), want %d (size %d)", qv, qok, mq[0], len(mq))
			}
			ms, mq = ms[:len(ms)-1], mq[1:]
			if len(st) != len(ms) || q.Len() != len(mq) {
				return fmt.Sprintf("sizes %d/%d, want %d", len(st), q.Len(), len(ms))
			}
			if pv, pok := st.Peek(); len(ms) > 0 && (!pok || pv != ms[len(ms)-1]) {
				return fmt.Sprintf("Stack.Peek = (%d,%v) after Pop, want %d", pv, pok, ms[len(ms)-1])
			}
			return ""
		}
		id := 0
		run := func(push bool, k int) bool {
			for i := 0; i < k; i++ {
				id++
				if m := step(push, id); m != "" {
					r.Report(ev.Violation{Sig: "family|order", Msg: fmt.Sprintf("fill %d / drain saw-tooth: %s", n, m), Replay: map[string]any{"family": "sawtooth", "n": n}})
					return false
				}
			}
			return true
		}
		okAll := true
		for _, pat := range [][]int{
			{n, -(n - n/4), n / 2, -n, 3, -4},
			{1, -1, n + 1, -(n + 2)},
			{n, -1, 2 * n, -3 * n},
			{n, -n / 2, n, -n / 2, n, -2 * n, 2, -1, 2*n + 3, -3 * n},
		} {
			// restart from fresh zero values for every pattern
			st, q, ms, mq = nil, lists.Queue[int]{}, nil, nil
			for _, c := range pat {
				if c >= 0 {
					okAll = okAll && run(true, c)
				} else {
					okAll = okAll && run(false, -c)
				}
			}
			// push 3 / pop 1 until 2n inside, then drain
			for i := 0; okAll && len(ms) < 2*n && i < 4*n+8; i++ {
				okAll = run(true, 3) && run(false, 1)
			}
			okAll = okAll && run(false, len(ms)+1)
			if !okAll {
				break
			}
		}
		if !okAll {
			break
		}
	}
	return calls
}

// huge fills ONE stack and ONE queue to n values (well past 2^20), wiggling (remove 2 / insert 3) around
// every power of two on the way up, checking Len and Peek after every call, then drains both completely:
// a growth policy that changes above a size threshold shows here. O(n) time, one pass. The stack always
// holds 1..size (value == height), the queue head..next-1, so the model is two counters.
func huge(r *ev.Run, n int) int {
	calls := 0
	fail := func(format string, a ...any) int {
		r.Report(ev.Violation{Sig: "family|huge", Msg: fmt.Sprintf("one-pass fill to %d: ", n) + fmt.Sprintf(format, a...), Replay: map[string]any{"family": "huge", "n": n}})
		return calls
	}
	pow2ish := func(size int) bool { return size >= 8 && (size&(size-1) == 0 || (size-1)&(size-2) == 0) }
	var st lists.Stack[int]
	size := 0
	push := func() string {
		calls++
		size++
		st.Push(size)
		if pv, ok := st.Peek(); !ok || pv != size || len(st) != size {
			return fmt.Sprintf("after Push number %d: Peek = (%d,%v), Len %d, want (%d,true), %d", calls, pv, ok, len(st), size, size)
		}
		return ""
	}
	pop := func() string {
		calls++
		v, ok := st.Pop()
		if !ok || v != size || len(st) != size-1 {
			return fmt.Sprintf("Pop at size %d = (%d,%v), Len now %d", size, v, ok, len(st))
		}
		size--
		return ""
	}
	for size < n {
		if m := push(); m != "" {
			return fail("stack: %s", m)
		}
		if pow2ish(size) {
			for _, f := range []func() string{pop, pop, push, push, push} {
				if m := f(); m != "" {
					return fail("stack (wiggle at a power of two): %s", m)
				}
			}
		}
	}
	// saw-tooth at full scale: take half (+1) out, put n more in (the container grows again while its
	// contents no longer start at the front of its buffer), then drain
	for k := n/2 + 1; k > 0; k-- {
		if m := pop(); m != "" {
			return fail("stack (half drain): %s", m)
		}
	}
	for k := 0; k < n; k++ {
		if m := push(); m != "" {
			return fail("stack (refill after a half drain): %s", m)
		}
	}
	for size > 0 {
		if m := pop(); m != "" {
			return fail("stack (drain): %s", m)
		}
	}
	if v, ok := st.Pop(); ok || v != 0 || len(st) != 0 {
		return fail("Pop on the drained stack = (%d,%v)", v, ok)
	}
	st = nil
	var q lists.Queue[int]
	head, next := 1, 1
	enq := func() string {
		calls++
		q.Enqueue(next)
		next++
		if pv, ok := q.Peek(); !ok || pv != head || q.Len() != next-head {
			return fmt.Sprintf("after Enqueue number %d: Peek = (%d,%v), Len %d, want (%d,true), %d", next-1, pv, ok, q.Len(), head, next-head)
		}
		return ""
	}
	deq := func() string {
		calls++
		v, ok := q.Dequeue()
		if !ok || v != head || q.Len() != next-head-1 {
			return fmt.Sprintf("Dequeue with %d inside = (%d,%v), want %d; Len now %d", next-head, v, ok, head, q.Len())
		}
		head++
		return ""
	}
	for next-head < n {
		if m := enq(); m != "" {
			return fail("queue: %s", m)
		}
		if pow2ish(next - head) {
			for _, f := range []func() string{deq, deq, enq, enq, enq} {
				if m := f(); m != "" {
					return fail("queue (wiggle at a power of two): %s", m)
				}
			}
		}
	}
	for k := n/2 + 1; k > 0; k-- {
		if m := deq(); m != "" {
			return fail("queue (half drain): %s", m)
		}
	}
	for k := 0; k < n; k++ {
		if m := enq(); m != "" {
			return fail("queue (refill after a half drain): %s", m)
		}
	}
	for next > head {
		if m := deq(); m != "" {
			return fail("queue (drain): %s", m)
		}
	}
	if v, ok := q.Dequeue(); ok || v != 0 || q.Len() != 0 {
		return fail("Dequeue on the drained queue = (%d,%v)", v, ok)
	}
	return calls
}

func main() {
	ev.GuardFor("C16")
	r := ev.Start("C16")
	defer r.FinishOnPanic()
	n := ev.Pick(r, 5, 13)
	rq := seqmc.Explore(r, seqmc.Config{Name: "queue", New: func() seqmc.Sys { return &qh{n: n, q: &lists.Queue[int]{}} }})
	rs := seqmc.Explore(r, seqmc.Config{Name: "stack", New: func() seqmc.Sys { return &sh{n: n, s: new(lists.Stack[int])} }})
	// nil *Stack
	var ns *lists.Stack[int]
	if v, ok := ns.Peek(); ok || v != 0 {
		r.Report(ev.Violation{Sig: "nil-stack", Msg: "Peek on nil *Stack"})
	}
	if v, ok := ns.Pop(); ok || v != 0 {
		r.Report(ev.Violation{Sig: "nil-stack", Msg: "Pop on nil *Stack"})
	}
	fc := family(r, ev.Pick(r, 600, 5000))
	{ // long-history churn: one queue and one stack, hundreds of thousands of calls
		n := ev.Pick(r, 200000, 3000000)
		var q lists.Queue[int]
		var st lists.Stack[int]
		var mq, ms []int
		var g enum.LCG = 5
		for i := 0; i < n; i++ {
			push := g.Next(100) < 52 && len(mq) < 300
			if i%5000 > 4000 {
				push = false // drain phases
			}
			if ev.Tracing() {
				ev.Trace(map[string]any{"family": "churn", "step": i, "push": push})
			}
			bad := ""
			if push {
				q.Enqueue(i)
				st.Push(i)
				mq, ms = append(mq, i), append(ms, i)
			} else {
				qv, qok := q.Dequeue()
				sv, sok := st.Pop()
				if len(mq) == 0 {
					if qok || sok || qv != 0 || sv != 0 {
						bad = "removal from an empty container succeeded"
					}
				} else {
					if !qok || qv != mq[0] {
						bad = fmt.Sprintf("Dequeue = (%d,%v), want %d", qv, qok, mq[0])
					}
					if !sok || sv != ms[len(ms)-1] {
						bad = fmt.Sprintf("Pop = (%d,%v), want %d", sv, sok, ms[len(ms)-1])
					}
					mq, ms = mq[1:], ms[:len(ms)-1]
				}
			}
			if pv, pok := q.Peek(); bad == "" && (pok != (len(mq) > 0) || (pok && pv != mq[0]) || q.Len() != len(mq) || len(st) != len(ms)) {
				bad = fmt.Sprintf("Peek = (%d,%v), Len %d / %d, model %d", pv, pok, q.Len(), len(st), len(mq))
			}
			if bad != "" {
				r.Report(ev.Violation{Sig: "family|churn", Msg: fmt.Sprintf("call %d of a long history: %s", i, bad), Replay: map[string]any{"family": "churn", "step": i}})
				break
			}
		}
		r.Set("churn_family_operations", n)
	}
	r.Set("family_calls", fc)
	hn := ev.Pick(r, 1<<21+77, 1<<24+77)
	r.Set("huge_family_calls", huge(r, hn))
	r.Set("huge_family_size", hn)
	r.Set("states", rq.States+rs.States)
	r.Set("transitions", rq.Transitions+rs.Transitions)
	r.Set("traces_validated_against_impl", rq.Transitions+rs.Transitions)
	r.Set("max_depth", max(rq.MaxDepth, rs.MaxDepth))
	r.Set("size_bound", n)
	r.Set("rule", "explicit-state BFS to fixpoint from the zero value, values {0,2} (the element type's zero value is data like any other), size bound as given; the fingerprint includes the stack's hidden capacity region; after every transition the container is drained and compared element by element with a slice model, then reused; plus fill/drain saw-tooth families up to thousands of elements (capacity-dependent paths), a one-pass fill of one stack and one queue to 2^21+77 (thorough 2^24+77) values with Len/Peek checked after every call, a half drain, a refill by as many values again and a complete drain, PLUS deterministic families beyond the exhaustive bound (large sizes, every single/double removal from trees built in 7 orders, long one-instance churn histories): see the *_family_* counters")
	r.Finish()
}

// ModelKey is the layout-independent state key (see seqmc.ModelKeyer).
func (s *qh) ModelKey() string { return fmt.Sprint(s.model) }
func (s *sh) ModelKey() string { return fmt.Sprint(s.model) }
