// C09: keyed mutexes give per-key mutual exclusion and cross-key independence.
package main

import (
	"fmt"
	"math"
	"time"
	"unsafe"

	"gopkg.in/typ.v4/sync2"
	"verif/lib/ev"
	"verif/lib/schk"
	"verif/vrt"
)

// acq is one acquisition of a thread's program.
type acq struct {
	op string // L TL RL TRL (Lock, TryLock, RLock, TryRLock) or "C" = ClearKey
	k  int
}

func (a acq) String() string { return fmt.Sprintf("%s%c", a.op, 'x'+rune(a.k)) }

type locker interface {
	LockKey(int)
	TryLockKey(int) bool
	UnlockKey(int)
	ClearKey(int)
}
type rwlocker interface {
	locker
	RLockKey(int)
	TryRLockKey(int) bool
	RUnlockKey(int)
}

type rec struct {
	km      locker
	rw      rwlocker
	writers [3]int
	readers [3]int
	busy    [3]int // threads between the start of an acquisition and the end of its release
	touch   [3]int // acquisitions ever started on the key
	viol    *schk.Fail
	tries   [][2]int // (k, result) per try, for the outcome string
	t2done  bool
	results []string
	nkeys   int // logical keys the locker knows (0 = 3)
}

//go:norace
func (r *rec) isT2done() bool { return r.t2done }

//go:norace
func (r *rec) holder(holdOp string) {
	r.busy[0]++
	r.touch[0]++
	if holdOp == "RL" {
		r.rw.RLockKey(0)
	} else {
		r.km.LockKey(0)
	}
	vrt.PointOp(&vrt.Op{Kind: "h.wait-T2-done", Ready: r.isT2done})
	if holdOp == "RL" {
		r.rw.RUnlockKey(0)
	} else {
		r.km.UnlockKey(0)
	}
	r.busy[0]--
}

//go:norace
func (r *rec) other(otherOp string) {
	r.run(2, acq{otherOp, 1}, true)
	r.t2done = true
}

//go:norace
func (r *rec) fail(sig, format string, a ...any) {
	if r.viol == nil {
		r.viol = schk.Failf(sig, format, a...)
	}
}

// cs is the critical section: occupancy counters with a scheduling point inside. (The
// harness's own bookkeeping is hidden from the race detector; the scheduler runs one
// thread at a time.)
//
//go:norace
func (r *rec) cs(th int, k int, write bool) {
	if write {
		if r.writers[k] != 0 || r.readers[k] != 0 {
			r.fail("mutual-exclusion", "thread %d holds the write lock of key %d while %d writer(s) and %d reader(s) are inside", th, k, r.writers[k], r.readers[k])
		}
		r.writers[k]++
		vrt.Yield("h.cs", unsafe.Pointer(&r.writers[k]), true)
		r.writers[k]--
	} else {
		if r.writers[k] != 0 {
			r.fail("mutual-exclusion", "thread %d holds the read lock of key %d while a writer is inside", th, k)
		}
		r.readers[k]++
		vrt.Yield("h.rcs", unsafe.Pointer(&r.writers[k]), true)
		r.readers[k]--
	}
}

//go:norace
func (r *rec) run(th int, a acq, alone bool) {
	k := a.k
	if a.op == "C" {
		r.km.ClearKey(k)
		return
	}
	othersBusy := r.busy[k]
	touched := r.touch[k]
	r.busy[k]++
	r.touch[k]++
	if alone {
		vrt.NoBlock(fmt.Sprintf("an acquisition of key %d, which no other thread uses", k))
	}
	r.run2(th, a, alone, othersBusy, touched)
	vrt.NoBlock("")
	r.busy[k]--
}

//go:norace
func (r *rec) run2(th int, a acq, alone bool, othersBusy, touched int) {
	k := a.k
	switch a.op {
	case "L":
		r.km.LockKey(k)
		r.cs(th, k, true)
		r.km.UnlockKey(k)
	case "RL":
		r.rw.RLockKey(k)
		r.cs(th, k, false)
		r.rw.RUnlockKey(k)
	case "TL", "TRL":
		vrt.NoBlock("Try" + a.op[1:] + "ockKey")
		var ok bool
		if a.op == "TL" {
			ok = r.km.TryLockKey(k)
		} else {
			ok = r.rw.TryRLockKey(k)
		}
		if !alone {
			vrt.NoBlock("")
		}
		r.results[th] += fmt.Sprint(a, "=", ok, " ")
		if !ok && othersBusy == 0 && r.touch[k] == touched+1 {
			r.fail("try-failed-on-free-key", "thread %d: %v returned false although no other thread held, awaited or was acquiring key %d at any time during the call", th, a, k)
		}
		if ok {
			r.cs(th, k, a.op == "TL")
			if a.op == "TL" {
				r.km.UnlockKey(k)
			} else {
				r.rw.RUnlockKey(k)
			}
		}
	}
}

func scenario(rw bool, used bool, prog [][]acq, bound, raceBound int) schk.Scenario {
	return crowded(rw, used, 0, prog, bound, raceBound)
}

// crowded: like scenario, but `crowd` further keys (and key x) have been used before, so that
// key y's first use happens in a map that already holds crowd+1 keys (cache-size thresholds).
func crowded(rw bool, used bool, crowd int, prog [][]acq, bound, raceBound int) schk.Scenario {
	return wornCrowded(rw, used, crowd, 0, prog, bound, raceBound)
}

// wornCrowded: in addition key x has been acquired and released `worn` times before the threads start
// (a per-key counter - tickets, holders, generations - narrower than the number of uses).
func wornCrowded(rw bool, used bool, crowd, worn int, prog [][]acq, bound, raceBound int) schk.Scenario {
	name := map[bool]string{false: "KeyedMutex", true: "KeyedRWMutex"}[rw] + map[bool]string{false: "/fresh|", true: "/used|"}[used]
	if crowd > 0 {
		name = fmt.Sprintf("%s/%d-other-keys|", name[:len(name)-1], crowd)
	}
	if worn > 0 {
		name = fmt.Sprintf("%s/key-x-used-%d-times|", name[:len(name)-1], worn)
	}
	uses := [3]int{}
	for i, p := range prog {
		if i > 0 {
			name += " || "
		}
		name += fmt.Sprint(p)
		seen := [3]bool{}
		for _, a := range p {
			if !seen[a.k] {
				seen[a.k] = true
				uses[a.k]++
			}
		}
	}
	return schk.Scenario{
		Name: name, Bound: bound, RaceBound: raceBound, MaxSteps: 20000 + 200*crowd,
		Body: func(s *vrt.Sched) any {
			r := &rec{results: make([]string, len(prog))}
			if rw {
				m := new(sync2.KeyedRWMutex[int])
				r.km, r.rw = m, m
			} else {
				r.km = new(sync2.KeyedMutex[int])
			}
			if used {
				for k := 0; k < 2; k++ {
					r.km.LockKey(k)
					r.km.UnlockKey(k)
				}
			}
			for i := 0; i < worn; i++ {
				if rw && i%3 == 1 {
					r.rw.RLockKey(0)
					r.rw.RUnlockKey(0)
				} else {
					r.km.LockKey(0)
					r.km.UnlockKey(0)
				}
			}
			if crowd > 0 {
				r.km.LockKey(0)
				r.km.UnlockKey(0)
				for k := 10; k < 10+crowd; k++ {
					if rw && k%2 == 0 {
						r.rw.RLockKey(k)
						r.rw.RUnlockKey(k)
					} else {
						r.km.LockKey(k)
						r.km.UnlockKey(k)
					}
				}
			}
			for t := range prog {
				t := t
				s.Spawn(fmt.Sprint("T", t), func() {
					for _, a := range prog[t] {
						r.run(t, a, uses[a.k] == 1)
					}
				})
			}
			return r
		},
		Check: func(x *vrt.Exec, obs any) (*schk.Fail, string) {
			r := obs.(*rec)
			if r.viol != nil {
				return r.viol, ""
			}
			if x.NoBlockViolated != "" {
				return schk.Failf("blocked", "%s", x.NoBlockViolated), ""
			}
			if x.Panic != "" || x.Deadlock {
				return nil, "abnormal"
			}
			// afterwards every key is free again - and they are different locks: all of them can be held
			// at the same time
			nk := 3
			if r.nkeys > 0 {
				nk = r.nkeys
			}
			for k := 0; k < nk; k++ {
				if !r.km.TryLockKey(k) {
					return schk.Failf("not-released", "after all threads finished key %d cannot be try-locked", k), ""
				}
				r.km.UnlockKey(k)
			}
			for k := 0; k < nk; k++ {
				if !r.km.TryLockKey(k) {
					return schk.Failf("keys-share-a-lock", "after all threads finished, key %d cannot be try-locked while the keys below it are held: two keys share one lock", k), ""
				}
			}
			for k := 0; k < nk; k++ {
				r.km.UnlockKey(k)
			}
			return nil, fmt.Sprint(r.results)
		},
	}
}

// hold is the cross-key independence scenario: T0 holds key x until T2 is done (T1, if
// present, waits for x); T2's acquisition of key y must neither block nor fail.
func hold(rw bool, holdOp, waitOp, otherOp string, bound3 int) schk.Scenario {
	return holdOn(nil, "", rw, holdOp, waitOp, otherOp, bound3)
}

// holdOn is hold over a locker made by mk (nil: one KeyedMutex/KeyedRWMutex[int]).
func holdOn(mk func(rw bool) rwlocker, prefix string, rw bool, holdOp, waitOp, otherOp string, bound3 int) schk.Scenario {
	bound := -1
	if waitOp != "" {
		bound = bound3
	}
	name := prefix + fmt.Sprintf("%s/hold|T0 %sx until T2 done || T1 %sx || T2 %sy", map[bool]string{false: "KeyedMutex", true: "KeyedRWMutex"}[rw], holdOp, waitOp, otherOp)
	return schk.Scenario{
		Name: name, Bound: bound, RaceBound: 1,
		Body: func(s *vrt.Sched) any {
			r := &rec{results: make([]string, 3)}
			if mk != nil {
				l := mk(rw)
				r.km = l
				if rw {
					r.rw = l
				}
			} else if rw {
				m := new(sync2.KeyedRWMutex[int])
				r.km, r.rw = m, m
			} else {
				r.km = new(sync2.KeyedMutex[int])
			}
			s.Spawn("T0-holder", func() { r.holder(holdOp) })
			if waitOp != "" {
				s.Spawn("T1-waiter", func() { r.run(1, acq{waitOp, 0}, false) })
			}
			s.Spawn("T2-other-key", func() { r.other(otherOp) })
			return r
		},
		Check: func(x *vrt.Exec, obs any) (*schk.Fail, string) {
			r := obs.(*rec)
			if r.viol != nil {
				return r.viol, ""
			}
			if x.NoBlockViolated != "" {
				return schk.Failf("cross-key-delay", "%s", x.NoBlockViolated), ""
			}
			if x.Deadlock {
				return schk.Failf("cross-key-delay", "deadlock: the acquisition of key y waits for key x: %v", x.Blocked), ""
			}
			return nil, fmt.Sprint(r.results)
		},
		ExpectDeadlock: true,
	}
}

// kad drives a KeyedMutex[K] / KeyedRWMutex[K] of any key type through the harness's small integer
// keys: logical key k stands for the values keys[k], which are all EQUAL under == (one key as far as
// Go is concerned) but are spelled differently where the type allows it (+0.0 and -0.0, two strings
// with the same text in different memory, interfaces holding those). Successive calls rotate through the
// spellings, so a lock taken under one spelling is contended and released under another.
type kad[K comparable] struct {
	m    *sync2.KeyedMutex[K]
	rwm  *sync2.KeyedRWMutex[K]
	keys [2][]K
	n    [2]int
}

//go:norace
func (a *kad[K]) key(k int) K {
	a.n[k]++
	return a.keys[k][a.n[k]%len(a.keys[k])]
}

func (a *kad[K]) LockKey(k int) {
	if a.rwm != nil {
		a.rwm.LockKey(a.key(k))
	} else {
		a.m.LockKey(a.key(k))
	}
}
func (a *kad[K]) TryLockKey(k int) bool {
	if a.rwm != nil {
		return a.rwm.TryLockKey(a.key(k))
	}
	return a.m.TryLockKey(a.key(k))
}
func (a *kad[K]) UnlockKey(k int) {
	if a.rwm != nil {
		a.rwm.UnlockKey(a.key(k))
	} else {
		a.m.UnlockKey(a.key(k))
	}
}
func (a *kad[K]) ClearKey(k int) {
	if a.rwm != nil {
		a.rwm.ClearKey(a.key(k))
	} else {
		a.m.ClearKey(a.key(k))
	}
}
func (a *kad[K]) RLockKey(k int)         { a.rwm.RLockKey(a.key(k)) }
func (a *kad[K]) TryRLockKey(k int) bool { return a.rwm.TryRLockKey(a.key(k)) }
func (a *kad[K]) RUnlockKey(k int)       { a.rwm.RUnlockKey(a.key(k)) }

func newKad[K comparable](rw bool, k0, k1 []K) rwlocker {
	a := &kad[K]{keys: [2][]K{k0, k1}}
	if rw {
		a.rwm = new(sync2.KeyedRWMutex[K])
	} else {
		a.m = new(sync2.KeyedMutex[K])
	}
	return a
}

// twoInst presents TWO keyed mutexes as one locker: logical key x is key 0 of the first instance,
// logical key y is the SAME key 0 of the second instance. Every scenario that demands independence of
// keys x and y then demands independence of two instances (state shared between instances - one lock
// table for all of them - couples them).
type twoInst struct {
	m  [2]*sync2.KeyedMutex[int]
	rw [2]*sync2.KeyedRWMutex[int]
}

func newTwoInst(rw bool) rwlocker {
	t := &twoInst{}
	for i := range t.m {
		if rw {
			t.rw[i] = new(sync2.KeyedRWMutex[int])
		} else {
			t.m[i] = new(sync2.KeyedMutex[int])
		}
	}
	return t
}
func (t *twoInst) LockKey(k int) {
	if t.rw[k] != nil {
		t.rw[k].LockKey(0)
	} else {
		t.m[k].LockKey(0)
	}
}
func (t *twoInst) TryLockKey(k int) bool {
	if t.rw[k] != nil {
		return t.rw[k].TryLockKey(0)
	}
	return t.m[k].TryLockKey(0)
}
func (t *twoInst) UnlockKey(k int) {
	if t.rw[k] != nil {
		t.rw[k].UnlockKey(0)
	} else {
		t.m[k].UnlockKey(0)
	}
}
func (t *twoInst) ClearKey(k int) {
	if t.rw[k] != nil {
		t.rw[k].ClearKey(0)
	} else {
		t.m[k].ClearKey(0)
	}
}
func (t *twoInst) RLockKey(k int)         { t.rw[k].RLockKey(0) }
func (t *twoInst) TryRLockKey(k int) bool { return t.rw[k].TryRLockKey(0) }
func (t *twoInst) RUnlockKey(k int)       { t.rw[k].RUnlockKey(0) }

type fkey struct {
	F float64
	S string
}

// keyTypes: key types other than int, each with two spellings of key x where the type has them.
var keyTypes = []struct {
	name string
	mk   func(rw bool) rwlocker
}{
	{"float64(+0/-0)", func(rw bool) rwlocker {
		return newKad(rw, []float64{0, math.Copysign(0, -1)}, []float64{1.5})
	}},
	{"string", func(rw bool) rwlocker {
		b := []byte("key-x")
		return newKad(rw, []string{"key-x", string(b), string(b[:3]) + "-x"}, []string{"key-y"})
	}},
	{"any(float64,string)", func(rw bool) rwlocker {
		return newKad(rw, []any{0.0, math.Copysign(0, -1)}, []any{"y", string([]byte("y"))})
	}},
	{"struct{float64,string}", func(rw bool) rwlocker {
		return newKad(rw, []fkey{{0, "a"}, {math.Copysign(0, -1), string([]byte("a"))}}, []fkey{{1, "a"}})
	}},
	{"[2]float32", func(rw bool) rwlocker {
		nz := float32(math.Copysign(0, -1))
		return newKad(rw, [][2]float32{{0, 0}, {nz, 0}, {0, nz}}, [][2]float32{{0, 1}})
	}},
	{"complex128", func(rw bool) rwlocker {
		nz := math.Copysign(0, -1)
		return newKad(rw, []complex128{0, complex(nz, 0), complex(0, nz)}, []complex128{1i})
	}},
	{"two instances, the same key in each", newTwoInst},
	// keys that LOOK alike but are different keys: interface keys holding the same number in different
	// dynamic types, strings differing in a trailing NUL, a tiny float next to zero
	{"any(int 3) vs any(int64 3)", func(rw bool) rwlocker {
		return newKad(rw, []any{int(3)}, []any{int64(3)})
	}},
	{"any(uint8 3) vs any(int 3)", func(rw bool) rwlocker {
		return newKad(rw, []any{uint8(3)}, []any{int(3)})
	}},
	{"any(\"3\") vs any(int 3)", func(rw bool) rwlocker {
		return newKad(rw, []any{"3"}, []any{int(3)})
	}},
	{"string a vs a+NUL", func(rw bool) rwlocker {
		return newKad(rw, []string{"a"}, []string{"a\x00"})
	}},
	{"float64 0 vs smallest positive", func(rw bool) rwlocker {
		return newKad(rw, []float64{0, math.Copysign(0, -1)}, []float64{math.SmallestNonzeroFloat64})
	}},
	{"int 0 vs 64 vs -1 vs MinInt", func(rw bool) rwlocker {
		return newKad(rw, []int{64}, []int{math.MinInt})
	}},
	{"*int", func(rw bool) rwlocker {
		p, q := new(int), new(int)
		return newKad(rw, []*int{p}, []*int{q}) // equal pointees, different keys
	}},
}

// typed is scenario() for a key type of keyTypes.
func typed(ty int, rw bool, prog [][]acq, bound, raceBound int) schk.Scenario {
	sc := crowded(rw, false, 0, prog, bound, raceBound)
	sc.Name = "key type " + keyTypes[ty].name + "/" + sc.Name
	sc.Body = func(s *vrt.Sched) any {
		r := &rec{results: make([]string, len(prog)), nkeys: 2}
		l := keyTypes[ty].mk(rw)
		r.km = l
		if rw {
			r.rw = l
		}
		uses := [2]int{}
		for _, p := range prog {
			seen := [2]bool{}
			for _, a := range p {
				if !seen[a.k] {
					seen[a.k] = true
					uses[a.k]++
				}
			}
		}
		for t := range prog {
			t := t
			s.Spawn(fmt.Sprint("T", t), func() {
				for _, a := range prog[t] {
					r.run(t, a, uses[a.k] == 1)
				}
			})
		}
		return r
	}
	return sc
}

// unhashable: a keyed mutex with interface keys is handed a key that cannot be hashed (a slice inside the
// interface): the call panics like a map access would, and the caller recovers. Whatever that call did,
// other keys must be as usable as before, for this thread and for another one (no lock left behind).
func unhashableScenario(rw, used bool, op string) schk.Scenario {
	name := fmt.Sprintf("%s[any]/used=%v|T0 %s(unhashable key, recovered) then Lx || T1 Ly", map[bool]string{false: "KeyedMutex", true: "KeyedRWMutex"}[rw], used, op)
	type urec struct{ done [2]bool }
	return schk.Scenario{
		Name: name, Bound: -1, RaceBound: -2,
		Body: func(s *vrt.Sched) any {
			r := &urec{}
			var km *sync2.KeyedMutex[any]
			var krw *sync2.KeyedRWMutex[any]
			lock := func(k any) {
				if rw {
					krw.LockKey(k)
					krw.UnlockKey(k)
				} else {
					km.LockKey(k)
					km.UnlockKey(k)
				}
			}
			if rw {
				krw = new(sync2.KeyedRWMutex[any])
			} else {
				km = new(sync2.KeyedMutex[any])
			}
			if used {
				lock("x")
				lock("y")
			}
			bad := any([]int{1})
			s.Spawn("T0", func() {
				func() {
					defer func() { recover() }()
					switch {
					case op == "L" && rw:
						krw.LockKey(bad)
					case op == "L":
						km.LockKey(bad)
					case op == "TL" && rw:
						krw.TryLockKey(bad)
					case op == "TL":
						km.TryLockKey(bad)
					case op == "RL":
						krw.RLockKey(bad)
					case op == "TRL":
						krw.TryRLockKey(bad)
					case op == "C" && rw:
						krw.ClearKey(bad)
					default:
						km.ClearKey(bad)
					}
				}()
				lock("x")
				r.done[0] = true
			})
			s.Spawn("T1", func() { lock("y"); lock("z"); r.done[1] = true })
			return r
		},
		Check: func(x *vrt.Exec, obs any) (*schk.Fail, string) {
			r := obs.(*urec)
			if x.Panic != "" {
				return nil, "panic"
			}
			if x.Deadlock || !r.done[0] || !r.done[1] {
				return schk.Failf("blocked-after-recovered-panic", "after a call with an unhashable key panicked (and was recovered) other keys can no longer be acquired: %v", x.Blocked), ""
			}
			return nil, "ok"
		},
		ExpectDeadlock: true,
	}
}

func main() {
	r := ev.Start("C09")
	var scs []schk.Scenario
	mops := []acq{{"L", 0}, {"TL", 0}, {"L", 1}, {"TL", 1}}
	rwops := []acq{{"L", 0}, {"TL", 0}, {"RL", 0}, {"TRL", 0}, {"L", 1}, {"RL", 1}, {"TRL", 1}}
	progs := func(ops []acq, two bool) [][]acq {
		var ps [][]acq
		for _, a := range ops {
			ps = append(ps, []acq{a})
		}
		if two {
			for _, a := range ops {
				for _, b := range ops {
					ps = append(ps, []acq{a, b})
				}
			}
		}
		return ps
	}
	for _, rw := range []bool{false, true} {
		ops := mops
		if rw {
			ops = rwops
		}
		for _, used := range []bool{false, true} {
			// 2 threads, programs of one or two acquisitions, ALL interleavings
			ps := progs(ops, true)
			for i, a := range ps {
				for _, b := range ps[i:] {
					if len(a)+len(b) > 2 {
						// programs of two acquisitions: preemption-bounded
						if !r.Thorough() && (used || len(a)+len(b) == 3 || a[0].k != a[1].k || b[0].k != b[1].k || a[0].k != b[0].k) {
							continue
						}
						scs = append(scs, scenario(rw, used, [][]acq{a, b}, ev.Pick(r, 2, 3), -2))
						continue
					}
					scs = append(scs, scenario(rw, used, [][]acq{a, b}, -1, ev.Pick(r, 1, 2)))
				}
			}
			// 3 threads x 1 acquisition
			one := progs(ops, false)
			for i, a := range one {
				for j, b := range one[i:] {
					for _, c := range one[i+j:] {
						scs = append(scs, scenario(rw, used, [][]acq{a, b, c}, ev.Pick(r, 2, 3), ev.Pick(r, -2, 1)))
					}
				}
			}
			if r.Thorough() {
				// 4 threads x 1 acquisition on one key (and one on the other)
				four := []acq{{"L", 0}, {"TL", 0}, {"L", 1}}
				if rw {
					four = []acq{{"L", 0}, {"RL", 0}, {"TRL", 0}, {"L", 1}}
				}
				for i, a := range four {
					for j, b := range four[i:] {
						for k, c := range four[i+j:] {
							for _, d := range four[i+j+k:] {
								scs = append(scs, scenario(rw, used, [][]acq{{a}, {b}, {c}, {d}}, 2, -2))
							}
						}
					}
				}
			}
		}
		// other key types (keys that are equal under == but spelled differently)
		for ty := range keyTypes {
			one := progs(ops, false)
			for i, a := range one {
				for j, b := range one[i:] {
					rb := -2
					if ty == 0 {
						rb = 1
					}
					scs = append(scs, typed(ty, rw, [][]acq{a, b}, -1, rb))
					if a[0].k == 0 && b[0].k == 0 && (ty < 2 || r.Thorough()) {
						for _, c := range one[i+j:] {
							if c[0].k == 0 {
								scs = append(scs, typed(ty, rw, [][]acq{a, b, c}, 2, -2))
							}
						}
						scs = append(scs, typed(ty, rw, [][]acq{{a[0], b[0]}, {b[0], a[0]}}, 2, -2))
					}
				}
			}
		}
		// many keys: the first use of key y happens when the map already holds 16/32/64/128/256 keys
		for _, crowd := range []int{14, 30, 62, 126, 254, 1022, 4094} {
			for _, pp := range [][][]acq{
				{{{"L", 0}}, {{"L", 1}, {"TL", 0}}},
				{{{"L", 0}, {"L", 0}}, {{"L", 1}, {"L", 0}}},
				{{{"TL", 0}}, {{"TL", 1}, {"L", 0}}},
			} {
				b := ev.Pick(r, 2, 3)
				if crowd > 254 {
					b = ev.Pick(r, 1, 2)
				}
				scs = append(scs, crowded(rw, false, crowd, pp, b, -2))
			}
			// a hand-over (T0 releases x, T1 is waiting for it) while T2 uses key y for the first time
			scs = append(scs, crowded(rw, false, crowd, [][]acq{{{"L", 0}}, {{"L", 0}}, {{"L", 1}, {"TL", 0}}}, ev.Pick(r, 1, 2), -2))
			if rw {
				rb := ev.Pick(r, 2, 3)
				if crowd > 1022 {
					rb = ev.Pick(r, 1, 2) // (the set-up of 4096 keys runs under the scheduler in every execution)
				}
				scs = append(scs, crowded(rw, false, crowd, [][]acq{{{"RL", 0}}, {{"L", 1}, {"TRL", 0}, {"TL", 0}}}, rb, -2))
			}
		}
		// a key that has been used 2^8 / 2^16 times (and one less, one more) before two threads contend for it
		for _, worn := range []int{255, 256, 65535, 65536, 65537} {
			pps := [][][]acq{{{{"L", 0}}, {{"L", 0}}}, {{{"L", 0}}, {{"TL", 0}}}, {{{"L", 0}}, {{"L", 0}}, {{"L", 0}}}}
			if rw {
				pps = append(pps, [][]acq{{{"RL", 0}}, {{"L", 0}}}, [][]acq{{{"RL", 0}}, {{"RL", 0}}, {{"L", 0}}}, [][]acq{{{"L", 0}}, {{"TRL", 0}}})
			}
			for _, pp := range pps {
				sc := wornCrowded(rw, false, 0, worn, pp, 2, -2)
				if worn > 1000 {
					sc.Schedules = 60 // a family member: the set-up alone is 10^5 calls per execution
				}
				scs = append(scs, sc)
			}
		}
		for _, used := range []bool{false, true} {
			ops := []string{"L", "TL", "C"}
			if rw {
				ops = append(ops, "RL", "TRL")
			}
			for _, op := range ops {
				scs = append(scs, unhashableScenario(rw, used, op))
			}
		}
		// keys that were used and cleared before (whatever ClearKey sets aside is there to be reused), then
		// first uses of three keys by two threads with a ClearKey of an idle key in between
		for _, cleared := range []int{0, 1, 2, 3, 5} {
			for _, pp := range [][][]acq{
				{{{"L", 2}}, {{"L", 0}, {"L", 1}, {"C", 0}}},
				{{{"TL", 2}}, {{"L", 0}, {"C", 0}, {"L", 1}}},
				{{{"L", 2}, {"C", 2}}, {{"L", 0}, {"L", 1}, {"C", 1}}},
			} {
				sc := crowded(rw, false, 0, pp, ev.Pick(r, 2, 3), -2)
				sc.Name = fmt.Sprintf("%d keys used and cleared before/%s", cleared, sc.Name)
				inner := sc.Body
				n := cleared
				sc.Body = func(s *vrt.Sched) any {
					r := inner(s).(*rec)
					// (the threads are spawned but not started: this still is the sequential set-up)
					for k := 20; k < 20+n; k++ {
						r.km.LockKey(k)
						r.km.UnlockKey(k)
					}
					for k := 20; k < 20+n; k++ {
						r.km.ClearKey(k)
					}
					return r
				}
				scs = append(scs, sc)
			}
		}
		// ClearKey between uses (no goroutine holds or awaits the key), another thread on the other key
		scs = append(scs, scenario(rw, false, [][]acq{{{"L", 0}, {"C", 0}, {"L", 0}, {"C", 0}, {"TL", 0}}, {{"L", 1}, {"TL", 1}}}, ev.Pick(r, 2, 4), 1))
		// cross-key independence
		holds, waits, others := []string{"L"}, []string{"", "L", "TL"}, []string{"L", "TL"}
		if rw {
			holds, waits, others = []string{"L", "RL"}, []string{"", "L", "RL", "TRL"}, []string{"L", "TL", "RL", "TRL"}
		}
		for _, h := range holds {
			for _, w := range waits {
				for _, o := range others {
					scs = append(scs, hold(rw, h, w, o, ev.Pick(r, 2, 4)))
					// the same with x and y being one key in two different instances, and for the key types
					// whose keys x and y look alike
					scs = append(scs, holdOn(newTwoInst, "two instances/", rw, h, w, o, ev.Pick(r, 2, 4)))
					if w == "" {
						for _, kt := range keyTypes {
							scs = append(scs, holdOn(kt.mk, "key type "+kt.name+"/", rw, h, w, o, -1))
						}
					}
				}
			}
		}
	}
	schk.Main(r, scs, ev.Pick(r, 45*time.Second, 1200*time.Second), func(r *ev.Run) {
		r.Set("rule", "controlled scheduler over the instrumented sync2 package (keyed mutexes on top of the concurrent map); key type int throughout, and for every pair / same-key triple of single acquisitions also float64, string, interface, struct, array, complex and pointer keys where one key has several spellings that are equal under == (+0.0/-0.0, equal strings in different memory) used in rotation: threads run programs of 1-2 acquisitions (LockKey, TryLockKey, RLockKey, TryRLockKey, each followed by a critical section with a scheduling point inside and the matching unlock) over keys {x,y}, on never-seen keys (first-use race) and on keys used before; 2 threads under ALL interleavings, 3 (and 4) threads under a bound or all; oracles: per-key occupancy (never two writers, never writer with reader), Try* never blocked in a stable state, Try* false only if another thread held/awaited/was acquiring the key during the call, a thread acquiring a key nobody else uses is never blocked in a stable state, no deadlock, keys free afterwards; dedicated cross-key scenarios (T0 holds x until T2 is done, T1 waits for x, T2 acquires y), also with x and y being the same key of two different instances; ClearKey between uses; race detector inside every explored schedule of the race build")
		r.Assume("ClearKey is exercised only when no goroutine holds or awaits the key, as the property states")
	})
}
