// C05: sync2.Set is an atomic set under concurrent use.
package main

import (
	"fmt"
	"sort"
	"time"

	"gopkg.in/typ.v4/sets"
	"gopkg.in/typ.v4/sync2"
	"verif/lib/ev"
	"verif/lib/fp"
	"verif/lib/lin"
	"verif/lib/schk"
	"verif/lib/seqmc"
	"verif/vrt"
)

// ordSet is an immutable argument set with a deterministic Range order (a maps.Set would
// iterate in Go's randomised map order, which the scheduler does not own).
type ordSet []int

func (s ordSet) String() string { return fmt.Sprint([]int(s)) }
func (s ordSet) Len() int       { return len(s) }
func (s ordSet) Has(v int) bool {
	return sort.SearchInts(s, v) < len(s) && s[sort.SearchInts(s, v)] == v
}
func (s ordSet) Add(int) bool                          { panic("immutable") }
func (s ordSet) Remove(int) bool                       { panic("immutable") }
func (s ordSet) AddSet(sets.Set[int]) int              { panic("immutable") }
func (s ordSet) RemoveSet(sets.Set[int]) int           { panic("immutable") }
func (s ordSet) Clone() sets.Set[int]                  { return s }
func (s ordSet) Slice() []int                          { return append([]int{}, s...) }
func (s ordSet) Intersect(sets.Set[int]) sets.Set[int] { panic("unused") }
func (s ordSet) Union(sets.Set[int]) sets.Set[int]     { panic("unused") }
func (s ordSet) SetDiff(sets.Set[int]) sets.Set[int]   { panic("unused") }
func (s ordSet) SymDiff(sets.Set[int]) sets.Set[int]   { panic("unused") }
func (s ordSet) Range(f func(int) bool) {
	for _, v := range s {
		if !f(v) {
			return
		}
	}
}

type call struct {
	op string // Add Remove Has AddSet RemoveSet Len
	v  int    // value, or for AddSet/RemoveSet a bitmask of {a,b}
}

func (c call) String() string { return fmt.Sprintf("%s(%d)", c.op, c.v) }

// setOf decodes an AddSet/RemoveSet operand: bits 0..1 select the modelled values {a,b}; the rest
// (v>>2) is a number of further "pad" values 100, 101, ... that only this call touches, which makes
// the operand large without enlarging the modelled universe.
func setOf(code int) ordSet {
	var s ordSet
	for v := 0; v < nvals; v++ {
		if code>>uint(v)&1 == 1 {
			s = append(s, v)
		}
	}
	for i := 0; i < code>>2; i++ {
		s = append(s, 100+i)
	}
	return s
}

func big(mask, pad int) int { return mask | pad<<2 }

// nvals is the value universe {a,b} of the scenarios (the model state has room for lin.Keys).
const nvals = 2

type layout struct {
	name string
	pre  []call
}

// seth is the sequential harness used to enumerate every concrete layout of a 2-value set.
type seth struct {
	s *sync2.Set[int]
	m [lin.Keys]bool
}

func (x *seth) Ops() []seqmc.Op {
	var ops []seqmc.Op
	for v := 0; v < nvals; v++ {
		ops = append(ops, seqmc.Op{Name: "Add", A: v}, seqmc.Op{Name: "Remove", A: v}, seqmc.Op{Name: "Has", A: v})
	}
	return append(ops, seqmc.Op{Name: "Has", A: nvals}, seqmc.Op{Name: "Len"})
}
func (x *seth) Apply(op seqmc.Op) *seqmc.Fail {
	switch op.Name {
	case "Add":
		x.s.Add(op.A)
		x.m[op.A] = true
	case "Remove":
		x.s.Remove(op.A)
		x.m[op.A] = false
	case "Has":
		x.s.Has(op.A)
	case "Len":
		x.s.Len()
	}
	return nil
}
func (x *seth) Key() string          { return fmt.Sprint(fp.Of(x.s), x.m) }
func (x *seth) Observe() *seqmc.Fail { return nil }

// allLayouts: every concrete layout (read map, dirty map, amended, misses, nil/expunged/live
// entries) a set over two values can reach, with the shortest call sequence reaching it.
func allLayouts(r *ev.Run) []layout {
	var out []layout
	seqmc.Explore(r, seqmc.Config{Name: "layouts", Workers: 1, MaxStates: 1500, New: func() seqmc.Sys { return &seth{s: new(sync2.Set[int])} },
		OnState: func(path []seqmc.Op) {
			l := layout{name: fmt.Sprint("L", len(out), ":")}
			for _, o := range path {
				l.pre = append(l.pre, call{o.Name, o.A})
				l.name += fmt.Sprintf("%s%d.", o.Name[:1], o.A)
			}
			out = append(out, l)
		}})
	return out
}

type rec struct {
	s      *sync2.Set[int]
	init   [lin.Keys]bool
	ops    [][]lin.Op
	groups [][]lin.Group // per thread, indices relative to the thread's ops
	// (pad, 1|0) per finished AddSet/RemoveSet with pad values: they must all be present / absent afterwards
	padAfter [][][2]int // per thread
	padTotal int        // pad values of all operands of the scenario (a concurrent Len may count any of them)
}

func (r *rec) do(th int, c call) {
	vrt.Begin()
	var ok bool
	var n int
	switch c.op {
	case "Add":
		ok = r.s.Add(c.v)
	case "Remove":
		ok = r.s.Remove(c.v)
	case "Has":
		ok = r.s.Has(c.v)
	case "AddSet":
		n = r.s.AddSet(setOf(c.v))
	case "RemoveSet":
		n = r.s.RemoveSet(setOf(c.v))
	case "RangePanic+Add":
		// a Range whose callback panics at its first call (recovered by the caller), then an ordinary Add:
		// the set must be as usable as before
		func() {
			defer func() { recover() }()
			r.s.Range(func(int) bool { panic("callback failed") })
		}()
		ok = r.s.Add(c.v)
	case "AddSelf": // the set passed to itself
		n = r.s.AddSet(r.s)
	case "RemoveSelf":
		n = r.s.RemoveSet(r.s)
	case "Len":
		n = r.s.Len()
	}
	inv, ret := vrt.End()
	base := len(r.ops[th])
	switch c.op {
	case "RangePanic+Add":
		r.ops[th] = append(r.ops[th], lin.Op{Kind: "Add", Key: c.v, Ok: ok, Thread: th, Inv: inv, Ret: ret})
	case "Add", "Remove", "Has":
		r.ops[th] = append(r.ops[th], lin.Op{Kind: c.op, Key: c.v, Ok: ok, Thread: th, Inv: inv, Ret: ret})
	case "AddSet", "RemoveSet":
		kind := c.op[:len(c.op)-3]
		var g lin.Group
		for _, v := range setOf(c.v & 3) {
			g.Idx = append(g.Idx, len(r.ops[th]))
			r.ops[th] = append(r.ops[th], lin.Op{Kind: kind, Key: v, Thread: th*10 + 100 + v, Inv: inv, Ret: ret})
		}
		// the pad values are touched by this call only: absent before an AddSet, present (put there by
		// the set-up) before a RemoveSet, so each of them contributes exactly one to the count
		g.Count = n - c.v>>2
		r.padAfter[th] = append(r.padAfter[th], [2]int{c.v >> 2, map[string]int{"Add": 1, "Remove": 0}[kind]})
		r.groups[th] = append(r.groups[th], g)
	case "AddSelf", "RemoveSelf":
		// one pseudo-operation per modelled value (whether the value is among the operand's members at
		// the moment it is reached is part of what the linearization decides)
		// RemoveSet(self): an ordinary Remove per value (a value present during the whole call is met by
		// the walk and removed). AddSet(self): "AddIfMember" per value (see lib/lin).
		kind := "Remove"
		if c.op == "AddSelf" {
			kind = "AddIfMember"
		}
		var g lin.Group
		for v := 0; v < nvals; v++ {
			g.Idx = append(g.Idx, len(r.ops[th]))
			r.ops[th] = append(r.ops[th], lin.Op{Kind: kind, Key: v, Thread: th*10 + 100 + v, Inv: inv, Ret: ret})
		}
		g.Count = n
		r.groups[th] = append(r.groups[th], g)
	case "Len":
		var g lin.Group
		for v := 0; v < nvals; v++ {
			g.Idx = append(g.Idx, len(r.ops[th]))
			r.ops[th] = append(r.ops[th], lin.Op{Kind: "Has", Key: v, Thread: th*10 + 100 + v, Inv: inv, Ret: ret})
		}
		g.Count, g.Slack = n, r.padTotal
		r.groups[th] = append(r.groups[th], g)
	}
	_ = base
}

func scenario(lay layout, prog [][]call, bound, raceBound int) schk.Scenario {
	name := lay.name + "|"
	for i, p := range prog {
		if i > 0 {
			name += " || "
		}
		name += fmt.Sprint(p)
	}
	return schk.Scenario{
		Name: name, Bound: bound, RaceBound: raceBound, MaxSteps: 20000 + 200*len(lay.pre),
		Body: func(s *vrt.Sched) any {
			r := &rec{s: new(sync2.Set[int]), ops: make([][]lin.Op, len(prog)), groups: make([][]lin.Group, len(prog))}
			for _, c := range lay.pre {
				switch c.op {
				case "Add":
					r.s.Add(c.v)
					if c.v < lin.Keys {
						r.init[c.v] = true
					}
				case "Remove":
					r.s.Remove(c.v)
					if c.v < lin.Keys {
						r.init[c.v] = false
					}
				case "Has":
					r.s.Has(c.v)
				case "Len":
					r.s.Len()
				}
			}
			r.padAfter = make([][][2]int, len(prog))
			for _, p := range prog {
				for _, c := range p {
					if c.op == "AddSet" || c.op == "RemoveSet" {
						r.padTotal += c.v >> 2
					}
					if c.op == "RemoveSet" {
						for i := 0; i < c.v>>2; i++ {
							r.s.Add(100 + i)
						}
					}
				}
			}
			for t := range prog {
				t := t
				s.Spawn(fmt.Sprint("T", t), func() {
					for _, c := range prog[t] {
						r.do(t, c)
					}
				})
			}
			return r
		},
		Check: func(x *vrt.Exec, obs any) (*schk.Fail, string) {
			r := obs.(*rec)
			if x.Panic != "" || x.Deadlock {
				return nil, "abnormal"
			}
			var all []lin.Op
			var groups []lin.Group
			last := 0
			// net successful Adds minus Removes per value, for the derived accounting check
			var net [lin.Keys]int
			for t, ops := range r.ops {
				off := len(all)
				for _, o := range ops {
					all = append(all, o)
					if o.Ret > last {
						last = o.Ret
					}
					if o.Thread < 50 && o.Ok {
						if o.Kind == "Add" {
							net[o.Key]++
						} else if o.Kind == "Remove" {
							net[o.Key]--
						}
					}
				}
				for _, g := range r.groups[t] {
					ng := lin.Group{Count: g.Count, Slack: g.Slack}
					for _, ix := range g.Idx {
						ng.Idx = append(ng.Idx, off+ix)
					}
					groups = append(groups, ng)
				}
			}
			// after quiescence: Has of every value, Len and Slice must agree with each other
			n := 0
			var final [lin.Keys]bool
			for v := 0; v < nvals; v++ {
				final[v] = r.s.Has(v)
				if final[v] {
					n++
				}
				all = append(all, lin.Op{Kind: "Has", Key: v, Ok: final[v], Thread: 50 + v, Inv: last + 10 + 4*v, Ret: last + 11 + 4*v})
			}
			for _, pas := range r.padAfter {
				for _, pa := range pas {
					for i := 0; i < pa[0]; i++ {
						if r.s.Has(100+i) != (pa[1] == 1) {
							return schk.Failf("final-state", "value %d of a large AddSet/RemoveSet operand (touched by that call only): Has = %v afterwards", 100+i, r.s.Has(100+i)), ""
						}
					}
				}
			}
			l, sl := r.s.Len(), r.s.Slice()
			extra := 0 // crowd values outside the modelled universe
			for _, v := range sl {
				if v >= lin.Keys {
					extra++
				}
			}
			if l != n+extra || len(sl) != n+extra {
				return schk.Failf("final-state", "after quiescence Has says %v but Len = %d and Slice = %v", final, l, sl), ""
			}
			ok, desc := lin.CheckSetGroups(r.init, all, groups)
			if !ok {
				return schk.Failf("not-atomic", "history is not linearizable to a set (initially %v): %s", r.init, desc), ""
			}
			// derived accounting (only when no composite call took part): #succ.Add - #succ.Remove = final - initial
			if len(groups) == 0 {
				for v := 0; v < nvals; v++ {
					want := 0
					if final[v] {
						want++
					}
					if r.init[v] {
						want--
					}
					if net[v] != want {
						return schk.Failf("accounting", "value %d: successful Adds minus successful Removes = %d, but membership went %v -> %v", v, net[v], r.init[v], final[v]), ""
					}
				}
			}
			return nil, desc
		},
	}
}

// unhashableScenario: a Set[any] is handed a value that cannot be hashed (a slice inside the interface):
// the call panics like a map access would and the caller recovers. Whatever that call did, the set must
// be as usable as before for this thread and for another one, and hold what it held.
func unhashableScenario(state int, op string) schk.Scenario {
	type urec struct {
		done [2]bool
		has  [3]bool
		n    int
	}
	name := fmt.Sprintf("Set[any]/%s|T0 %s(unhashable value, recovered) Add(y) || T1 Has(x) Add(z)", []string{"fresh", "after Add(x)", "after Add(x) Len()"}[state], op)
	return schk.Scenario{
		Name: name, Bound: -1, RaceBound: -2, ExpectDeadlock: true,
		Body: func(s *vrt.Sched) any {
			r := &urec{}
			set := new(sync2.Set[any])
			if state >= 1 {
				set.Add("x")
			}
			if state >= 2 {
				set.Len()
			}
			bad := any([]int{1})
			s.Spawn("T0", func() {
				func() {
					defer func() { recover() }()
					switch op {
					case "Add":
						set.Add(bad)
					case "Has":
						set.Has(bad)
					default:
						set.Remove(bad)
					}
				}()
				set.Add("y")
				r.done[0] = true
			})
			s.Spawn("T1", func() {
				set.Has("x")
				set.Add("z")
				r.has = [3]bool{set.Has("x"), set.Has("z"), set.Has("nope")}
				r.done[1] = true
			})
			s.Spawn("T2", func() {}) // keeps the scenario shape uniform
			_ = r.n
			return [2]any{r, set}
		},
		Check: func(x *vrt.Exec, obs any) (*schk.Fail, string) {
			pair := obs.([2]any)
			r, set := pair[0].(*urec), pair[1].(*sync2.Set[any])
			if x.Panic != "" {
				return nil, "panic"
			}
			if x.Deadlock || !r.done[0] || !r.done[1] {
				return schk.Failf("blocked-after-recovered-panic", "after a call with an unhashable value panicked (and was recovered) ordinary calls on the set never return: %v", x.Blocked), ""
			}
			want := 2
			if state >= 1 {
				want = 3
			}
			if r.has != [3]bool{state >= 1, true, false} || set.Len() != want || !set.Has("y") {
				return schk.Failf("final-state", "after a recovered panic on an unhashable value: Has(x),Has(z),Has(nope) = %v, Len = %d (want %d), Has(y) = %v", r.has, set.Len(), want, set.Has("y")), ""
			}
			return nil, "ok"
		},
	}
}

func main() {
	r := ev.Start("C05")
	full := []call{{"Add", 0}, {"Add", 1}, {"Remove", 0}, {"Remove", 1}, {"Has", 0}, {"Has", 1}, {"AddSet", 3}, {"RemoveSet", 3}, {"AddSet", 1}, {"Len", 0}}
	small := []call{{"Add", 0}, {"Remove", 0}, {"Has", 0}, {"Add", 1}, {"Len", 0}, {"RemoveSet", 3}}
	var scs []schk.Scenario
	layouts := allLayouts(r)
	if max := ev.Pick(r, 150, 1500); len(layouts) > max {
		// far more concrete layouts than a 2-value set has on the pinned code (e.g. a counter was
		// added to the structure): the shallowest ones are used, the run is not exhaustive
		layouts = layouts[:max]
		r.MarkCapped()
	}
	r.Set("start_layouts", len(layouts))
	// large sets: n+1 values added and promoted, n-1 of them removed again in the set-up, so that
	// the concurrent phase sees the n-th removal and the re-Add of a removed value in a big map
	// (maintenance work behind a count-of-operations or size threshold)
	for _, n := range []int{15, 16, 63, 64, 255, 256, 1023, 1024, 4095, 4096} {
		var pre []call
		for v := 0; v <= n; v++ {
			pre = append(pre, call{"Add", 10 + v})
		}
		pre = append(pre, call{"Add", 0}, call{"Add", 1}, call{"Len", 0})
		for v := 1; v < n; v++ {
			pre = append(pre, call{"Remove", 10 + v})
		}
		pre = append(pre, call{"Remove", 1})
		lay := layout{name: fmt.Sprintf("big%d:", n), pre: pre}
		for _, pp := range [][][]call{
			{{{"Remove", 0}}, {{"Add", 1}}},
			{{{"Remove", 0}}, {{"Add", 1}, {"Has", 1}}},
			{{{"Remove", 0}, {"Add", 0}}, {{"Add", 1}, {"Remove", 1}}},
			{{{"Remove", 0}}, {{"Add", 1}}, {{"Has", 1}}},
		} {
			scs = append(scs, scenario(lay, pp, ev.Pick(r, 2, 3), -2))
		}
	}
	for n, li := range layouts {
		big := n%ev.Pick(r, 6, 2) == 0 // the larger programs start from a spread-out subset of the layouts
		// 2 threads x 1 call: all pairs, all interleavings
		for i, a := range full {
			for _, b := range full[i:] {
				scs = append(scs, scenario(li, [][]call{{a}, {b}}, -1, ev.Pick(r, 2, 3)))
			}
		}
		if !big {
			continue
		}
		// 3 threads x 1 call
		for i, a := range small {
			for j, b := range small[i:] {
				for _, c := range small[i+j:] {
					scs = append(scs, scenario(li, [][]call{{a}, {b}, {c}}, ev.Pick(r, 2, 3), ev.Pick(r, -2, 1)))
				}
			}
		}
		// 2 threads x 2 calls
		for _, a1 := range small {
			for _, a2 := range small {
				for _, b1 := range small {
					for _, b2 := range small {
						if fmt.Sprint(a1, a2) > fmt.Sprint(b1, b2) {
							continue
						}
						if !r.Thorough() && (a1 == a2 || b1 == b2 || a1.v+a2.v+b1.v+b2.v > 3) {
							continue
						}
						scs = append(scs, scenario(li, [][]call{{a1, a2}, {b1, b2}}, ev.Pick(r, 2, 3), -2))
					}
				}
			}
		}
		// 4 threads x 1 call (thorough)
		if r.Thorough() {
			four := []call{{"Add", 0}, {"Remove", 0}, {"Has", 0}, {"Add", 1}}
			for i, a := range four {
				for j, b := range four[i:] {
					for k, c := range four[i+j:] {
						for _, d := range four[i+j+k:] {
							scs = append(scs, scenario(li, [][]call{{a}, {b}, {c}, {d}}, 1, -2))
						}
					}
				}
			}
		}
	}
	// 3 threads with programs of 1, 1 and 2 calls around value a, from the shallowest layouts: a
	// writer of a, a thread that can trigger a promotion (Len, a missing Has, an Add of b), and a
	// thread making two calls; and (thorough) 3 threads x 2 calls, 1 call against 3 calls
	{
		t1 := []call{{"Add", 0}, {"Remove", 0}}
		t2 := []call{{"Len", 0}, {"Has", 2}, {"Add", 1}}
		t3 := []call{{"Remove", 0}, {"Add", 1}, {"Add", 0}, {"Has", 0}, {"Len", 0}, {"RemoveSet", 3}}
		for n, li := range layouts {
			if n >= ev.Pick(r, 10, 28) {
				break
			}
			for _, a := range t1 {
				for _, b := range t2 {
					for _, c1 := range t3 {
						for _, c2 := range t3 {
							if c1 == c2 && c1.op != "Add" {
								continue
							}
							if !r.Thorough() && !(c1.op == "Remove" || c2.op == "Add" || c1.op == "RemoveSet") {
								continue
							}
							scs = append(scs, scenario(li, [][]call{{a}, {b}, {c1, c2}}, 2, -2))
						}
					}
				}
			}
			if !r.Thorough() {
				continue
			}
			progs := [][]call{{{"Add", 0}, {"Has", 0}}, {{"Remove", 0}, {"Add", 0}}, {{"Add", 0}, {"Remove", 0}}, {{"Add", 1}, {"Len", 0}}, {{"Has", 2}, {"Has", 2}}}
			for i, a := range progs {
				for j, b := range progs[i:] {
					for _, c := range progs[i+j:] {
						scs = append(scs, scenario(li, [][]call{a, b, c}, 2, -2))
					}
				}
			}
			for _, a := range []call{{"Add", 0}, {"Remove", 0}, {"Has", 0}, {"Len", 0}} {
				for _, l := range [][]call{{{"Len", 0}, {"Remove", 0}, {"Add", 1}}, {{"Has", 2}, {"Has", 2}, {"Add", 0}}, {{"Add", 1}, {"Remove", 0}, {"Add", 0}}, {{"Remove", 0}, {"Add", 1}, {"Add", 0}}} {
					scs = append(scs, scenario(li, [][]call{{a}, l}, 3, -2))
				}
			}
		}
	}
	// the set passed to itself (RemoveSet(s) on s empties it, AddSet(s) changes nothing) against single
	// calls and two-call programs of another thread, from every layout
	for _, li := range layouts {
		for _, self := range []call{{"RemoveSelf", 0}, {"AddSelf", 0}, {"RangePanic+Add", 1}} {
			scs = append(scs, scenario(li, [][]call{{self}}, -1, -2))
			for _, b := range []call{{"Add", 0}, {"Remove", 0}, {"Add", 1}, {"Has", 0}, {"Len", 0}} {
				scs = append(scs, scenario(li, [][]call{{self}, {b}}, -1, ev.Pick(r, -2, 1)))
			}
		}
	}
	for i, li := range layouts {
		if i%ev.Pick(r, 6, 2) != 0 {
			continue
		}
		for _, other := range [][]call{{{"Add", 0}, {"Remove", 0}}, {{"Remove", 0}, {"Add", 0}}, {{"Add", 1}, {"Len", 0}}, {{"Remove", 1}, {"Has", 1}}} {
			scs = append(scs, scenario(li, [][]call{{{"RemoveSelf", 0}}, other}, ev.Pick(r, 3, -1), -2))
		}
		scs = append(scs, scenario(li, [][]call{{{"RemoveSelf", 0}}, {{"Add", 0}}, {{"Remove", 0}}}, ev.Pick(r, 2, 3), -2))
	}
	// large operands: AddSet / RemoveSet of 32, 33 (64, 200) values, one or both of the modelled values
	// among them, against a thread that adds / removes a modelled value and forces a promotion (Len)
	{
		pads := []int{32, 33}
		if r.Thorough() {
			pads = append(pads, 31, 64, 200)
		}
		var few []layout
		for i, l := range layouts {
			if i%ev.Pick(r, 12, 4) == 0 {
				few = append(few, l)
			}
		}
		for _, li := range few {
			for _, pad := range pads {
				for _, other := range [][]call{{{"Add", 0}, {"Len", 0}}, {{"Remove", 0}, {"Len", 0}}, {{"Add", 0}}, {{"Len", 0}, {"Add", 0}}, {{"Has", 2}, {"Add", 1}}} {
					b := 2
					if pad > 64 {
						b = 1 // several hundred steps per call: one preemption
					}
					scs = append(scs, scenario(li, [][]call{{{"AddSet", big(1, pad)}}, other}, b, -2))
					scs = append(scs, scenario(li, [][]call{{{"RemoveSet", big(3, pad)}}, other}, b, -2))
				}
				scs = append(scs, scenario(li, [][]call{{{"AddSet", big(3, pad)}}, {{"Add", 1}, {"Len", 0}}, {{"Remove", 0}}}, 1, -2))
			}
		}
	}
	for state := 0; state < 3; state++ {
		for _, op := range []string{"Add", "Has", "Remove"} {
			scs = append(scs, unhashableScenario(state, op))
		}
	}
	schk.WorkerExtra = func() map[string]int64 {
		return map[string]int64{"distinct_histories_judged_by_porcupine": int64(lin.Distinct())}
	}
	schk.Main(r, scs, ev.Pick(r, 45*time.Second, 1200*time.Second), func(r *ev.Run) {
		r.Set("rule", "controlled scheduler over the instrumented sync2 package; programs of Add/Remove/Has/AddSet/RemoveSet/Len over values {a,b} from EVERY reachable concrete layout of a 2-value set (computed by explicit-state search; a spread-out subset for the larger programs): every pair of single calls under ALL interleavings, multisets of three single calls, pairs of two-call programs (and four single calls) under a preemption bound; AddSet/RemoveSet with operands of 32/33 (thorough: 31..200) values against Add/Remove/Len programs of another thread; the set passed to itself (s.RemoveSet(s), s.AddSet(s)) against single calls and two-call programs; oracle: porcupine set model with AddSet/RemoveSet/Len decomposed into per-element pseudo-operations inside the call's interval whose successes must add up to the returned count, final Has/Len/Slice after quiescence, and the derived accounting #successful Adds - #successful Removes = final - initial membership; pair scenarios also under the race detector inside every explored schedule")
		r.Assume("more than 4 goroutines are outside the bound")
	})
}

// ModelKey is the layout-independent state key (see seqmc.ModelKeyer).
func (x *seth) ModelKey() string { return fmt.Sprint(x.m) }
