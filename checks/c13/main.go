// C13: Chunk, Windowed and Pairs partition a slice exactly.
package main

import (
	"fmt"
	"math"
	"reflect"
	"runtime"

	"gopkg.in/typ.v4/slices"
	"verif/lib/enum"
	"verif/lib/ev"
)

func main() {
	ev.GuardFor("C13")
	r := ev.Start("C13")
	defer r.FinishOnPanic()
	e := &enum.E{R: r}
	maxN := ev.Pick(r, 14, 300)
	ns := []int{}
	for n := 0; n <= maxN; n++ {
		ns = append(ns, n)
	}
	ns = append(ns, 31, 32, 33, 63, 64, 65, 100, 127, 128, 129, 257) // large-size family
	type shape struct{ n, spare int }
	var shapes []shape
	for _, n := range ns {
		shapes = append(shapes, shape{n, 0})
		// the same lengths inside a larger backing array (spare capacity holding other values): a
		// slice built with append or re-sliced from a buffer, which is what callers usually pass
		if n <= maxN {
			shapes = append(shapes, shape{n, 1}, shape{n, 3}, shape{n, n + 1})
		} else {
			shapes = append(shapes, shape{n, 5})
		}
	}
	for _, sh := range shapes {
		n := sh.n
		var s []int
		if n > 0 || sh.spare > 0 {
			s = make([]int, n+sh.spare)
			for i := range s {
				s[i] = 100 + i
			}
			for i := n; i < len(s); i++ {
				s[i] = -7 - i
			}
			s = s[:n]
		}
		orig := append([]int{}, s...)
		sizes := []int{}
		if n <= maxN {
			for size := 1; size <= maxN+2; size++ {
				sizes = append(sizes, size)
			}
		} else {
			sizes = []int{1, 2, 3, 7, 8, 15, 16, 17, 31, 32, 33, 64, n/2 - 1, n / 2, n/2 + 1, n - 1, n, n + 1, n + 2, 2 * n}
		}
		// extreme sizes: "no limit" sentinels and values where n+size overflows
		for k := 0; k <= n+3 && k <= 12; k++ {
			sizes = append(sizes, math.MaxInt-k)
		}
		sizes = append(sizes, math.MaxInt/2, math.MaxInt/2+1, math.MaxInt32, math.MaxInt32+1, 1<<16, 1<<40)
		for _, size := range sizes {
			rp := map[string]any{"n": n, "size": size, "spare_capacity": sh.spare}
			e.Input(n%size >= 2 || size > n)
			if n == 5 && size == 3 {
				r.Sample(rp)
			}
			// ---- Chunk
			var chunks [][]int
			e.Call()
			if p, m := enum.Catch(func() { chunks = slices.Chunk(s, size) }); p {
				e.Fail("Chunk|panic", rp, "Chunk(n=%d,size=%d) panicked: %s", n, size, m)
			} else {
				want := n / size
				if n%size != 0 {
					want++
				}
				if len(chunks) != want {
					e.Fail("Chunk|count", rp, "Chunk(n=%d,size=%d) returned %d pieces %v, want %d", n, size, len(chunks), chunks, want)
				} else {
					var cat []int
					for i, c := range chunks {
						wl := size
						if i == want-1 && n%size != 0 {
							wl = n % size
						}
						if len(c) != wl {
							e.Fail("Chunk|piece-length", rp, "Chunk(n=%d,size=%d): piece %d has length %d, want %d (%v)", n, size, i, len(c), wl, chunks)
						}
						cat = append(cat, c...)
					}
					if !eq(cat, orig) {
						e.Fail("Chunk|concatenation", rp, "Chunk(n=%d,size=%d): concatenation %v != input", n, size, cat)
					} else if n <= 40 {
						e.Keep("Chunk", chunks, rp)
					}
				}
			}
			// ---- ChunkFunc: same sequence as Chunk's specification
			var cf [][]int
			e.Call()
			if p, m := enum.Catch(func() { slices.ChunkFunc(s, size, func(c []int) { cf = append(cf, append([]int{}, c...)) }) }); p {
				e.Fail("ChunkFunc|panic", rp, "ChunkFunc(n=%d,size=%d) panicked: %s", n, size, m)
			} else if w := refChunks(orig, size); !same(cf, w) {
				e.Fail("ChunkFunc|sequence", rp, "ChunkFunc(n=%d,size=%d) called with %v, want %v", n, size, cf, w)
			}
			// ---- Windowed / WindowedFunc
			var wins [][]int
			e.Call()
			if p, m := enum.Catch(func() { wins = slices.Windowed(s, size) }); p {
				e.Fail("Windowed|panic", rp, "Windowed(n=%d,size=%d) panicked: %s", n, size, m)
			} else if w := refWindows(orig, size); !same(wins, w) {
				e.Fail("Windowed|sequence", rp, "Windowed(n=%d,size=%d) = %v, want %v", n, size, wins, w)
			} else if n <= 40 {
				e.Keep("Windowed", wins, rp)
			}
			var wf [][]int
			e.Call()
			if p, m := enum.Catch(func() { slices.WindowedFunc(s, size, func(c []int) { wf = append(wf, append([]int{}, c...)) }) }); p {
				e.Fail("WindowedFunc|panic", rp, "WindowedFunc(n=%d,size=%d) panicked: %s", n, size, m)
			} else if w := refWindows(orig, size); !same(wf, w) {
				e.Fail("WindowedFunc|sequence", rp, "WindowedFunc(n=%d,size=%d) called with %v, want %v", n, size, wf, w)
			}
			if !eq(s, orig) {
				e.Fail("input-modified", rp, "input changed: %v", s)
			}
		}
		// ---- Pairs / PairsFunc
		rp := map[string]any{"n": n, "fn": "Pairs", "spare_capacity": sh.spare}
		var want [][2]int
		for i := 0; i+1 < n; i++ {
			want = append(want, [2]int{orig[i], orig[i+1]})
		}
		e.Call()
		got := slices.Pairs(s)
		if len(got) != len(want) || (len(want) > 0 && !reflect.DeepEqual(got, want)) {
			e.Fail("Pairs|sequence", rp, "Pairs(n=%d) = %v, want %v", n, got, want)
		} else if n <= 40 {
			e.Keep("Pairs", got, rp)
		}
		var pf [][2]int
		e.Call()
		slices.PairsFunc(s, func(a, b int) { pf = append(pf, [2]int{a, b}) })
		if len(pf) != len(want) || (len(want) > 0 && !reflect.DeepEqual(pf, want)) {
			e.Fail("PairsFunc|sequence", rp, "PairsFunc(n=%d) called with %v, want %v", n, pf, want)
		}
	}
	// astronomically long slices of zero-size elements (they cost no memory): counts and lengths only,
	// with sizes chosen so that a handful of pieces / windows result
	for _, n := range []int{1<<53 + 1, 1<<53 + 3, 1 << 62, math.MaxInt} {
		s := make([]struct{}, n)
		for _, size := range []int{n, n - 1, n/2 + 1, n / 2, n/3 + 1, 1 << 53, 1<<53 + 2, math.MaxInt} {
			if size < 1 || size < n/4 {
				continue
			}
			rp := map[string]any{"n": n, "size": size, "element": "struct{}"}
			e.Input(true)
			e.Call()
			want := n / size
			if n%size != 0 {
				want++
			}
			var chunks [][]struct{}
			if p, m := enum.Catch(func() { chunks = slices.Chunk(s, size) }); p {
				e.Fail("Chunk|panic", rp, "Chunk(n=%d zero-size elements, size=%d) panicked: %s", n, size, m)
			} else {
				total := 0
				for _, c := range chunks {
					total += len(c)
				}
				if len(chunks) != want || total != n {
					e.Fail("Chunk|count", rp, "Chunk(n=%d zero-size elements, size=%d) returned %d pieces holding %d elements, want %d pieces holding all %d", n, size, len(chunks), total, want, n)
				}
			}
			calls, total := 0, 0
			e.Call()
			if p, m := enum.Catch(func() { slices.ChunkFunc(s, size, func(c []struct{}) { calls++; total += len(c) }) }); p {
				e.Fail("ChunkFunc|panic", rp, "ChunkFunc(n=%d zero-size elements, size=%d) panicked: %s", n, size, m)
			} else if calls != want || total != n {
				e.Fail("ChunkFunc|sequence", rp, "ChunkFunc(n=%d zero-size elements, size=%d) made %d calls over %d elements, want %d calls over %d", n, size, calls, total, want, n)
			}
			if size >= n-3 {
				wantW := 0
				if size <= n {
					wantW = n - size + 1
				}
				e.Call()
				var wins [][]struct{}
				if p, m := enum.Catch(func() { wins = slices.Windowed(s, size) }); p {
					e.Fail("Windowed|panic", rp, "Windowed(n=%d zero-size elements, size=%d) panicked: %s", n, size, m)
				} else if len(wins) != wantW {
					e.Fail("Windowed|sequence", rp, "Windowed(n=%d zero-size elements, size=%d) returned %d windows, want %d", n, size, len(wins), wantW)
				}
			}
		}
	}
	// a callback that panics at its k-th invocation (or leaves through runtime.Goexit), the caller
	// recovers - and the NEXT call of every Func variant must deliver the full sequence again (state kept
	// between calls: a recycled cursor, a scratch buffer)
	{
		base := make([]int, 11)
		for i := range base {
			base[i] = 100 + i
		}
		type fn struct {
			name string
			run  func(s []int, size int, cb func([]int))
			ref  func(s []int, size int) [][]int
		}
		fns := []fn{
			{"ChunkFunc", func(s []int, size int, cb func([]int)) { slices.ChunkFunc(s, size, cb) }, refChunks},
			{"WindowedFunc", func(s []int, size int, cb func([]int)) { slices.WindowedFunc(s, size, cb) }, refWindows},
			{"PairsFunc", func(s []int, _ int, cb func([]int)) { slices.PairsFunc(s, func(a, b int) { cb([]int{a, b}) }) }, func(s []int, _ int) [][]int { return refWindows(s, 2) }},
		}
		for _, bad := range fns {
			for k := 1; k <= 5; k++ {
				for _, goexit := range []bool{false, true} {
					done := make(chan bool)
					go func() { // its own goroutine: Goexit must not end the check
						defer close(done)
						defer func() { recover() }()
						calls := 0
						bad.run(base, 2, func([]int) {
							calls++
							if calls == k {
								if goexit {
									runtime.Goexit()
								}
								panic("callback failed")
							}
						})
					}()
					<-done
					for _, good := range fns {
						for _, size := range []int{2, 3} {
							e.Input(true)
							e.Call()
							var got [][]int
							good.run(base, size, func(c []int) { got = append(got, append([]int{}, c...)) })
							if w := good.ref(base, size); !same(got, w) {
								e.Fail(good.name+"|after-panic", map[string]any{"failed_call": bad.name, "at_invocation": k, "goexit": goexit, "next_call": good.name, "size": size},
									"after %s's callback failed at its invocation %d (goexit=%v, recovered by the caller), %s(n=11,size=%d) called back with %v, want %v", bad.name, k, goexit, good.name, size, got, w)
							}
						}
					}
				}
			}
		}
	}
	e.Finish(fmt.Sprintf("every slice length n in 0..%d x every size in 1..%d, position-tagged elements, each length with 0, 1, 3 and n+1 elements of spare capacity behind it; partition laws for Chunk/ChunkFunc/Windowed/WindowedFunc/Pairs/PairsFunc; non-trivial = remainder >= 2 or size > n", maxN, maxN+2))
}

func refChunks(s []int, size int) [][]int {
	var out [][]int
	for i := 0; i < len(s); {
		j := len(s)
		if size < len(s)-i { // written so that i+size cannot overflow
			j = i + size
		}
		out = append(out, append([]int{}, s[i:j]...))
		i = j
	}
	return out
}

func refWindows(s []int, size int) [][]int {
	var out [][]int
	for i := 0; size <= len(s)-i; i++ {
		out = append(out, append([]int{}, s[i:i+size]...))
	}
	return out
}

func same(a, b [][]int) bool {
	if len(a) != len(b) {
		return false
	}
	for i := range a {
		if !eq(a[i], b[i]) {
			return false
		}
	}
	return true
}

func eq(a, b []int) bool {
	if len(a) != len(b) {
		return false
	}
	for i := range a {
		if a[i] != b[i] {
			return false
		}
	}
	return true
}
