// C18: AtomicValue is an atomic register; Pool never hands one item to two users.
package main

import (
	"errors"
	"fmt"
	"math"
	"sort"
	"sync"
	"sync/atomic"
	"time"
	"unsafe"

	"gopkg.in/typ.v4/sync2"
	"verif/lib/ev"
	"verif/lib/lin"
	"verif/lib/schk"
	"verif/lib/spell"
	"verif/vrt"
)

// ---------------------------------------------------------------- AtomicValue

type call struct {
	op   string // Load Store Swap CAS
	a, b int    // Store/Swap: a = value; CAS: a = old, b = new
}

func (c call) String() string { return fmt.Sprintf("%s(%d,%d)", c.op, c.a, c.b) }

// areg is an AtomicValue[T] seen through small integers: value k stands for vals[k] (0 = the zero
// value of T), so that one register model serves every element type. What comes back is mapped to
// its index by ==; a value that is none of vals maps to -99.
type areg interface {
	Load() int
	Store(int)
	Swap(int) int
	CompareAndSwap(old, new int) bool
}

type treg[T comparable] struct {
	v    sync2.AtomicValue[T]
	vals []T
}

func (r *treg[T]) idx(v T) int {
	for i, x := range r.vals {
		if x == v {
			return i
		}
	}
	return -99
}
func (r *treg[T]) Load() int                    { return r.idx(r.v.Load()) }
func (r *treg[T]) Store(k int)                  { r.v.Store(r.vals[k]) }
func (r *treg[T]) Swap(k int) int               { return r.idx(r.v.Swap(r.vals[k])) }
func (r *treg[T]) CompareAndSwap(o, n int) bool { return r.v.CompareAndSwap(r.vals[o], r.vals[n]) }

// regTypes: constructors of registers over several element types. In every universe vals[1] and
// vals[2] are DIFFERENT under == but as alike as the type allows (distinct pointers to equal
// things, equal text in different errors), and vals[3..] repeat vals[0..2] as values that are EQUAL
// under == but built separately (a string assembled at run time, a struct copy): CAS must treat
// them like the originals.
var regTypes = []struct {
	name string
	mk   func() areg
}{
	{"int", func() areg { return &treg[int]{vals: []int{0, 1, 2}} }},
	{"*int", func() areg { a, b := 7, 7; return &treg[*int]{vals: []*int{nil, &a, &b}} }},
	{"string", func() areg {
		x := []byte("ab")
		return &treg[string]{vals: []string{"", string(x), string(x) + "c"}}
	}},
	{"struct{*int,string}", func() areg {
		type st struct {
			P *int
			S string
		}
		a, b := 7, 7
		return &treg[st]{vals: []st{{}, {&a, "s"}, {&b, "s"}}}
	}},
	{"error", func() areg {
		return &treg[error]{vals: []error{nil, errors.New("e"), errors.New("e")}}
	}},
	{"[2]int", func() areg { return &treg[[2]int]{vals: [][2]int{{}, {0, 1}, {1, 0}}} }},
	{"float64", func() areg { return &treg[float64]{vals: []float64{0, 1, math.Inf(1)}} }},
	{"struct whose Equal method says yes to everything", func() areg { return &treg[spell.Liar]{vals: []spell.Liar{{0}, {1}, {2}}} }},
}

type arec struct {
	v   areg
	ops [][]lin.Op
}

func (r *arec) do(th int, c call) {
	o := lin.Op{Kind: c.op, Thread: th}
	vrt.Begin()
	switch c.op {
	case "Load":
		o.Val = r.v.Load()
	case "Store":
		r.v.Store(c.a)
		o.Arg = c.a
	case "Swap":
		o.Val = r.v.Swap(c.a)
		o.Arg = c.a
	case "CAS":
		o.Ok = r.v.CompareAndSwap(c.a, c.b)
		o.Key, o.Arg = c.a, c.b
	}
	o.Inv, o.Ret = vrt.End()
	r.ops[th] = append(r.ops[th], o)
}

func atomScenario(init int, prog [][]call, bound int) schk.Scenario {
	return atomScenarioT(0, init, prog, bound)
}

func atomScenarioT(ty int, init int, prog [][]call, bound int) schk.Scenario {
	name := fmt.Sprintf("AtomicValue[%s]/init%d|", regTypes[ty].name, init)
	for i, p := range prog {
		if i > 0 {
			name += " || "
		}
		name += fmt.Sprint(p)
	}
	return schk.Scenario{
		Name: name, Bound: bound, RaceBound: 2,
		Body: func(s *vrt.Sched) any {
			r := &arec{v: regTypes[ty].mk(), ops: make([][]lin.Op, len(prog))}
			if init >= 0 {
				r.v.Store(init)
			}
			for t := range prog {
				t := t
				s.Spawn(fmt.Sprint("T", t), func() {
					for _, c := range prog[t] {
						r.do(t, c)
					}
				})
			}
			return r
		},
		Check: func(x *vrt.Exec, obs any) (*schk.Fail, string) {
			r := obs.(*arec)
			if x.Panic != "" || x.Deadlock {
				return nil, "abnormal"
			}
			var all []lin.Op
			last := 0
			for _, t := range r.ops {
				for _, o := range t {
					all = append(all, o)
					if o.Ret > last {
						last = o.Ret
					}
				}
			}
			all = append(all, lin.Op{Kind: "Load", Val: r.v.Load(), Thread: 50, Inv: last + 10, Ret: last + 11})
			ok, desc := lin.CheckRegister(init, all)
			if !ok {
				return schk.Failf("not-atomic-register", "history is not linearizable to a register (initial %d, -1 = empty): %s", init, desc), ""
			}
			return nil, desc
		},
	}
}

// ---------------------------------------------------------------- Pool

type tok struct {
	id    int
	held  int
	stale bool // minted by a New function that has since been replaced
}

type prec struct {
	p        *sync2.Pool[*tok]
	minted   [8]int // per thread: a shared counter would be communication between threads the explorer cannot see
	newCalls [8]int
	viol     *schk.Fail
	log      []string
}

// mint is the pool's New: fresh tokens numbered per calling thread.
//
//go:norace
func (r *prec) mint() *tok {
	me := vrt.Self()
	if me < 0 || me > 6 {
		me = 7
	}
	r.newCalls[me]++
	return &tok{id: 1000*(me+1) + r.newCalls[me]}
}

//go:norace
func (r *prec) fail(sig, format string, a ...any) {
	if r.viol == nil {
		r.viol = schk.Failf(sig, format, a...)
	}
}

// run executes a thread's program: G = Get, P = Put the most recently obtained item,
// N = Put a brand-new item, Y = a scheduling point while holding.
//
//go:norace
func (r *prec) run(th int, prog string, withNew bool) {
	var mine []*tok
	for _, c := range prog {
		switch c {
		case 'G':
			t := r.p.Get()
			if t == nil {
				if withNew {
					r.fail("pool-nil", "Get returned nil although New is set")
				}
				r.log[th] += "nil "
				continue
			}
			if t.stale {
				r.fail("stale-new", "thread %d: Get returned a product of a New function that was replaced before (never Put into the pool)", th)
			}
			if t.held != 0 {
				r.fail("handed-out-twice", "thread %d got token %d from Get while another Get caller still holds it", th, t.id)
			}
			t.held++
			mine = append(mine, t)
			r.log[th] += fmt.Sprint(t.id, " ")
		case 'P':
			if len(mine) == 0 {
				continue
			}
			t := mine[len(mine)-1]
			mine = mine[:len(mine)-1]
			t.held--
			r.p.Put(t)
		case 'N':
			r.minted[th]++
			r.p.Put(&tok{id: 100 + 10*th + r.minted[th]})
		case 'Y':
			vrt.Yield("h.holding", unsafe.Pointer(r), false)
		}
	}
}

func poolScenario(withNew bool, progs []string, bound int) schk.Scenario {
	return crowdedPool(withNew, 0, progs, bound, 2)
}

// crowdedPool: like poolScenario, but `idle` items have been Put before the threads start (an
// implementation that keeps its own free list behaves differently above some size).
func crowdedPool(withNew bool, idle int, progs []string, bound, raceBound int) schk.Scenario {
	return poolScenarioX(withNew, idle, false, progs, bound, raceBound)
}

// poolScenarioX; switched: before the threads start the pool had ANOTHER New function, one Get was made
// with it, and New was then replaced (by the scenario's New, or by nil). New is read when Get needs it: no
// later Get may return a product of the replaced function.
func poolScenarioX(withNew bool, idle int, switched bool, progs []string, bound, raceBound int) schk.Scenario {
	name := fmt.Sprintf("Pool/new=%v|%v", withNew, progs)
	if switched {
		name = fmt.Sprintf("Pool/new=%v after another New was replaced|%v", withNew, progs)
	}
	if idle > 0 {
		name = fmt.Sprintf("Pool/new=%v/%d-idle-items|%v", withNew, idle, progs)
	}
	return schk.Scenario{
		Name: name, Bound: bound, RaceBound: raceBound, MaxSteps: 20000 + 200*idle,
		Body: func(s *vrt.Sched) any {
			r := &prec{p: new(sync2.Pool[*tok]), log: make([]string, len(progs))}
			if switched {
				r.p.New = func() *tok { return &tok{id: 9000, stale: true} }
				if t := r.p.Get(); t == nil || !t.stale {
					r.fail("pool-new", "the first Get on an empty pool with New set did not return New's result")
				}
				r.p.New = nil
			}
			if withNew {
				r.p.New = r.mint
			}
			for i := 0; i < idle; i++ {
				r.p.Put(&tok{id: 100000 + i})
			}
			for t := range progs {
				t := t
				s.Spawn(fmt.Sprint("T", t), func() { r.run(t, progs[t], withNew) })
			}
			return r
		},
		Check: func(x *vrt.Exec, obs any) (*schk.Fail, string) {
			r := obs.(*prec)
			if r.viol != nil {
				return r.viol, ""
			}
			return nil, fmt.Sprint(r.log)
		},
	}
}

// uncomparableCAS: an AtomicValue[any] holding a slice; CompareAndSwap with an `old` of the same
// uncomparable dynamic type panics inside the comparison (sync/atomic.Value does) and the caller recovers.
// Whatever the call did before it panicked, the value must stay usable: later Load/Store/Swap/CAS of
// both threads return (nothing left locked), and Load never returns something that was not stored.
func uncomparableCAS() schk.Scenario {
	type urec struct {
		v        sync2.AtomicValue[any]
		panicked atomic.Bool
		loads    []string
		done     [2]bool
	}
	return schk.Scenario{
		Name: "AtomicValue[any]/CompareAndSwap on uncomparable values panics, is recovered, and the value is used again", Bound: -1, RaceBound: 1,
		Body: func(s *vrt.Sched) any {
			r := &urec{}
			r.v.Store([]int{1})
			var mu sync.Mutex // harness-level: the log
			log := func(x any) { mu.Lock(); r.loads = append(r.loads, fmt.Sprint(x)); mu.Unlock() }
			// (sync/atomic.Value wants one dynamic type for ever: every value is a []int)
			cas := func(old, new []int) {
				defer func() {
					if recover() != nil {
						r.panicked.Store(true)
					}
				}()
				r.v.CompareAndSwap(old, new)
			}
			s.Spawn("T0", func() {
				cas([]int{1}, []int{7})
				log(r.v.Load())
				r.v.Store([]int{5})
				log(r.v.Load())
				r.done[0] = true
			})
			s.Spawn("T1", func() {
				log(r.v.Load())
				log(r.v.Swap([]int{2}))
				cas([]int{2}, []int{3})
				log(r.v.Load())
				r.done[1] = true
			})
			return r
		},
		Check: func(x *vrt.Exec, obs any) (*schk.Fail, string) {
			r := obs.(*urec)
			if x.Deadlock || !r.done[0] || !r.done[1] {
				return schk.Failf("blocked-after-recovered-panic", "after a CompareAndSwap whose comparison panicked (recovered by the caller: %v) the threads did not finish (%v): %v", r.panicked.Load(), r.done, x.Blocked), ""
			}
			for _, l := range r.loads {
				switch l {
				case "[1]", "[2]", "[3]", "[5]", "[7]":
				default:
					return schk.Failf("invented-value", "Load/Swap returned %q, which was never stored", l), ""
				}
			}
			sort.Strings(r.loads)
			return nil, fmt.Sprint(r.panicked.Load(), r.loads)
		},
	}
}

// isolation: two AtomicValues and two Pools used by two threads, one object each. Whatever one
// thread does to its own objects must not show in the other's (state shared between instances).
func isolationScenario() schk.Scenario {
	type irec struct {
		a, b   sync2.AtomicValue[int]
		pa, pb sync2.Pool[*tok]
		la, lb []int
		gotB   *tok
		backA  *tok
	}
	ta := &tok{id: 1}
	return schk.Scenario{
		Name: "isolation/two AtomicValues and two Pools", Bound: -1, RaceBound: 1,
		Body: func(s *vrt.Sched) any {
			r := &irec{}
			s.Spawn("A", func() {
				r.a.Store(1)
				r.la = append(r.la, r.a.Load())
				r.pa.Put(ta)
				r.la = append(r.la, r.a.Swap(3))
				r.backA = r.pa.Get()
			})
			s.Spawn("B", func() {
				r.lb = append(r.lb, r.b.Load())
				r.gotB = r.pb.Get()
				r.b.Store(2)
				if r.b.CompareAndSwap(2, 5) {
					r.lb = append(r.lb, 1)
				} else {
					r.lb = append(r.lb, 0)
				}
				r.lb = append(r.lb, r.b.Load())
			})
			return r
		},
		Check: func(x *vrt.Exec, obs any) (*schk.Fail, string) {
			r := obs.(*irec)
			if x.Panic != "" || x.Deadlock {
				return nil, "abnormal"
			}
			if fmt.Sprint(r.la) != "[1 1]" || r.a.Load() != 3 {
				return schk.Failf("instance-isolation", "thread A alone uses register a: Store(1) Load Swap(3) read %v, finally %d; want [1 1], 3", r.la, r.a.Load()), ""
			}
			if fmt.Sprint(r.lb) != "[0 1 5]" {
				return schk.Failf("instance-isolation", "thread B alone uses register b: Load, Store(2), CompareAndSwap(2,5), Load read %v; want [0 1 5]", r.lb), ""
			}
			if r.gotB != nil {
				return schk.Failf("instance-isolation", "Get on pool b (nothing was ever Put there, New is nil) returned token %d, which was Put into pool a", r.gotB.id), ""
			}
			if r.backA != nil && r.backA != ta {
				return schk.Failf("instance-isolation", "Get on pool a returned a token that was never Put there"), ""
			}
			return nil, fmt.Sprint(r.backA != nil)
		},
	}
}

// ifacePoolScenario: Pool[error] / Pool[any] - an interface element type. New may return the NIL
// interface (a fresh result like any other), nil may be Put; Get must hand back New's result or a
// value that was Put, and must not panic.
func ifacePoolScenario(newReturnsNil bool) schk.Scenario {
	type prec2 struct {
		got  []any
		done [2]bool
	}
	return schk.Scenario{
		Name: fmt.Sprintf("Pool[any]/New-returns-nil-interface=%v|[G P(nil) G] || [P(7) G]", newReturnsNil), Bound: -1, RaceBound: 1,
		Body: func(s *vrt.Sched) any {
			r := &prec2{}
			p := new(sync2.Pool[any])
			if newReturnsNil {
				p.New = func() any { return nil }
			} else {
				p.New = func() any { return "fresh" }
			}
			var mu sync.Mutex // harness-level: the results list
			rec := func(v any) { mu.Lock(); r.got = append(r.got, v); mu.Unlock() }
			s.Spawn("T0", func() { rec(p.Get()); p.Put(nil); rec(p.Get()); r.done[0] = true })
			s.Spawn("T1", func() { p.Put(7); rec(p.Get()); r.done[1] = true })
			return r
		},
		Check: func(x *vrt.Exec, obs any) (*schk.Fail, string) {
			r := obs.(*prec2)
			if x.Deadlock {
				return nil, "abnormal"
			}
			if x.Panic != "" {
				return schk.Failf("panic-on-nil-interface", "Get/Put on a pool of an interface type panicked: %s", x.Panic), ""
			}
			sevens := 0
			for _, v := range r.got {
				switch v {
				case 7:
					sevens++
				case nil:
					if !newReturnsNil {
						// nil was Put as well: allowed to come back
					}
				case "fresh":
					if newReturnsNil {
						return schk.Failf("pool-invented", "Get returned %v, which is neither a Put value nor New's result", v), ""
					}
				default:
					return schk.Failf("pool-invented", "Get returned %v, which is neither a Put value nor New's result", v), ""
				}
			}
			if sevens > 1 || len(r.got) != 3 {
				return schk.Failf("handed-out-twice", "three Gets returned %v: the value 7 was Put once", r.got), ""
			}
			return nil, fmt.Sprint(r.got)
		},
	}
}

func main() {
	r := ev.Start("C18")
	alpha := []call{{"Load", 0, 0}, {"Store", 1, 0}, {"Store", 2, 0}, {"Swap", 1, 0}, {"Swap", 2, 0}, {"CAS", 0, 1}, {"CAS", 1, 2}, {"CAS", 2, 1}}
	var progs2 [][]call
	for _, a := range alpha {
		progs2 = append(progs2, []call{a})
		for _, b := range alpha {
			progs2 = append(progs2, []call{a, b})
		}
	}
	var scs []schk.Scenario
	for _, init := range []int{-1, 1} {
		for i, a := range progs2 {
			for _, b := range progs2[i:] {
				scs = append(scs, atomScenario(init, [][]call{a, b}, -1))
			}
		}
		for i, a := range alpha {
			for j, b := range alpha[i:] {
				for _, c := range alpha[i+j:] {
					scs = append(scs, atomScenario(init, [][]call{{a}, {b}, {c}}, -1))
					if r.Thorough() {
						scs = append(scs, atomScenario(init, [][]call{{a, alpha[0]}, {b, alpha[5]}, {c, alpha[3]}}, -1))
						// (2,1,1) programs: every second call for the first thread; 4 threads of single calls
						for _, d := range alpha {
							scs = append(scs, atomScenario(init, [][]call{{a, d}, {b}, {c}}, -1))
						}
						for _, d := range alpha[i+j:] {
							scs = append(scs, atomScenario(init, [][]call{{a}, {b}, {c}, {d}}, 3))
						}
					}
				}
			}
		}
	}
	// the zero value as a STORED value: after Store(0) the register is no longer empty (CAS(0->1) must
	// succeed exactly when the current value is 0), Swap(0) hands back what it replaced
	{
		alpha0 := []call{{"Load", 0, 0}, {"Store", 0, 0}, {"Swap", 0, 0}, {"CAS", 0, 1}, {"Store", 1, 0}, {"CAS", 1, 0}}
		var progs0 [][]call
		for _, a := range alpha0 {
			progs0 = append(progs0, []call{a})
			for _, b := range alpha0 {
				progs0 = append(progs0, []call{a, b})
			}
		}
		for _, init := range []int{-1, 0, 1} {
			for i, a := range progs0 {
				for _, b := range progs0[i:] {
					scs = append(scs, atomScenario(init, [][]call{a, b}, -1))
				}
			}
		}
	}
	// other element types: every single-thread program of 2 calls and every pair of single calls
	for ty := 1; ty < len(regTypes); ty++ {
		for _, init := range []int{-1, 1} {
			for i, a := range alpha {
				for _, b := range alpha {
					scs = append(scs, atomScenarioT(ty, init, [][]call{{a, b}}, -1))
				}
				for _, b := range alpha[i:] {
					scs = append(scs, atomScenarioT(ty, init, [][]call{{a}, {b}}, -1))
				}
			}
		}
	}
	pp := []string{"GP", "GYP", "GGPP", "NGP", "GPGP", "NG", "G"}
	for _, withNew := range []bool{true, false} {
		for i, a := range pp {
			for _, b := range pp[i:] {
				scs = append(scs, poolScenario(withNew, []string{a, b}, -1))
			}
		}
		for _, tri := range [][]string{{"GYP", "GYP", "GYP"}, {"NG", "GP", "GP"}, {"GGPP", "GP", "NGP"}, {"GPGP", "GYP", "G"}} {
			scs = append(scs, poolScenario(withNew, tri, ev.Pick(r, 3, -1)))
		}
		if r.Thorough() {
			small := []string{"GP", "GYP", "NG", "G", "NGP", "GG"}
			for i, a := range small {
				for j, b := range small[i:] {
					for _, c := range small[i+j:] {
						scs = append(scs, poolScenario(withNew, []string{a, b, c}, -1))
					}
				}
			}
			scs = append(scs, poolScenario(withNew, []string{"GP", "GP", "GP", "GP"}, 3), poolScenario(withNew, []string{"NG", "GP", "G", "GYP"}, 3))
		}
	}
	for _, withNew := range []bool{true, false} {
		for _, pp := range [][]string{{"G"}, {"GP", "G"}, {"GG", "GP"}, {"NG", "G"}, {"GPG"}} {
			scs = append(scs, poolScenarioX(withNew, 0, true, pp, -1, 1))
		}
	}
	for _, idle := range []int{15, 16, 63, 64, 255, 256, 1023, 1024, 4095, 4096} {
		for _, pp := range [][]string{{"N", "N"}, {"NG", "N"}, {"GP", "NN"}} {
			scs = append(scs, crowdedPool(true, idle, pp, ev.Pick(r, 1, 2), 1))
		}
	}
	scs = append(scs, isolationScenario(), ifacePoolScenario(true), ifacePoolScenario(false), uncomparableCAS())
	schk.WorkerExtra = func() map[string]int64 {
		return map[string]int64{"distinct_histories_judged_by_porcupine": int64(lin.Distinct())}
	}
	schk.Main(r, scs, ev.Pick(r, 45*time.Second, 900*time.Second), func(r *ev.Run) {
		r.Set("rule", "controlled scheduler over the instrumented sync2 package. AtomicValue[int] (and, for every 2-call program and every pair of single calls, AtomicValue over *int, string, struct, error, [2]int, float64 with universes of values that differ under == but are deep-equal): from the empty and from a pre-stored register, every pair of programs of 1-2 calls and every triple of single calls (thorough: also (2,1,1)-call triples and 4 threads of single calls under 3 preemptions) from Load, Store(1|2), Swap(1|2), CompareAndSwap(0->1|1->2|2->1) under ALL interleavings; oracle: porcupine register model (empty reads as zero, Swap returns the replaced value, CAS after the first store succeeds iff current == old, CAS on the empty register unconstrained). Pool[*token]: with and without New (New mints numbered tokens), 2-3 threads of Get/Put programs, pool hit / miss / which pooled item are enumerated environment answers; oracle: a token returned by Get is not held by another Get caller; the race detector runs inside every explored schedule of the race build (this is what decides 'free of data races')")
		r.Assume("the real sync.Pool's per-P caches and GC clearing are over-approximated by a multiset with nondeterministic hit/miss")
	})
}
