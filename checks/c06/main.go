// C06: lists.List and lists.Ring behave exactly like container/list and container/ring.
package main

import (
	clist "container/list"
	cring "container/ring"
	"fmt"
	"math"
	"time"

	"gopkg.in/typ.v4/lists"
	"verif/lib/enum"
	"verif/lib/ev"
	"verif/lib/fp"
	"verif/lib/seqmc"
)

// ===================================================================== lists

type lh struct {
	H    int // handle table size
	L    [2]*lists.List[int]
	R    [2]*clist.List
	he   []*lists.Element[int] // handle table (real)
	hr   []*clist.Element      // handle table (reference)
	free []bool
	// zombie: the element was in a list when Init was called on it. It still points into the old
	// chain (and, in container/list, still claims to belong to the list); only its observers are
	// compared from then on, because mutating calls with such a handle corrupt container/list itself
	zombie []bool
	// stale: the second search. Zombies stay in the table and ARE passed to every mutating call
	// (container/list lets Remove/Move*/Insert* through for them: Len goes negative, the old chain is
	// relinked); the fork must evolve exactly like container/list in these ill-formed states too.
	// States whose reference Len leaves [-2, H] are pruned, a call that panics is pruned.
	stale bool
}

func newLH(h int) *lh {
	x := &lh{H: h}
	x.L[0] = new(lists.List[int]) // zero value
	x.R[0] = new(clist.List)
	x.L[1] = lists.New[int]()
	x.R[1] = clist.New()
	x.he = make([]*lists.Element[int], h)
	x.hr = make([]*clist.Element, h)
	x.zombie = make([]bool, h)
	x.free = make([]bool, h)
	for i := range x.free {
		x.free[i] = true
	}
	return x
}

func (x *lh) room() int {
	n := 0
	for _, f := range x.free {
		if f {
			n++
		}
	}
	return n
}

func (x *lh) slot() int {
	for i, f := range x.free {
		if f {
			return i
		}
	}
	return -1
}

// idE / idR name an element: handle index, "nil", or "?" for an element outside the table
// (e.g. a root sentinel leaked after Init).
func (x *lh) idE(e *lists.Element[int]) string {
	if e == nil {
		return "nil"
	}
	for i, h := range x.he {
		if !x.free[i] && h == e {
			return fmt.Sprint("h", i)
		}
	}
	return "?"
}
func (x *lh) idR(e *clist.Element) string {
	if e == nil {
		return "nil"
	}
	for i, h := range x.hr {
		if !x.free[i] && h == e {
			return fmt.Sprint("h", i)
		}
	}
	return "?"
}

const travCap = 40

// elemStr prints an element of a traversal; an element outside the handle table can only
// be a leaked root sentinel, whose Value is not comparable across the two libraries
// (zero T versus nil interface).
func elemStr(id string, v any) string {
	if id == "?" {
		return "?"
	}
	if v == nil {
		v = 0 // a copy of a leaked root sentinel's Value (stale search): nil interface there, zero T here
	}
	return fmt.Sprintf("%s=%v", id, v)
}

func (x *lh) travE(l *lists.List[int]) (fwd, bwd []string) {
	n := 0
	for e := l.Front(); e != nil && n < travCap; e, n = e.Next(), n+1 {
		fwd = append(fwd, elemStr(x.idE(e), e.Value))
	}
	n = 0
	for e := l.Back(); e != nil && n < travCap; e, n = e.Prev(), n+1 {
		bwd = append(bwd, elemStr(x.idE(e), e.Value))
	}
	return
}
func (x *lh) travR(l *clist.List) (fwd, bwd []string) {
	n := 0
	for e := l.Front(); e != nil && n < travCap; e, n = e.Next(), n+1 {
		fwd = append(fwd, elemStr(x.idR(e), e.Value))
	}
	n = 0
	for e := l.Back(); e != nil && n < travCap; e, n = e.Prev(), n+1 {
		bwd = append(bwd, elemStr(x.idR(e), e.Value))
	}
	return
}

func (x *lh) inAnyList(i int) bool {
	for l := 0; l < 2; l++ {
		n := 0
		for e := x.R[l].Front(); e != nil && n < travCap; e, n = e.Next(), n+1 {
			if e == x.hr[i] {
				return true
			}
		}
	}
	return false
}

func (x *lh) Ops() []seqmc.Op {
	var ops []seqmc.Op
	room := x.room()
	var live []int
	for i := range x.he {
		if !x.free[i] && (!x.zombie[i] || x.stale) {
			live = append(live, i)
		}
	}
	for l := 0; l < 2; l++ {
		if room > 0 {
			ops = append(ops, seqmc.Op{Name: "PushFront", A: l}, seqmc.Op{Name: "PushBack", A: l})
			for _, i := range live {
				ops = append(ops, seqmc.Op{Name: "InsertBefore", A: l, B: i}, seqmc.Op{Name: "InsertAfter", A: l, B: i})
			}
		}
		for _, i := range live {
			ops = append(ops, seqmc.Op{Name: "Remove", A: l, B: i}, seqmc.Op{Name: "MoveToFront", A: l, B: i}, seqmc.Op{Name: "MoveToBack", A: l, B: i})
			for _, j := range live {
				ops = append(ops, seqmc.Op{Name: "MoveBefore", A: l, B: i, C: j}, seqmc.Op{Name: "MoveAfter", A: l, B: i, C: j})
			}
		}
		for o := 0; o < 2; o++ {
			if n := x.R[o].Len(); n >= 0 && n <= room {
				ops = append(ops, seqmc.Op{Name: "PushBackList", A: l, B: o}, seqmc.Op{Name: "PushFrontList", A: l, B: o})
			}
		}
		ops = append(ops, seqmc.Op{Name: "Init", A: l})
	}
	for i := range x.he {
		if !x.free[i] && !x.inAnyList(i) {
			ops = append(ops, seqmc.Op{Name: "Forget", A: i})
		}
	}
	return ops
}

func (x *lh) Apply(op seqmc.Op) (fl *seqmc.Fail) {
	if !x.stale {
		return x.apply(op)
	}
	defer func() {
		if recover() != nil {
			fl = seqmc.Prune
		}
	}()
	if fl := x.apply(op); fl != nil {
		return fl
	}
	for _, r := range x.R {
		if r.Len() < -2 || r.Len() > x.H {
			return seqmc.Prune
		}
	}
	return nil
}

func (x *lh) apply(op seqmc.Op) *seqmc.Fail {
	// zombies are observed in the state right after the Init that orphaned them, then dropped
	for i := range x.zombie {
		if x.zombie[i] && !x.stale {
			x.he[i], x.hr[i], x.free[i], x.zombie[i] = nil, nil, true, false
		}
	}
	if op.Name == "Forget" && x.free[op.A] {
		return nil
	}
	l, r := x.L[op.A%2], x.R[op.A%2]
	reg := func(e *lists.Element[int], re *clist.Element, what string) *seqmc.Fail {
		if (e == nil) != (re == nil) {
			return seqmc.Failf(op.Name+":result", "%s returned %v, container/list returned %v", what, x.idE(e), x.idR(re))
		}
		if e != nil {
			s := x.slot()
			x.he[s], x.hr[s], x.free[s] = e, re, false
		}
		return nil
	}
	switch op.Name {
	case "PushFront":
		v := x.slot()
		return reg(l.PushFront(v), r.PushFront(v), "PushFront")
	case "PushBack":
		v := x.slot()
		return reg(l.PushBack(v), r.PushBack(v), "PushBack")
	case "InsertBefore":
		v := x.slot()
		return reg(l.InsertBefore(v, x.he[op.B]), r.InsertBefore(v, x.hr[op.B]), "InsertBefore")
	case "InsertAfter":
		v := x.slot()
		return reg(l.InsertAfter(v, x.he[op.B]), r.InsertAfter(v, x.hr[op.B]), "InsertAfter")
	case "Remove":
		a, b := l.Remove(x.he[op.B]), r.Remove(x.hr[op.B])
		if bv, _ := b.(int); a != bv {
			return seqmc.Failf("Remove:result", "Remove returned %v, container/list %v", a, b)
		}
	case "MoveToFront":
		l.MoveToFront(x.he[op.B])
		r.MoveToFront(x.hr[op.B])
	case "MoveToBack":
		l.MoveToBack(x.he[op.B])
		r.MoveToBack(x.hr[op.B])
	case "MoveBefore":
		l.MoveBefore(x.he[op.B], x.he[op.C])
		r.MoveBefore(x.hr[op.B], x.hr[op.C])
	case "MoveAfter":
		l.MoveAfter(x.he[op.B], x.he[op.C])
		r.MoveAfter(x.hr[op.B], x.hr[op.C])
	case "PushBackList", "PushFrontList":
		before := map[*clist.Element]bool{}
		for e, n := r.Front(), 0; e != nil && n < travCap; e, n = e.Next(), n+1 {
			before[e] = true
		}
		// (in the ill-formed states of the stale search container/list itself can panic half-way through
		// the copy; the fork must panic too, and be left in the same state)
		back := op.Name == "PushBackList"
		pa, _ := enum.Catch(func() {
			if back {
				l.PushBackList(x.L[op.B])
			} else {
				l.PushFrontList(x.L[op.B])
			}
		})
		pb, _ := enum.Catch(func() {
			if back {
				r.PushBackList(x.R[op.B])
			} else {
				r.PushFrontList(x.R[op.B])
			}
		})
		if pa != pb {
			return seqmc.Failf(op.Name+":panic", "%s panicked: %v, container/list panicked: %v", op.Name, pa, pb)
		}
		// register handles for the copies, walking both lists in lock-step
		e, re := l.Front(), r.Front()
		for n := 0; re != nil && n < travCap; n++ {
			if e == nil {
				return seqmc.Failf(op.Name+":length", "%s: list shorter than container/list's", op.Name)
			}
			if !before[re] && x.idR(re) == "?" {
				if s := x.slot(); s >= 0 {
					x.he[s], x.hr[s], x.free[s] = e, re, false
				}
			}
			e, re = e.Next(), re.Next()
		}
	case "Init":
		// elements orphaned by Init become zombies: their observers (Next, Prev, Value) are still
		// compared with container/list, but they are not passed to mutating calls any more
		for e, n := r.Front(), 0; e != nil && n < travCap; e, n = e.Next(), n+1 {
			for i := range x.hr {
				if !x.free[i] && x.hr[i] == e {
					x.zombie[i] = true
				}
			}
		}
		if l.Init() != l {
			return seqmc.Failf("Init:result", "Init did not return its receiver")
		}
		r.Init()
	case "Forget":
		x.he[op.A], x.hr[op.A], x.free[op.A], x.zombie[op.A] = nil, nil, true, false
	}
	return nil
}

func (x *lh) Key() string { return fp.Of(x.L[0], x.L[1], &x.he, &x.zombie) }

func (x *lh) Observe() *seqmc.Fail {
	for l := 0; l < 2; l++ {
		if a, b := x.L[l].Len(), x.R[l].Len(); a != b {
			return seqmc.Failf("Len", "list %d: Len = %d, container/list %d", l, a, b)
		}
		if a, b := x.idE(x.L[l].Front()), x.idR(x.R[l].Front()); a != b {
			return seqmc.Failf("Front", "list %d: Front = %s, container/list %s", l, a, b)
		}
		if a, b := x.idE(x.L[l].Back()), x.idR(x.R[l].Back()); a != b {
			return seqmc.Failf("Back", "list %d: Back = %s, container/list %s", l, a, b)
		}
		f1, b1 := x.travE(x.L[l])
		f2, b2 := x.travR(x.R[l])
		if fmt.Sprint(f1) != fmt.Sprint(f2) {
			return seqmc.Failf("traversal:forward", "list %d: forward %v, container/list %v", l, f1, f2)
		}
		if fmt.Sprint(b1) != fmt.Sprint(b2) {
			return seqmc.Failf("traversal:backward", "list %d: backward %v, container/list %v", l, b1, b2)
		}
	}
	for i := range x.he {
		if x.free[i] {
			continue
		}
		if a, b := x.idE(x.he[i].Next()), x.idR(x.hr[i].Next()); a != b {
			return seqmc.Failf("Element.Next", "handle %d: Next = %s, container/list %s", i, a, b)
		}
		if a, b := x.idE(x.he[i].Prev()), x.idR(x.hr[i].Prev()); a != b {
			return seqmc.Failf("Element.Prev", "handle %d: Prev = %s, container/list %s", i, a, b)
		}
		if rv, _ := x.hr[i].Value.(int); x.he[i].Value != rv {
			return seqmc.Failf("Element.Value", "handle %d: Value = %v, container/list %v", i, x.he[i].Value, x.hr[i].Value)
		}
	}
	return nil
}

// ===================================================================== rings

type rh struct {
	N  int
	he []*lists.Ring[int]
	hr []*cring.Ring
}

func (x *rh) idE(e *lists.Ring[int]) string {
	if e == nil {
		return "nil"
	}
	for i, h := range x.he {
		if h == e {
			return fmt.Sprint("c", i)
		}
	}
	return "?"
}
func (x *rh) idR(e *cring.Ring) string {
	if e == nil {
		return "nil"
	}
	for i, h := range x.hr {
		if h == e {
			return fmt.Sprint("c", i)
		}
	}
	return "?"
}

func (x *rh) Ops() []seqmc.Op {
	var ops []seqmc.Op
	room := x.N - len(x.he)
	for n := 0; n <= 3 && n <= room; n++ {
		ops = append(ops, seqmc.Op{Name: "NewRing", A: n})
	}
	if room > 0 {
		ops = append(ops, seqmc.Op{Name: "ZeroRing"})
	}
	for i := -1; i < len(x.he); i++ { // -1 = the nil ring pointer
		if i >= 0 {
			ops = append(ops, seqmc.Op{Name: "Next", A: i}, seqmc.Op{Name: "Prev", A: i})
			for n := -3; n <= 3; n++ {
				ops = append(ops, seqmc.Op{Name: "Move", A: i, B: n})
			}
			for j := -1; j < len(x.he); j++ {
				ops = append(ops, seqmc.Op{Name: "Link", A: i, B: j})
			}
			for n := -1; n <= x.N+1; n++ {
				ops = append(ops, seqmc.Op{Name: "Unlink", A: i, B: n})
			}
		}
		ops = append(ops, seqmc.Op{Name: "Len", A: i}, seqmc.Op{Name: "Do", A: i})
		if i >= 0 {
			// Do whose callback, at its k-th call, unlinks the successor of the visited cell (C = -1) or
			// links cell C's ring in behind the visited cell
			for k := 0; k < x.N; k++ {
				for c := -1; c < len(x.he); c++ {
					ops = append(ops, seqmc.Op{Name: "DoWith", A: i, B: k, C: c})
				}
			}
		}
	}
	return ops
}

func (x *rh) get(i int) (*lists.Ring[int], *cring.Ring) {
	if i < 0 {
		return nil, nil
	}
	return x.he[i], x.hr[i]
}

// cyclic checks, through the exported Next/Prev only and with a step cap, that cell i's
// ring has the same cyclic order as the reference ring; it protects Len/Do from looping.
func (x *rh) cyclic(i int) *seqmc.Fail {
	e, r := x.he[i], x.hr[i]
	var a, b []string
	pe, pr := e, r
	for n := 0; n <= x.N+1; n++ {
		pe, pr = pe.Next(), pr.Next()
		a, b = append(a, x.idE(pe)), append(b, x.idR(pr))
		if pr == r {
			break
		}
	}
	if fmt.Sprint(a) != fmt.Sprint(b) {
		return seqmc.Failf("structure:next", "forward walk from cell %d: %v, container/ring %v", i, a, b)
	}
	a, b = nil, nil
	pe, pr = e, r
	for n := 0; n <= x.N+1; n++ {
		pe, pr = pe.Prev(), pr.Prev()
		a, b = append(a, x.idE(pe)), append(b, x.idR(pr))
		if pr == r {
			break
		}
	}
	if fmt.Sprint(a) != fmt.Sprint(b) {
		return seqmc.Failf("structure:prev", "backward walk from cell %d: %v, container/ring %v", i, a, b)
	}
	return nil
}

func (x *rh) Apply(op seqmc.Op) *seqmc.Fail {
	var e *lists.Ring[int]
	var r *cring.Ring
	if op.Name != "NewRing" && op.Name != "ZeroRing" {
		e, r = x.get(op.A)
	}
	cmp := func(what string, a *lists.Ring[int], b *cring.Ring) *seqmc.Fail {
		if x.idE(a) != x.idR(b) {
			return seqmc.Failf(op.Name+":result", "%s returned %s, container/ring %s", what, x.idE(a), x.idR(b))
		}
		return nil
	}
	switch op.Name {
	case "NewRing":
		a, b := lists.NewRing[int](op.A), cring.New(op.A)
		if (a == nil) != (b == nil) {
			return seqmc.Failf("NewRing:result", "NewRing(%d) nil-ness differs", op.A)
		}
		for n := 0; n < op.A; n++ {
			a.Value, b.Value = len(x.he), len(x.he)
			x.he, x.hr = append(x.he, a), append(x.hr, b)
			// walk through the raw structure with Next (NewRing'd cells are initialised)
			a, b = a.Next(), b.Next()
		}
	case "ZeroRing":
		a, b := new(lists.Ring[int]), new(cring.Ring)
		a.Value, b.Value = len(x.he), len(x.he)
		x.he, x.hr = append(x.he, a), append(x.hr, b)
	case "Next":
		return cmp("Next", e.Next(), r.Next())
	case "Prev":
		return cmp("Prev", e.Prev(), r.Prev())
	case "Move":
		return cmp(fmt.Sprintf("Move(%d)", op.B), e.Move(op.B), r.Move(op.B))
	case "Link":
		s, sr := x.get(op.B)
		return cmp(fmt.Sprintf("Link(c%d,c%d)", op.A, op.B), e.Link(s), r.Link(sr))
	case "Unlink":
		return cmp(fmt.Sprintf("Unlink(%d)", op.B), e.Unlink(op.B), r.Unlink(op.B))
	case "Len":
		// (no walk before the call: Len / Do may be the FIRST operation a never-used zero-value ring sees;
		// the structure of every state was verified by Observe when the state was reached)
		if a, b := e.Len(), r.Len(); a != b {
			return seqmc.Failf("Len:result", "Len of c%d = %d, container/ring %d", op.A, a, b)
		}
	case "DoWith":
		// The callback changes the ring while Do walks it. container/ring leaves Do undefined only "if
		// f changes *r" (the cell Do was called on), so the action is taken only when none of the cells
		// whose links it rewrites is that cell - decided on the reference side, applied to both.
		if f := x.cyclic(op.A); f != nil {
			return f
		}
		var a, b []int
		act := false
		calls := 0
		refRunaway := false
		func() {
			defer func() {
				if recover() != nil {
					refRunaway = true
				}
			}()
			x.refDoWith(r, op, &b, &act)
		}()
		if refRunaway {
			// the relinking cut the start cell out of the ring being walked: the standard library's Do
			// never returns either; outside what can be compared
			return seqmc.Prune
		}
		runaway := false
		func() {
			defer func() {
				if recover() != nil {
					runaway = true
				}
			}()
			calls = 0
			e.Do(func(v int) {
				a = append(a, v)
				if calls++; calls > 4*x.N+8 {
					panic("runaway")
				}
				if len(a)-1 != op.B || !act || v < 0 || v >= len(x.he) {
					return
				}
				p := x.he[v]
				if op.C < 0 {
					p.Unlink(1)
				} else {
					p.Link(x.he[op.C])
				}
			})
		}()
		if runaway {
			return seqmc.Failf("Do:result", "Do from c%d whose callback relinks cells behind the visited one (call %d, cell %d) does not terminate; container/ring visits %v", op.A, op.B, op.C, b)
		}
		if fmt.Sprint(a) != fmt.Sprint(b) {
			return seqmc.Failf("Do:result", "Do from c%d whose callback relinks cells behind the visited one (call %d, cell %d) visits %v, container/ring %v", op.A, op.B, op.C, a, b)
		}
	case "Do":
		var a, b []int
		if p, m := enum.Catch(func() {
			e.Do(func(v int) {
				if a = append(a, v); len(a) > 4*x.N+8 {
					panic("Do does not terminate")
				}
			})
		}); p {
			return seqmc.Failf("Do:result", "Do from c%d: %s (visited %v)", op.A, m, a)
		}
		r.Do(func(v any) { b = append(b, v.(int)) })
		if fmt.Sprint(a) != fmt.Sprint(b) {
			return seqmc.Failf("Do:result", "Do from c%d visits %v, container/ring %v", op.A, a, b)
		}
	}
	return nil
}

// refDoWith runs container/ring's Do from r with the relinking callback of op; it panics when the walk
// does not terminate.
func (x *rh) refDoWith(r *cring.Ring, op seqmc.Op, b *[]int, act *bool) {
	calls := 0
	r.Do(func(v any) {
		*b = append(*b, v.(int))
		if calls++; calls > 4*x.N+8 {
			panic("runaway")
		}
		if len(*b)-1 != op.B {
			return
		}
		p := x.hr[v.(int)]
		var s *cring.Ring
		if op.C < 0 {
			s = p.Move(2)
		} else {
			s = x.hr[op.C]
		}
		for _, touched := range []*cring.Ring{p, p.Next(), s, s.Prev()} {
			if touched == r {
				return
			}
		}
		*act = true
		if op.C < 0 {
			p.Unlink(1)
		} else {
			p.Link(s)
		}
	})
}

func (x *rh) Key() string { return fp.Of(&x.he) }

func (x *rh) Observe() *seqmc.Fail {
	for i := range x.he {
		if f := x.cyclic(i); f != nil {
			return f
		}
		if x.he[i].Value != x.hr[i].Value.(int) {
			return seqmc.Failf("Value", "cell %d value changed", i)
		}
	}
	for i := range x.he {
		if a, b := x.he[i].Len(), x.hr[i].Len(); a != b {
			return seqmc.Failf("Len:result", "Len of c%d = %d, container/ring %d", i, a, b)
		}
	}
	return nil
}

func main() {
	ev.GuardFor("C06")
	r := ev.Start("C06")
	defer r.FinishOnPanic()
	r.SetDeadline(ev.Pick(r, 60*time.Second, 1500*time.Second))
	H := ev.Pick(r, 3, 4)
	N := ev.Pick(r, 5, 6)
	rl := seqmc.Explore(r, seqmc.Config{Name: "list", New: func() seqmc.Sys { return newLH(H) }})
	rs := seqmc.Explore(r, seqmc.Config{Name: "list-stale", NoTwin: true, MaxDepth: ev.Pick(r, 6, 8), New: func() seqmc.Sys { x := newLH(3); x.stale = true; return x }})
	r.Set("list_stale", fmt.Sprintf("handles=3 states=%d transitions=%d every history of at most %d calls (complete=%v)", rs.States, rs.Transitions, rs.MaxDepth, rs.Exhaustive))
	rr := seqmc.Explore(r, seqmc.Config{Name: "ring", New: func() seqmc.Sys { return &rh{N: N} }})
	famCalls := bigLists(r) + churnList(r)
	ringSizes := []int{255, 256, 257, 1023, 1024, 1025, 4095, 4096, 4097, 8191, 8192, 8193, 16385, 65537, 70001}
	if r.Thorough() {
		ringSizes = append(ringSizes, 1<<17+1, 1<<20+1, 3000001)
	}
	famCalls += ringLadder(r, ringSizes)
	famCalls += hugeCounts(r)
	r.Set("ring_ladder_sizes", ringSizes)
	r.Set("large_size_family_calls", famCalls)
	if !rl.Exhaustive || !rr.Exhaustive {
		r.MarkCapped()
	}
	r.Set("states", rl.States+rr.States)
	r.Set("transitions", rl.Transitions+rr.Transitions)
	r.Set("traces_validated_against_impl", rl.Transitions+rr.Transitions)
	r.Set("max_depth", max(rl.MaxDepth, rr.MaxDepth))
	r.Set("list", fmt.Sprintf("handles=%d states=%d transitions=%d depth=%d fixpoint=%v", H, rl.States, rl.Transitions, rl.MaxDepth, rl.Exhaustive))
	r.Set("ring", fmt.Sprintf("cells=%d states=%d transitions=%d depth=%d fixpoint=%v", N, rr.States, rr.Transitions, rr.MaxDepth, rr.Exhaustive))
	r.Set("rule", "explicit-state BFS to fixpoint, the fork and the standard library driven in lock-step through parallel handle tables. Lists: a zero-value list and a New() list, a table of H element handles (live in either list, removed, zombie after Init; removed handles can be forgotten so histories are unbounded), every operation over every handle / handle pair / list pair incl. self; compared after every call: returned handle, Len, Front/Back, forward and backward traversal with identities, Next/Prev/Value of every handle. Rings: up to N cells from NewRing(0..3) and zero-value Rings, the nil ring; Next, Prev, Move(-3..3), Link for every pair incl. r==s and nil, Unlink(-1..N+1), Len, Do; scripted list histories up to 4097 elements and a ring ladder (255 .. 70001 cells, thorough to 3*10^6: full traversals both ways, sampled Move, Unlink/Link around every power of two) PLUS deterministic families beyond the exhaustive bound (large sizes, every single/double removal from trees built in 7 orders, long one-instance churn histories): see the *_family_* counters")
	r.Finish()
}

// bigLists: lists of up to 120 elements and rings of up to 64 cells driven through scripted
// operation patterns, compared with the standard library after every call.
func bigLists(r *ev.Run) int {
	calls := 0
	fail := func(sig, format string, a ...any) {
		r.Report(ev.Violation{Sig: "family|" + sig, Msg: fmt.Sprintf(format, a...), Replay: map[string]any{"family": "big-lists"}})
	}
	for _, n := range []int{17, 33, 64, 120, 1025, 4097} {
		l, rl := lists.New[int](), clist.New()
		var he []*lists.Element[int]
		var hr []*clist.Element
		same := func(what string) bool {
			calls++
			if l.Len() != rl.Len() {
				fail("list", "%s (n=%d): Len %d vs %d", what, n, l.Len(), rl.Len())
				return false
			}
			e, re := l.Front(), rl.Front()
			for i := 0; re != nil; i++ {
				if e == nil || e.Value != re.Value.(int) {
					fail("list", "%s (n=%d): forward traversal differs at position %d", what, n, i)
					return false
				}
				e, re = e.Next(), re.Next()
			}
			if e != nil {
				fail("list", "%s (n=%d): list longer than container/list's", what, n)
				return false
			}
			e, re = l.Back(), rl.Back()
			for i := 0; re != nil; i++ {
				if e == nil || e.Value != re.Value.(int) {
					fail("list", "%s (n=%d): backward traversal differs at position %d", what, n, i)
					return false
				}
				e, re = e.Prev(), re.Prev()
			}
			return e == nil
		}
		for i := 0; i < n; i++ {
			switch i % 4 {
			case 0:
				he, hr = append(he, l.PushBack(i)), append(hr, rl.PushBack(i))
			case 1:
				he, hr = append(he, l.PushFront(i)), append(hr, rl.PushFront(i))
			case 2:
				k := (i * 7) % len(he)
				he, hr = append(he, l.InsertBefore(i, he[k])), append(hr, rl.InsertBefore(i, hr[k]))
			default:
				k := (i * 5) % len(he)
				he, hr = append(he, l.InsertAfter(i, he[k])), append(hr, rl.InsertAfter(i, hr[k]))
			}
		}
		ok := same("after building")
		for i := 0; ok && i < 3*n; i++ {
			a, b := (i*13)%len(he), (i*29+7)%len(he)
			switch i % 6 {
			case 0:
				l.MoveToFront(he[a])
				rl.MoveToFront(hr[a])
			case 1:
				l.MoveToBack(he[a])
				rl.MoveToBack(hr[a])
			case 2:
				l.MoveBefore(he[a], he[b])
				rl.MoveBefore(hr[a], hr[b])
			case 3:
				l.MoveAfter(he[a], he[b])
				rl.MoveAfter(hr[a], hr[b])
			case 4:
				if l.Remove(he[a]) != rl.Remove(hr[a]).(int) {
					fail("list", "Remove result differs (n=%d)", n)
				}
			default:
				x, y := l.InsertBefore(1000+i, he[a]), rl.InsertBefore(1000+i, hr[a])
				if (x == nil) != (y == nil) {
					fail("list", "InsertBefore on a possibly removed mark: nil-ness differs (n=%d)", n)
				} else if x != nil {
					he, hr = append(he, x), append(hr, y)
				}
			}
			ok = same(fmt.Sprintf("after scripted op %d", i))
		}
		if ok {
			l.PushBackList(l)
			rl.PushBackList(rl)
			ok = same("after PushBackList(self)")
			o, ro := lists.New[int](), clist.New()
			o.PushFrontList(l)
			ro.PushFrontList(rl)
			l.PushFrontList(o)
			rl.PushFrontList(ro)
			same("after PushFrontList(copy)")
		}
	}
	for _, n := range []int{8, 13, 32, 64} {
		a, ra := lists.NewRing[int](n), cring.New(n)
		for i, p, rp := 0, a, ra; i < n; i, p, rp = i+1, p.Next(), rp.Next() {
			p.Value, rp.Value = i, i
		}
		vals := func(x *lists.Ring[int]) string {
			var v []int
			x.Do(func(i int) { v = append(v, i) })
			return fmt.Sprint(v)
		}
		rvals := func(x *cring.Ring) string {
			var v []int
			x.Do(func(i any) { v = append(v, i.(int)) })
			return fmt.Sprint(v)
		}
		for k := -2*n - 1; k <= 2*n+1; k++ {
			calls++
			if a.Move(k).Value != ra.Move(k).Value.(int) {
				fail("ring", "Move(%d) on a %d-cell ring differs", k, n)
				break
			}
		}
		for step := 0; step < 12; step++ {
			k := (step*5 + 1) % (n + 3)
			x, rx := a.Move(step).Unlink(k), ra.Move(step).Unlink(k)
			calls++
			if x.Len() != rx.Len() || a.Len() != ra.Len() || vals(a) != rvals(ra) || (x != nil && vals(x) != rvals(rx)) {
				fail("ring", "Unlink(%d) from a ring of %d cells (step %d): rings differ from container/ring", k, n, step)
				break
			}
			if x != nil {
				y, ry := a.Move(2).Link(x), ra.Move(2).Link(rx)
				calls++
				if a.Len() != ra.Len() || vals(a) != rvals(ra) || y.Value != ry.Value.(int) {
					fail("ring", "Link back after Unlink(%d) on %d cells differs", k, n)
					break
				}
			}
		}
	}
	return calls
}

// ringLadder: rings of thousands to millions of cells (an allocation or linking strategy that changes
// above a size shows only here). One complete forward and one complete backward traversal, Len, Move by
// sampled distances in both directions, and Unlink/Link of a few cells at sampled positions (around every
// power of two), all in lock-step with container/ring. O(n) per size.
func ringLadder(r *ev.Run, sizes []int) int {
	calls := 0
	for _, n := range sizes {
		fail := func(format string, a ...any) {
			r.Report(ev.Violation{Sig: "family|ring", Msg: fmt.Sprintf("ring of %d cells: ", n) + fmt.Sprintf(format, a...), Replay: map[string]any{"family": "ring-ladder", "n": n}})
		}
		a, ra := lists.NewRing[int](n), cring.New(n)
		p, rp := a, ra
		for i := 0; i < n; i++ {
			if p == nil {
				fail("Next() is nil after %d steps", i)
				break
			}
			p.Value, rp.Value = i, i
			p, rp = p.Next(), rp.Next()
		}
		calls += n
		if p != a {
			fail("%d x Next() does not lead back to the start", n)
			continue
		}
		if a.Len() != ra.Len() {
			fail("Len %d vs %d", a.Len(), ra.Len())
			continue
		}
		ok := true
		p, rp = a, ra
		for i := 0; i < n && ok; i++ {
			p, rp = p.Prev(), rp.Prev()
			if p == nil || p.Value != rp.Value.(int) {
				fail("backward traversal differs from container/ring after %d x Prev()", i+1)
				ok = false
			}
		}
		calls += n
		if !ok {
			continue
		}
		if p != a {
			fail("%d x Prev() does not lead back to the start", n)
			continue
		}
		// sampled positions: around every power of two, thirds, the ends
		pos := []int{0, 1, n / 3, n / 2, n - 2, n - 1}
		for k := 8; k < n; k *= 2 {
			pos = append(pos, k-1, k, k+1)
		}
		for _, k := range pos {
			if k < 0 || k >= n {
				continue
			}
			calls += 2
			x, rx := a.Move(k), ra.Move(k)
			if x == nil || x.Value != rx.Value.(int) {
				fail("Move(%d) differs", k)
				ok = false
				break
			}
			y, ry := x.Move(-k), rx.Move(-k)
			if y != a || ry != ra {
				fail("Move(%d).Move(-%d) does not return to the start", k, k)
				ok = false
				break
			}
			// cut 3 cells after position k out and splice them back in
			cut, rcut := x.Unlink(3), rx.Unlink(3)
			if cut.Len() != rcut.Len() || a.Len() != ra.Len() {
				fail("Unlink(3) at position %d: lengths %d/%d vs %d/%d", k, cut.Len(), a.Len(), rcut.Len(), ra.Len())
				ok = false
				break
			}
			if cut != nil {
				x.Link(cut)
				rx.Link(rcut)
			}
			// neighbours around the seam, both directions
			q, rq := x.Move(-2), rx.Move(-2)
			for i := 0; i < 8; i++ {
				if q == nil || q.Value != rq.Value.(int) || q.Prev() == nil || q.Prev().Value != rq.Prev().Value.(int) {
					fail("after Unlink(3)+Link at position %d the cells around the seam differ from container/ring", k)
					ok = false
					break
				}
				q, rq = q.Next(), rq.Next()
			}
			if !ok {
				break
			}
		}
		if ok && a.Len() != ra.Len() {
			fail("Len %d vs %d after the splices", a.Len(), ra.Len())
		}
	}
	return calls
}

// hugeCounts: Move and Unlink with counts far beyond any ring length (the extremes of int, 2^31, 2^32 and
// their neighbours) on rings where walking costs nothing - never-initialised zero values -
// and, in the thorough tier, with a count just above 2^31 that is a multiple of the length on small
// initialised rings (several seconds of pointer chasing per call, in the standard library too).
func hugeCounts(r *ev.Run) int {
	calls := 0
	fail := func(format string, a ...any) {
		r.Report(ev.Violation{Sig: "family|ring-counts", Msg: fmt.Sprintf(format, a...), Replay: map[string]any{"family": "huge-counts"}})
	}
	counts := []int{1 << 31, 1<<31 - 1, 1<<31 + 1, 1 << 32, 1<<32 + 2, 1 << 40, math.MaxInt, math.MaxInt - 1, -(1 << 31), -(1 << 32), math.MinInt, math.MinInt + 1}
	for _, c := range counts {
		a, b := new(lists.Ring[int]), new(cring.Ring)
		calls += 2
		if (a.Move(c) == a) != (b.Move(c) == b) {
			fail("Move(%d) on a never-used zero-value ring: returns itself = %v, container/ring %v", c, a.Move(c) == a, b.Move(c) == b)
		}
		a, b = new(lists.Ring[int]), new(cring.Ring)
		ua, ub := a.Unlink(c), b.Unlink(c)
		if (ua == nil) != (ub == nil) || (ua == a) != (ub == b) || a.Len() != b.Len() {
			fail("Unlink(%d) on a never-used zero-value ring: nil=%v self=%v Len=%d, container/ring nil=%v self=%v Len=%d", c, ua == nil, ua == a, a.Len(), ub == nil, ub == b, b.Len())
		}
	}
	if r.Thorough() {
		for _, n := range []int{1, 2, 3} {
			c := (1<<31/n + 1) * n // a multiple of the length above 2^31
			a, b := lists.NewRing[int](n), cring.New(n)
			ua, ub := a.Unlink(c), b.Unlink(c)
			calls++
			if (ua == nil) != (ub == nil) || a.Len() != b.Len() || ua.Len() != ub.Len() {
				fail("Unlink(%d) on a ring of %d cells: nil=%v, rest %d, container/ring nil=%v, rest %d", c, n, ua == nil, a.Len(), ub == nil, b.Len())
			}
		}
	}
	return calls
}

// churnList: ONE list driven through a long history in lock-step with container/list, at most
// 40 live handles; full traversal comparison every 53 calls.
func churnList(r *ev.Run) int {
	n := ev.Pick(r, 140000, 600000)
	l, rl := lists.New[int](), clist.New()
	var he []*lists.Element[int]
	var hr []*clist.Element
	var g enum.LCG = 11
	for i := 0; i < n; i++ {
		op := g.Next(10)
		if ev.Tracing() {
			ev.Trace(map[string]any{"family": "churn-list", "step": i, "op": op})
		}
		if len(he) == 0 || (op < 4 && len(he) < 40) {
			switch op % 4 {
			case 0:
				he, hr = append(he, l.PushBack(i)), append(hr, rl.PushBack(i))
			case 1:
				he, hr = append(he, l.PushFront(i)), append(hr, rl.PushFront(i))
			case 2:
				k := g.Next(len(he) + 1)
				if k == len(he) {
					he, hr = append(he, l.PushBack(i)), append(hr, rl.PushBack(i))
				} else {
					he, hr = append(he, l.InsertBefore(i, he[k])), append(hr, rl.InsertBefore(i, hr[k]))
				}
			default:
				k := g.Next(len(he) + 1)
				if k == len(he) {
					he, hr = append(he, l.PushFront(i)), append(hr, rl.PushFront(i))
				} else {
					he, hr = append(he, l.InsertAfter(i, he[k])), append(hr, rl.InsertAfter(i, hr[k]))
				}
			}
		} else {
			a, b := g.Next(len(he)), g.Next(len(he))
			switch op {
			case 4, 5, 6:
				if l.Remove(he[a]) != rl.Remove(hr[a]).(int) {
					r.Report(ev.Violation{Sig: "family|churn", Msg: fmt.Sprintf("call %d: Remove result differs from container/list", i), Replay: map[string]any{"family": "churn-list", "step": i}})
					return i
				}
				he, hr = append(he[:a], he[a+1:]...), append(hr[:a], hr[a+1:]...)
			case 7:
				l.MoveToFront(he[a])
				rl.MoveToFront(hr[a])
			case 8:
				l.MoveBefore(he[a], he[b])
				rl.MoveBefore(hr[a], hr[b])
			default:
				l.MoveAfter(he[a], he[b])
				rl.MoveAfter(hr[a], hr[b])
			}
		}
		if l.Len() != rl.Len() || (i%53 == 0 && !sameList(l, rl)) {
			r.Report(ev.Violation{Sig: "family|churn", Msg: fmt.Sprintf("call %d of a long history on one list: contents differ from container/list (Len %d vs %d)", i, l.Len(), rl.Len()), Replay: map[string]any{"family": "churn-list", "step": i}})
			return i
		}
	}
	return n
}

func sameList(l *lists.List[int], rl *clist.List) bool {
	e, re := l.Front(), rl.Front()
	for re != nil {
		if e == nil || e.Value != re.Value.(int) {
			return false
		}
		e, re = e.Next(), re.Next()
	}
	if e != nil {
		return false
	}
	e, re = l.Back(), rl.Back()
	for re != nil {
		if e == nil || e.Value != re.Value.(int) {
			return false
		}
		e, re = e.Prev(), re.Prev()
	}
	return e == nil
}

// ModelKey is the layout-independent state key (see seqmc.ModelKeyer): the fingerprint of the REFERENCE
// structures (container/list, container/ring), which is a function of the operation history whatever
// the fork does with its memory.
func (x *lh) ModelKey() string { return fp.Of(x.R[0], x.R[1], &x.hr, &x.zombie) }
func (x *rh) ModelKey() string { return fp.Of(&x.hr) }
