// Package vrt is the SCHED engine: a controlled scheduler under which the real
// code of sync2 and chans (built through the instrumenting overlay) runs one
// model thread at a time, and an explorer that enumerates every interleaving of
// the visible operations (atomics, locks, wait groups, channel operations,
// timers, spawns) within a preemption bound.
//
// Every function that touches scheduler state from a model thread is
// //go:norace and avoids maps: in race builds the baton hand-offs are hidden
// from the detector (RaceDisable), so that it sees only the happens-before
// edges of the real primitives executed by the code under test.
package vrt

import (
	"fmt"
	"os"
	"runtime"
	"sort"
	"strings"
	"sync"
	"unsafe"
)

// Op describes the visible operation a parked thread is about to perform.
type Op struct {
	Kind  string         // for traces: "atomic.Load", "mutex.Lock", ...
	Obj   unsafe.Pointer // identity of the object operated on (nil = none); kept alive for the whole execution so that its address cannot be reused
	Write bool           // conflicts with every other access to Obj (reads only with writes)
	Ready func() bool    // nil = always enabled
	ch    *chanOp        // channel / select operations
	yield bool           // the thread offers its turn (runtime.Gosched, a long run of reads): others go first, for free
}

type Thread struct {
	spin      int  // consecutive operations of this thread that wrote nothing
	held      bool // spawned by the set-up: starts when the set-up has returned
	idleWakes int  // times it was woken from a sleep / a ticker wait while nothing else could run (see idleRounds)
	yielded   bool // it offered its turn and nobody else has made a step since: not offered to the explorer
	ID        int
	Name      string
	wake      chan struct{}
	pend      *Op
	done      bool
	daemon    bool
	hash      uint64 // happens-before hash of this thread's history
	// call/return stamps of the API call in progress (see Begin/End)
	pendingInv bool
	beginClock int
	inv        int
	lastOp     int
	noBlock    string // non-empty: this thread must never be disabled (e.g. inside a Try* call)
	// result handed over by a rendezvous partner
	handed bool
	hcase  int
	hval   any
	hok    bool
}

// Point is one recorded decision.
type Point struct {
	N          int  // number of alternatives
	Chosen     int  //
	RunEnabled bool // alternative 0 is "keep running the current thread" (switching away costs a preemption)
	Data       bool // a data choice (select case, pool hit/miss): never a preemption
	// FirstCostly: alternatives with index >= FirstCostly are deviations that count against the
	// bound: switching away from a thread that could continue (a preemption), or letting an
	// environment event happen (a timer firing) while ordinary threads can run
	FirstCostly int
}

type abortT struct{}

var abortSentinel = abortT{}

// Sched is one execution.
type Sched struct {
	sends           []sendCount // completed sends per channel (see SendsDone)
	prologue        bool        // the scenario's set-up is running (as model thread "setup"): default choices only, nothing recorded
	afterPrologue   bool        // the next scheduling decision is the first one of the concurrent phase (free)
	proSteps        int
	final           func(x *Exec)
	finalStarted    bool
	Diverged        bool
	joinTok         int  // see runThread / startFinal
	FinalRan        bool // the final observation ran to its end inside the execution
	FinalStuck      bool // it was started and could not finish (it blocked for ever)
	abortFn         func() bool
	TimedOut        bool
	unheld          int              // threads that exist and are not held (set-up phase fast path)
	timeChans       []unsafe.Pointer // see MarkTimeChan
	noted           []unsafe.Pointer // objects created by rewritten code, in creation order (see NoteObj)
	threads         []*Thread
	cur             *Thread
	prefix          []int
	Points          []Point
	aborting        bool
	ended           bool
	Deadlock        bool
	Blocked         []string
	Panic           string
	Livelock        bool
	Steps           int
	maxSteps        int
	fin             chan struct{}
	wg              sync.WaitGroup
	tracing         bool
	Trace           []string
	objs            []unsafe.Pointer // canonical object numbering (first use); also keeps the objects alive, so that no address is reused within an execution
	objHash         []objH
	chans           []*chanModel
	visit           func(key uint64, preemptions int) bool // state-cache hook: false = prune here
	Pruned          bool
	NoBlockViolated string
	delay           bool   // delay bounding: every deviation from the canonical next thread costs, forced switches included
	rtAcc           uint64 // commutative hash of the set of API calls that have returned (real-time order)
	clock           int    // logical clock; every stamp is unique
	preempt         int
}

type objH struct {
	lastWrite uint64
	reads     uint64 // commutative combination of reads since lastWrite
}

var cur *Sched // the execution in its concurrent phase (nil = pass-through)

// Running reports whether a controlled execution is in its concurrent phase.
//
//go:norace
func Running() bool { return cur != nil }

func mix(a, b uint64) uint64 {
	x := a ^ (b + 0x9e3779b97f4a7c15 + (a << 6) + (a >> 2))
	x ^= x >> 33
	x *= 0xff51afd7ed558ccd
	x ^= x >> 33
	x *= 0xc4ceb9fe1a85ec53
	x ^= x >> 33
	return x
}

//go:norace
func hashStr(s string) uint64 {
	var h uint64 = 1469598103934665603
	for i := 0; i < len(s); i++ {
		h ^= uint64(s[i])
		h *= 1099511628211
	}
	return h
}

// objID returns the canonical number of an object (first-use order).
//
//go:norace
func (s *Sched) objID(p unsafe.Pointer) int {
	if p == nil {
		return 0
	}
	for i, q := range s.objs {
		if q == p {
			return i + 1
		}
	}
	s.objs = append(s.objs, p)
	s.objHash = append(s.objHash, objH{})
	return len(s.objs)
}

// Spawn registers a model thread before (or during) the concurrent phase.
//
//go:norace
func (s *Sched) Spawn(name string, f func()) *Thread {
	t := s.spawn(name, f, false)
	if s.prologue {
		t.held = true
		s.unheld--
	}
	return t
}

//go:norace
func (s *Sched) spawn(name string, f func(), daemon bool) *Thread {
	t := &Thread{ID: len(s.threads), Name: name, wake: make(chan struct{}, 1), daemon: daemon}
	t.pend = &Op{Kind: "start"}
	t.hash = mix(uint64(t.ID)+1, hashStr(name))
	if s.cur != nil {
		// spawned by a running thread: the child's history starts from the parent's
		t.hash = mix(s.cur.hash, uint64(t.ID)+77)
		s.cur.hash = mix(s.cur.hash, 0x5a5a)
	}
	s.threads = append(s.threads, t)
	s.unheld++
	s.wg.Add(1)
	raceGo(func() { s.runThread(t, f) })
	return t
}

// Go starts f as a new model thread (the rewritten `go` statement). Outside a
// controlled execution it is a plain goroutine.
//
//go:norace
func Go(f func()) {
	s := cur
	if s == nil {
		go f()
		return
	}
	if s.aborting {
		panic(abortSentinel)
	}
	s.spawn("go", f, false)
}

//go:norace
func park(t *Thread) {
	raceOff()
	<-t.wake
	raceOn()
}

//go:norace
func wakeup(t *Thread) {
	raceOff()
	t.wake <- struct{}{}
	raceOn()
}

//go:norace
func (s *Sched) runThread(t *Thread, f func()) {
	defer s.wg.Done()
	park(t)
	if s.aborting {
		return
	}
	t.hash = mix(t.hash, 0x57a7) // started: distinct from "not yet scheduled"
	returned := false
	defer func() {
		r := recover()
		if r == nil {
			if !returned && !s.aborting && !t.done {
				// the thread left through runtime.Goexit (e.g. t.FailNow inside an action): it is
				// finished like any other, the baton goes on
				t.done = true
				raceReleaseAddr(unsafe.Pointer(&s.joinTok))
				s.switchFrom(t)
			}
			return
		}
		if _, ok := r.(abortT); ok {
			return
		}
		// a genuine panic in a model thread: the process would have died
		if s.aborting {
			return
		}
		buf := make([]byte, 4096)
		buf = buf[:runtime.Stack(buf, false)]
		if msg, ok := r.(string); ok && strings.HasPrefix(msg, "vrt: replay divergence") {
			// the prefix that is being replayed does not fit this run: the code under test (or something it
			// uses) is not a function of the schedule - e.g. it hashes the address of a stack variable. The
			// run is abandoned and counted; it says nothing about the property.
			s.Diverged = true
			t.done = true
			s.finish()
			return
		}
		s.Panic = fmt.Sprint(r)
		s.Trace = append(s.Trace, fmt.Sprintf("T%d PANIC %v\n%s", t.ID, r, trimStack(string(buf))))
		t.done = true
		s.finish()
	}()
	f()
	returned = true
	t.done = true
	raceReleaseAddr(unsafe.Pointer(&s.joinTok)) // everything a finished thread did happens-before the final observation
	if t.Name == finalName {
		s.finish() // the final observation is over: so is the execution
		return
	}
	if t.Name == setupName && s.prologue {
		s.endPrologue()
	}
	s.switchFrom(t)
}

const setupName = "set-up"

// endPrologue: the scenario's set-up has returned; the threads it spawned may start.
//
//go:norace
func (s *Sched) endPrologue() {
	s.prologue = false
	s.afterPrologue = true
	for _, x := range s.threads {
		x.held = false
	}
}

func trimStack(st string) string {
	lines := strings.Split(st, "\n")
	var out []string
	for i := 0; i+1 < len(lines); i++ {
		if strings.Contains(lines[i+1], "/repo/") || strings.Contains(lines[i+1], "/overlay/") {
			fn := strings.TrimSpace(lines[i])
			if k := strings.LastIndex(fn, "("); k > 0 {
				fn = fn[:k] // argument values are not deterministic
			}
			loc := strings.TrimSpace(lines[i+1])
			if k := strings.Index(loc, " +0x"); k > 0 {
				loc = loc[:k]
			}
			out = append(out, fn+" @ "+loc)
		}
	}
	if len(out) > 8 {
		out = out[:8]
	}
	return strings.Join(out, "\n")
}

// finish ends the execution: every parked thread is resumed in abort mode and
// unwinds through a sentinel panic.
//
//go:norace
func (s *Sched) finish() {
	if s.ended {
		return
	}
	s.ended = true
	s.aborting = true
	me := s.cur
	for _, t := range s.threads {
		if t != me && !t.done {
			wakeup(t)
		}
	}
	raceOff()
	s.fin <- struct{}{}
	raceOn()
}

//go:norace
func (s *Sched) isReady(t *Thread) bool {
	if t.done || t.pend == nil || t.held {
		return false
	}
	if t.handed {
		return true
	}
	if t.pend.ch != nil {
		return s.chanReady(t)
	}
	return t.pend.Ready == nil || t.pend.Ready()
}

// choose records a decision with n alternatives.
//
//go:norace
func (s *Sched) choose(n int, runEnabled, data bool) int {
	fc := n
	if runEnabled && !data {
		fc = 1
	}
	return s.chooseC(n, runEnabled, data, fc)
}

//go:norace
func (s *Sched) chooseC(n int, runEnabled, data bool, firstCostly int) int {
	if s.prologue {
		return 0 // the set-up phase is one deterministic run: default answers, nothing recorded
	}
	c := 0
	i := len(s.Points)
	if i < len(s.prefix) {
		c = s.prefix[i]
		if c < 0 || c >= n {
			panic(fmt.Sprintf("vrt: replay divergence at point %d: choice %d of %d", i, c, n))
		}
	}
	s.Points = append(s.Points, Point{N: n, Chosen: c, RunEnabled: runEnabled, Data: data, FirstCostly: firstCostly})
	if c >= firstCostly {
		s.preempt++
	}
	if data && s.cur != nil {
		// an environment answer (pool hit or miss, which ready select case, which rendezvous
		// partner) is part of the history: prefixes that differ in it are different states
		s.cur.hash = mix(s.cur.hash, uint64(c)+0xd47a)
	}
	return c
}

// Choose is a data choice offered to the explorer (never a preemption).
//
//go:norace
func Choose(n int) int {
	s := cur
	if s != nil && s.aborting {
		panic(abortSentinel) // see PointOp
	}
	if s == nil || n <= 1 {
		return 0
	}
	return s.choose(n, false, true)
}

// stateKey combines the happens-before hashes of all threads.
//
//go:norace
func (s *Sched) stateKey(runEnabled bool) uint64 {
	var k uint64 = 0x1234567
	for _, t := range s.threads {
		h := t.hash
		if t.done {
			h = mix(h, 0xdead)
		}
		k = mix(k, h)
	}
	if !runEnabled {
		// the running thread is finished or blocked: who it was no longer matters (every
		// choice is a forced switch)
		return mix(k, 0xffff)
	}
	return mix(k, uint64(s.cur.ID))
}

// switchFrom is called by the running thread t when it parks at a visible
// operation (t.pend set) or has finished (t.done).
//
//go:norace
func (s *Sched) switchFrom(t *Thread) {
	if s.aborting {
		if t.done {
			return
		}
		panic(abortSentinel)
	}
	if s.abortFn != nil && (s.Steps+s.proSteps)&2047 == 2047 && s.abortFn() {
		s.TimedOut = true
		s.finish()
		if t.done {
			return
		}
		panic(abortSentinel)
	}
	if s.prologue {
		s.proSteps++
		// fast path: the set-up thread is the only thread that exists (the ones it spawned are held):
		// nothing to decide while its next operation is enabled
		if s.unheld == 1 && !t.done && t.pend != nil && t.pend.ch == nil && (t.pend.Ready == nil || t.pend.Ready()) && s.proSteps < 200000000 {
			return
		}
	} else if len(s.Points) >= len(s.prefix) {
		// (steps are counted once the replayed prefix is used up: the budget judges what happens under the
		// fair default continuation - an explorer that keeps choosing one of two spinning threads over the
		// thread they wait for builds an ever longer unfair prefix, which is no livelock of the code)
		s.Steps++
	}
	if s.Steps > s.maxSteps || s.proSteps > 200000000 {
		s.Livelock = true
		s.finish()
		if t.done {
			return
		}
		panic(abortSentinel)
	}
	// all non-daemon threads finished?
	allDone := true
	for _, x := range s.threads {
		if !x.done && !x.daemon {
			allDone = false
			break
		}
	}
	if allDone && !s.startFinal() {
		s.finish()
		if t.done {
			return
		}
		panic(abortSentinel)
	}
retry:
	var en [24]*Thread
	enabled := en[:0]
	runEnabled := false
	// fairness: a thread that yields (runtime.Gosched), or that has made a long run of operations that
	// write nothing while others could run (a busy-wait on an atomic flag), goes to the back of the queue
	yielding := !t.done && t.pend != nil && (t.pend.yield || t.spin > 300)
	if yielding {
		t.yielded = true // until some other thread has made a step (see executed)
	}
	if !yielding && s.isReady(t) {
		enabled = append(enabled, t)
		runEnabled = true
	}
	// canonical order: the running thread, then ordinary threads by id, then environment
	// (daemon) threads by id
	for _, x := range s.threads {
		if x != t && !x.daemon && !x.yielded && s.isReady(x) {
			enabled = append(enabled, x)
		} else if x.noBlock != "" && !x.done && x.pend != nil && s.NoBlockViolated == "" && (x != t || !runEnabled) && !s.isReady(x) && s.othersStable(x) {
			s.NoBlockViolated = fmt.Sprintf("T%d(%s) is blocked at %s although it is inside %s and every other thread is parked in harness code, blocked or finished", x.ID, x.Name, x.pend.Kind, x.noBlock)
		}
	}
	if len(enabled) == 0 {
		// nobody who has not yielded can run: the yielders are all that is left (fair: they are only
		// offered when everybody else is finished, blocked or has yielded too)
		for _, x := range s.threads {
			if !x.daemon && x.yielded && s.isReady(x) {
				if x == t {
					runEnabled = true
					enabled = append([]*Thread{t}, enabled...)
				} else {
					enabled = append(enabled, x)
				}
			}
		}
	} else if yielding {
		t.spin = 0
		// the default continuation after a yield is the thread that has waited longest (two threads that
		// spin politely on a lock must not pass the turn to each other for ever while its holder starves)
		for i := 1; i < len(enabled); i++ {
			for j := i; j > 0 && enabled[j].lastOp < enabled[j-1].lastOp; j-- {
				enabled[j], enabled[j-1] = enabled[j-1], enabled[j]
			}
		}
	}
	// goroutines of the code under test that only wait for time to pass (a janitor that sleeps between
	// rounds or lives on a ticker) never let an execution become quiescent. When nothing else can run they
	// are woken at most idleRounds times each; after that they count as idle for good (see quiescent).
	busy := false
	for _, x := range enabled {
		if !s.idleForever(x) {
			busy = true
		}
	}
	if !busy && len(enabled) > 0 {
		k := 0
		for _, x := range enabled {
			if x.idleWakes < idleRounds {
				enabled[k] = x
				k++
			}
		}
		enabled = enabled[:k]
		runEnabled = runEnabled && k > 0 && enabled[0] == t
	}
	ordinary := len(enabled)
	for _, x := range s.threads {
		if x != t && x.daemon && s.isReady(x) {
			enabled = append(enabled, x)
		}
	}
	if len(enabled) == 0 {
		if s.quiescent() {
			goto retry // the final observation has been started as one more thread
		}
		if t.done {
			return
		}
		panic(abortSentinel)
	}
	if s.visit != nil && !s.prologue && len(s.Points) >= len(s.prefix) {
		if !s.visit(s.stateKey(runEnabled), s.preempt) {
			s.Pruned = true
			s.finish()
			if t.done {
				return
			}
			panic(abortSentinel)
		}
	}
	n := enabled[0]
	if len(enabled) > 1 {
		fc := 1 // switching away from a thread that can continue is a preemption
		if !runEnabled && (!s.delay || s.afterPrologue) && !yielding {
			fc = ordinary // a forced switch is free among ordinary threads; an environment event costs
			if ordinary == 0 {
				fc = len(enabled) // nothing else can run: the environment event is forced
			}
		}
		n = enabled[s.chooseC(len(enabled), runEnabled, false, fc)]
	}
	if !s.prologue {
		s.afterPrologue = false
	}
	if !busy && n.Name == "go" {
		n.idleWakes++
	}
	if n == t {
		return
	}
	s.cur = n
	wakeup(n)
	if t.done {
		return
	}
	park(t)
	if s.aborting {
		panic(abortSentinel)
	}
}

const idleRounds = 32

// quiescent ends the execution because nothing can run any more: a deadlock if some thread is left
// blocked - goroutines of the code under test that only wait for time (idleForever: asleep, or waiting
// for a ticker) are not blocked, they are idle.
//
//go:norace
func (s *Sched) quiescent() (finalStarted bool) {
	if s.finalStarted {
		// quiescent again, after (or inside) the final observation
		for _, x := range s.threads {
			if x.Name == finalName && !x.done {
				s.FinalStuck = true
			}
		}
		s.finish()
		return false
	}
	for _, x := range s.threads {
		if !x.done && !x.daemon && x.pend != nil && !s.idleForever(x) {
			s.Blocked = append(s.Blocked, fmt.Sprintf("T%d(%s) blocked at %s", x.ID, x.Name, x.pend.Kind))
		}
	}
	// goroutines the code under test started itself and left parked for good (a server goroutine waiting
	// for its next request, a worker pool) after every thread of the scenario has finished are a leak at
	// worst, not a deadlock: nobody is waiting for them. They stay listed in Blocked.
	s.Deadlock = len(s.Blocked) > 0 && !s.harnessDone()
	if s.startFinal() {
		return true
	}
	s.finish()
	return false
}

const finalName = "final-observation"

// SetFinal registers the scenario's final observation (its oracle reading the object under test through
// the public API). It runs as one more model thread when the execution has come to its end - every
// thread finished, or nothing can run any more - with default answers at every choice and nothing
// recorded, like the set-up: goroutines the code under test keeps for itself (a server goroutine that owns
// the state, an owner started on demand) are still alive then, and whatever the observation starts is
// torn down with the execution instead of running on into the next one.
//
//go:norace
func (s *Sched) SetFinal(f func(x *Exec)) { s.final = f }

// startFinal starts the final observation once; false if there is none or it has been started before.
//
//go:norace
func (s *Sched) startFinal() bool {
	if s.final == nil || s.finalStarted || s.aborting {
		return false
	}
	s.finalStarted = true
	x := &Exec{Deadlock: s.Deadlock, Blocked: append([]string{}, s.Blocked...), Steps: s.Steps, NoBlockViolated: s.NoBlockViolated, Points: s.Points}
	s.prologue = true // default answers, nothing recorded, steps not counted
	f := s.final
	s.spawn(finalName, func() {
		raceAcquireAddr(unsafe.Pointer(&s.joinTok))
		f(x)
		s.FinalRan = true
	}, false)
	return true
}

// Point parks the running thread at a visible operation and returns when the
// scheduler lets it perform the operation. Outside a controlled execution it
// returns at once.
//
//go:norace
func PointOp(op *Op) {
	s := cur
	if s == nil {
		return
	}
	if s.aborting {
		// the execution is over: every thread is unwinding (concurrently, as plain goroutines). Code
		// that runs in deferred functions on the way out must not go on using the model or the real
		// primitives behind it
		panic(abortSentinel)
	}
	t := s.cur
	t.pend = op
	s.switchFrom(t)
	t.pend = nil
	s.executed(t, op)
}

// executed folds the operation into the happens-before hashes and the trace.
//
//go:norace
func (s *Sched) executed(t *Thread, op *Op) {
	s.clock += 2
	t.lastOp = s.clock
	id := s.objID(op.Obj)
	if t.pendingInv {
		// the invocation of an API call is stamped at its first visible operation; what it
		// depends on in real time is the set of calls that have already returned
		t.pendingInv = false
		t.inv = s.clock
		t.hash = mix(mix(t.hash, 0x1417), s.rtAcc)
	}
	if op.Write || op.ch != nil {
		t.spin = 0
	} else {
		t.spin++
	}
	if !op.yield {
		for _, x := range s.threads {
			if x != t {
				x.yielded = false // somebody else made a step: whoever yielded may look again
			}
		}
	}
	h := mix(t.hash, hashStr(op.Kind)+uint64(id)*1315423911)
	if id > 0 {
		o := &s.objHash[id-1]
		if op.Write {
			h = mix(h, mix(o.lastWrite, o.reads))
			o.lastWrite = h
			o.reads = 0
		} else {
			h = mix(h, o.lastWrite)
			o.reads += h // commutative: concurrent reads are unordered
		}
	}
	t.hash = h
	if s.tracing && !s.prologue {
		s.Trace = append(s.Trace, fmt.Sprintf("T%d %s #%d%s", t.ID, op.Kind, id, callerPos()))
	}
}

// Begin marks the invocation of an API call by the running thread. The call's
// invocation is stamped at its first visible operation and its return right
// after its last one: the tightest real-time order any placement of the
// invisible steps could produce, hence the strongest linearizability check.
//
//go:norace
func Begin() {
	s := cur
	if s == nil {
		return
	}
	t := s.cur
	s.clock += 2
	t.pendingInv = true
	t.beginClock = s.clock
}

// End marks the return of the API call and yields its (invocation, return) stamps.
//
//go:norace
func End() (inv, ret int) {
	s := cur
	if s == nil {
		return 0, 0
	}
	t := s.cur
	if t.pendingInv { // no visible operation at all
		t.pendingInv = false
		s.clock += 2
		inv, ret = t.beginClock, s.clock
		t.hash = mix(mix(t.hash, 0x1417), s.rtAcc)
	} else {
		inv, ret = t.inv, t.lastOp+1
	}
	t.hash = mix(t.hash, 0x7e7)
	s.rtAcc += mix(t.hash, 0x9999) // commutative: returns are unordered among themselves
	return
}

func callerPos() string {
	pc := make([]uintptr, 24)
	n := runtime.Callers(3, pc)
	fr := runtime.CallersFrames(pc[:n])
	for {
		f, more := fr.Next()
		if strings.Contains(f.File, "/repo/") {
			return fmt.Sprintf("  @%s:%d", f.File[strings.Index(f.File, "/repo/")+6:], f.Line)
		}
		if !more {
			return ""
		}
	}
}

// Note folds a harness-level observation into the running thread's history (so
// that state caching never merges prefixes that differ in it) and the trace.
//
//go:norace
func Note(what string) {
	s := cur
	if s == nil {
		return
	}
	s.cur.hash = mix(s.cur.hash, hashStr(what))
	if s.tracing {
		s.Trace = append(s.Trace, fmt.Sprintf("T%d note %s", s.cur.ID, what))
	}
}

// Yield is an explicit scheduling point for harness code (e.g. inside a
// critical section).
//
//go:norace
func Yield(kind string, obj unsafe.Pointer, write bool) {
	if cur == nil {
		return
	}
	PointOp(&Op{Kind: kind, Obj: obj, Write: write})
}

// Gosched is the rewritten runtime.Gosched(): a scheduling point at which every other runnable
// ordinary thread is preferred, at no cost (waiting loops must be visible and fair: a thread that spins
// politely may not keep the thread it waits for from running).
//
//go:norace
func Gosched() {
	if cur == nil {
		runtime.Gosched()
		return
	}
	PointOp(&Op{Kind: "runtime.Gosched", yield: true})
}

// Observed mixes a value the running thread has just read from state outside the model (the model
// clock) into its history, so that the state cache tells threads that saw different values apart.
//
//go:norace
func Observed(v uint64) {
	if s := cur; s != nil && s.cur != nil {
		s.cur.hash = mix(s.cur.hash, v+0x0b5e)
	}
}

// HarnessDone reports whether every thread the scenario spawned itself has finished (what is left was
// started by the code under test with `go`, or is an environment thread).
//
//go:norace
func HarnessDone() bool {
	s := cur
	if s == nil {
		return true
	}
	return s.harnessDone()
}

//go:norace
func (s *Sched) harnessDone() bool {
	for _, x := range s.threads {
		if !x.done && !x.daemon && x.Name != "go" {
			return false
		}
	}
	return true
}

// MarkTimeChan registers a channel that only time feeds (a ticker's): a goroutine of the code under
// test that is left waiting on it when everything else has finished is a janitor, not a deadlock.
//
//go:norace
func MarkTimeChan(p unsafe.Pointer) {
	if s := cur; s != nil {
		s.timeChans = pushPtr(s.timeChans, p)
	}
}

// idleForever: a goroutine started by the code under test that only waits for time to pass (it sleeps,
// or waits for a ticker).
//
//go:norace
func (s *Sched) idleForever(x *Thread) bool {
	if x.Name != "go" || x.pend == nil {
		return false
	}
	if x.pend.Kind == "time.Sleep" {
		return true
	}
	if x.pend.ch == nil || x.pend.ch.hasDefault || len(x.pend.ch.cases) == 0 {
		return false
	}
	for _, c := range x.pend.ch.cases {
		isTime := false
		for _, p := range s.timeChans {
			if p == c.ptr && !c.send {
				isTime = true
			}
		}
		if !isTime {
			return false
		}
	}
	return true
}

// IdleWakes returns how often the running thread has been woken from a sleep or a ticker wait while
// nothing else could run (vtime lets the clock run faster for such a thread: it may oversleep).
//
//go:norace
func IdleWakes() int {
	if s := cur; s != nil && s.cur != nil {
		return s.cur.idleWakes
	}
	return 0
}

// Recover is wrapped around every recover() of the code under test: the sentinel with which the
// scheduler unwinds the threads of a finished execution goes on unwinding, everything else is handed to
// the code as usual.
//
//go:norace
func Recover(v any) any {
	if _, ok := v.(abortT); ok {
		panic(v)
	}
	return v
}

// SleepPoint is the model of time.Sleep: like Gosched it offers the turn to everybody else (a loop
// that sleeps between attempts is a polite waiting loop).
//
//go:norace
func SleepPoint() {
	if cur == nil {
		return
	}
	PointOp(&Op{Kind: "time.Sleep", yield: true})
}

// OrdinaryEnabled reports whether some ordinary (non-environment) thread can make a step right now. Environment
// threads use it to tell a voluntary event (bounded) from one without which the execution would be stuck.
//
//go:norace
func OrdinaryEnabled() bool {
	s := cur
	if s == nil {
		return true
	}
	for _, x := range s.threads {
		if !x.daemon && !x.done && s.isReady(x) && !(s.idleForever(x) && x.idleWakes >= idleRounds) {
			return true
		}
	}
	return false
}

// Self returns the id of the running model thread (-1 outside an execution).
//
//go:norace
func Self() int {
	if cur == nil {
		return -1
	}
	return cur.cur.ID
}

// Exec is the outcome of one execution.
type Exec struct {
	Diverged             bool // a replayed prefix did not fit (nondeterminism outside the scheduler's control); nothing is judged
	FinalRan, FinalStuck bool // see Sched.SetFinal
	TimedOut             bool // abandoned because RunConfig.Abort said so (nothing about it is judged)
	Choices              []int
	Points               []Point
	Deadlock             bool
	Blocked              []string
	Panic                string
	Livelock             bool
	Pruned               bool
	Steps                int
	Races                int
	Trace                []string
	// NoBlockViolated describes a thread that was disabled while it had declared (NoBlock)
	// that it must not be.
	NoBlockViolated string
}

// Config of one run.
type RunConfig struct {
	Prefix   []int
	Trace    bool
	MaxSteps int
	Visit    func(key uint64, cur int) bool
	// Delay selects delay bounding: the default schedule is deterministic (the running thread
	// while it can run, else the lowest ordinary thread) and EVERY other choice of thread costs
	// one deviation. Without it forced switches are free (preemption bounding).
	Delay bool
	// Abort: see Options.Abort.
	Abort func() bool
}

// SetupPassThrough selects the old set-up mode (the scenario body runs on the caller's goroutine before
// any model thread exists, all primitives pass through to the real ones). VERIF_SETUP_PASSTHROUGH=1.
var SetupPassThrough = os.Getenv("VERIF_SETUP_PASSTHROUGH") != ""

// Run performs one execution: body spawns the model threads (sequential set-up
// first, in pass-through mode), then the concurrent phase runs to completion.
func Run(cfg RunConfig, body func(s *Sched)) *Exec {
	s := &Sched{prefix: cfg.Prefix, fin: make(chan struct{}, 1), tracing: cfg.Trace, maxSteps: cfg.MaxSteps, visit: cfg.Visit, delay: cfg.Delay, abortFn: cfg.Abort}
	if s.maxSteps == 0 {
		s.maxSteps = 20000
	}
	races0 := raceErrors()
	closedChans = closedChans[:0]
	closedKeep = closedKeep[:0]
	resetGlobals()
	notedSetup = notedSetup[:0]
	if SetupPassThrough {
		inSetup = true
		body(s)
		inSetup = false
		if len(s.threads) == 0 {
			return &Exec{}
		}
	} else {
		// the set-up runs as the first model thread: goroutines that the code under test starts during
		// set-up calls (a janitor, a server goroutine that owns the state) are model threads from their
		// first step, and live on into the concurrent phase under the scheduler's control
		s.prologue = true
		s.spawn(setupName, func() { body(s) }, false)
	}
	start(s)
	<-s.fin
	s.wg.Wait()
	cur = nil
	raceJoin()
	x := &Exec{Diverged: s.Diverged, FinalRan: s.FinalRan, FinalStuck: s.FinalStuck, TimedOut: s.TimedOut, Points: s.Points, Deadlock: s.Deadlock, Blocked: s.Blocked, Panic: s.Panic, Livelock: s.Livelock, Pruned: s.Pruned, Steps: s.Steps, Trace: s.Trace, NoBlockViolated: s.NoBlockViolated}
	x.Choices = make([]int, len(s.Points))
	for i, p := range s.Points {
		x.Choices[i] = p.Chosen
	}
	x.Races = raceErrors() - races0
	return x
}

// Package-level state of the instrumented packages: the rewriter registers, per variable, how to
// put it back into its initial state (see cmd/vinstr resetDecl). Run does this before every
// execution, so that an execution that was cut short (state cache, deadlock, bound) cannot leave a
// locked package-level mutex or a half-filled package-level pool behind for the next one, and a
// recorded schedule replays from the same state it was found in.
type resetEntry struct {
	pkgSeq, idx int
	f           func()
}

var resetPkgs []string

var resets []resetEntry
var resetSorted bool

// RegisterReset is called from generated init functions; idx is the variable's position in its
// package's initialisation order (-1: no initialiser, zeroed first).
func RegisterReset(pkg string, idx int, f func()) {
	seq := -1
	for i, p := range resetPkgs {
		if p == pkg {
			seq = i
		}
	}
	if seq < 0 {
		seq = len(resetPkgs)
		resetPkgs = append(resetPkgs, pkg)
	}
	resets = append(resets, resetEntry{seq, idx, f})
	resetSorted = false
}

// Zero sets *p to the zero value of its type.
func Zero[T any](p *T) {
	var z T
	*p = z
}

func resetGlobals() {
	if !resetSorted {
		// registration order is package dependency order (init functions); inside a package the
		// files register in file order, which is re-sorted here into initialisation order
		sort.SliceStable(resets, func(i, j int) bool {
			if resets[i].pkgSeq != resets[j].pkgSeq {
				return resets[i].pkgSeq < resets[j].pkgSeq
			}
			return resets[i].idx < resets[j].idx
		})
		resetSorted = true
	}
	for _, r := range resets {
		r.f()
	}
}

//go:norace
func start(s *Sched) {
	for _, p := range notedSetup { // creation numbers continue from the set-up phase
		s.noted = pushPtr(s.noted, p)
	}
	cur = s
	// the first decision: which thread starts
	var enabled []*Thread
	for _, t := range s.threads {
		if s.isReady(t) {
			enabled = append(enabled, t)
		}
	}
	n := enabled[0]
	if len(enabled) > 1 {
		n = enabled[s.choose(len(enabled), false, false)]
	}
	s.cur = n
	wakeup(n)
}

// GoDaemon starts an environment thread (timer): the execution ends when all
// ordinary threads have finished, whether or not daemons have.
//
//go:norace
func GoDaemon(name string, f func()) {
	s := cur
	if s == nil {
		go f()
		return
	}
	s.spawn(name, f, true)
}

// Now is a stamp for "this instant" of the running thread: right after its
// last visible operation.
//
//go:norace
func Now() int {
	s := cur
	if s == nil {
		return 0
	}
	return s.cur.lastOp + 1
}

// NoBlock declares that the running thread must not be disabled until NoBlock("") (used
// around Try* calls and around acquisitions that nothing may delay). A violation is
// reported in Exec.NoBlockViolated.
//
//go:norace
func NoBlock(what string) {
	if s := cur; s != nil {
		s.cur.noBlock = what
	}
}

// othersStable reports whether every thread other than x is finished, disabled, or parked
// at a harness-level point (Kind "h.*"): none of them is in the middle of a library call
// that will complete on its own. A NoBlock thread that is disabled in such a state is
// blocked by something that is *held*, not by a short internal critical section.
//
//go:norace
func (s *Sched) othersStable(x *Thread) bool {
	for _, y := range s.threads {
		if y == x || y.done || y.pend == nil {
			continue
		}
		k := y.pend.Kind
		if len(k) >= 2 && k[0] == 'h' && k[1] == '.' {
			continue
		}
		if !s.isReady(y) {
			continue
		}
		return false
	}
	return true
}

// LiveGo returns the number of goroutines spawned by the code under test (rewritten `go`
// statements) that have not finished yet.
//
//go:norace
func LiveGo() int {
	s := cur
	if s == nil {
		return 0
	}
	n := 0
	for _, t := range s.threads {
		if !t.done && !t.daemon && t.Name == "go" {
			n++
		}
	}
	return n
}
