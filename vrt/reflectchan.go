package vrt

import (
	"reflect"
	"unsafe"
)

// Channel operations made through package reflect (reflect.Select, Value.Send/Recv/TrySend/TryRecv/
// Close) are rewritten into the helpers below: they build the same model cases as the generic helpers
// in chan.go, so a library that drives its channels through reflect is explored like any other.

//go:norace
func reflectCase(ch reflect.Value, send bool, v reflect.Value) (*chanCase, *reflect.Value, *bool) {
	p := ch.UnsafePointer()
	c := &chanCase{send: send, id: uintptr(p), ptr: p, capN: ch.Cap()}
	c.lenf = ch.Len
	elem := ch.Type().Elem()
	got, ok := new(reflect.Value), new(bool)
	if send {
		c.trySend = func() bool { return ch.TrySend(v) }
		c.val = func() any { return v.Interface() }
		return c, nil, nil
	}
	*got = reflect.Zero(elem)
	c.tryRecv = func() bool {
		x, o := ch.TryRecv()
		if !x.IsValid() {
			return false // would block
		}
		*got, *ok = x, o
		return true
	}
	c.deliver = func(x any, o bool) {
		*ok = o
		*got = reflect.Zero(elem)
		if o && x != nil {
			nv := reflect.New(elem).Elem()
			nv.Set(reflect.ValueOf(x))
			*got = nv
		}
	}
	return c, got, ok
}

// ReflectSelect is the rewritten reflect.Select.
//
//go:norace
func ReflectSelect(cases []reflect.SelectCase) (int, reflect.Value, bool) {
	if cur == nil {
		return reflect.Select(cases)
	}
	if len(cases) > 65536 {
		panic("reflect.Select: too many cases (max 65536)")
	}
	var cs []*chanCase
	var idx []int
	var gots []*reflect.Value
	var oks []*bool
	def := -1
	for i, rc := range cases {
		switch rc.Dir {
		case reflect.SelectDefault:
			def = i
		case reflect.SelectSend, reflect.SelectRecv:
			if !rc.Chan.IsValid() || rc.Chan.IsNil() {
				continue // a nil channel is never ready
			}
			c, g, o := reflectCase(rc.Chan, rc.Dir == reflect.SelectSend, rc.Send)
			cs, idx, gots, oks = append(cs, c), append(idx, i), append(gots, g), append(oks, o)
		default:
			panic("reflect.Select: invalid Dir")
		}
	}
	if len(cs) == 0 {
		if def >= 0 {
			return def, reflect.Value{}, false
		}
		PointOp(&Op{Kind: "select{}", Ready: func() bool { return false }}) // blocks for ever
	}
	k := runChanOp(&chanOp{cases: cs, hasDefault: def >= 0})
	if k < 0 {
		return def, reflect.Value{}, false
	}
	if cs[k].send {
		return idx[k], reflect.Value{}, false
	}
	return idx[k], *gots[k], *oks[k]
}

// ReflectSend is the rewritten reflect.Value.Send.
//
//go:norace
func ReflectSend(ch, v reflect.Value) {
	if cur == nil {
		ch.Send(v)
		return
	}
	if ch.IsNil() {
		PointOp(&Op{Kind: "chan.send(nil)", Ready: func() bool { return false }})
	}
	c, _, _ := reflectCase(ch, true, v)
	runChanOp(&chanOp{cases: []*chanCase{c}})
}

// ReflectRecv is the rewritten reflect.Value.Recv.
//
//go:norace
func ReflectRecv(ch reflect.Value) (reflect.Value, bool) {
	if cur == nil {
		return ch.Recv()
	}
	if ch.IsNil() {
		PointOp(&Op{Kind: "chan.recv(nil)", Ready: func() bool { return false }})
	}
	c, g, o := reflectCase(ch, false, reflect.Value{})
	runChanOp(&chanOp{cases: []*chanCase{c}})
	return *g, *o
}

// ReflectTrySend is the rewritten reflect.Value.TrySend.
//
//go:norace
func ReflectTrySend(ch, v reflect.Value) bool {
	if cur == nil {
		return ch.TrySend(v)
	}
	if ch.IsNil() {
		return false
	}
	c, _, _ := reflectCase(ch, true, v)
	return runChanOp(&chanOp{cases: []*chanCase{c}, hasDefault: true}) >= 0
}

// ReflectTryRecv is the rewritten reflect.Value.TryRecv: (zero Value, false) when it would block.
//
//go:norace
func ReflectTryRecv(ch reflect.Value) (reflect.Value, bool) {
	if cur == nil {
		return ch.TryRecv()
	}
	if ch.IsNil() {
		return reflect.Value{}, false
	}
	c, g, o := reflectCase(ch, false, reflect.Value{})
	if runChanOp(&chanOp{cases: []*chanCase{c}, hasDefault: true}) < 0 {
		return reflect.Value{}, false
	}
	return *g, *o
}

// ReflectClose is the rewritten reflect.Value.Close.
//
//go:norace
func ReflectClose(ch reflect.Value) {
	if cur == nil && !inSetup {
		ch.Close()
		return
	}
	p := ch.UnsafePointer()
	if cur != nil {
		PointOp(&Op{Kind: "chan.close", Obj: p, Write: true})
	}
	id := uintptr(p)
	if id == 0 {
		panic("close of nil channel")
	}
	if isClosed(id) {
		panic("close of closed channel")
	}
	closedChans = append(closedChans, id)
	closedKeep = append(closedKeep, unsafe.Pointer(p))
	raceReleaseAddr(p)
	ch.Close()
}
