package vrt

// stateCache is an open-addressing hash table from state key to the fewest
// preemptions with which the state was reached. It is consulted from model
// threads, so it must not be a Go map: map operations are instrumented inside
// the runtime and would show up as races between the hidden baton hand-offs.
type stateCache struct {
	keys []uint64
	vals []int32
	n    int
}

//go:norace
func newStateCache() *stateCache {
	return &stateCache{keys: make([]uint64, 1<<12), vals: make([]int32, 1<<12)}
}

//go:norace
func (c *stateCache) slot(keys []uint64, k uint64) int {
	mask := uint64(len(keys) - 1)
	i := (k * 0x9e3779b97f4a7c15) >> 20 & mask
	for keys[i] != 0 && keys[i] != k {
		i = (i + 1) & mask
	}
	return int(i)
}

// visit returns false when the state was already reached with at most `used` preemptions.
//
//go:norace
func (c *stateCache) visit(k uint64, used int) bool {
	if k == 0 {
		k = 1
	}
	i := c.slot(c.keys, k)
	if c.keys[i] == k {
		if int(c.vals[i]) <= used {
			return false
		}
		c.vals[i] = int32(used)
		return true
	}
	c.keys[i], c.vals[i] = k, int32(used)
	c.n++
	if c.n*2 > len(c.keys) {
		nk, nv := make([]uint64, len(c.keys)*2), make([]int32, len(c.keys)*2)
		for j, key := range c.keys {
			if key != 0 {
				s := c.slot(nk, key)
				nk[s], nv[s] = key, c.vals[j]
			}
		}
		c.keys, c.vals = nk, nv
	}
	return true
}
