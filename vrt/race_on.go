//go:build race

package vrt

import (
	"reflect"
	"runtime"
	"unsafe"
)

const RaceEnabled = true

var joinTok int

//go:norace
func raceOff() { runtime.RaceDisable() }

//go:norace
func raceOn() { runtime.RaceEnable() }

func raceErrors() int { return runtime.RaceErrors() }

// raceJoin declares the join edge from every model thread to the driver.
//
//go:norace
func raceJoin() { runtime.RaceAcquire(unsafe.Pointer(&joinTok)) }

//go:norace
func raceGo(f func()) {
	go func() {
		defer runtime.RaceReleaseMerge(unsafe.Pointer(&joinTok))
		f()
	}()
}

// RaceRelease / RaceAcquire declare a happens-before edge that the model
// provides in place of a real primitive (rendezvous hand-over, pool items).
//
//go:norace
func RaceRelease(p any) { runtime.RaceReleaseMerge(unsafe.Pointer(reflect.ValueOf(p).Pointer())) }

//go:norace
func RaceAcquire(p any) { runtime.RaceAcquire(unsafe.Pointer(reflect.ValueOf(p).Pointer())) }

//go:norace
func raceReleaseAddr(p unsafe.Pointer) { runtime.RaceReleaseMerge(p) }

//go:norace
func raceAcquireAddr(p unsafe.Pointer) { runtime.RaceAcquire(p) }
