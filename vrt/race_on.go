//go:build race

package vrt

import (
	"reflect"
	"runtime"
	"unsafe"
)

const RaceEnabled = true

var joinTok int

//go:norace
func raceOff() { runtime.RaceDisable() }

//go:norace
func raceOn() { runtime.RaceEnable() }

func raceErrors() int { return runtime.RaceErrors() }

// raceJoin declares the join edge from every model thread to the driver.
//
//go:norace
func raceJoin() { runtime.RaceAcquire(unsafe.Pointer(&joinTok)) }

// raceGo runs f on a pooled goroutine. Under the race detector every goroutine ever created
// costs memory that is not given back (several KB each; a long exploration creates hundreds
// of millions), so model threads are run by a fixed pool of worker goroutines. The hand-over
// to a worker is hidden from the detector and replaced by the edge a `go` statement has:
// everything the spawner did happens-before the thread's first step.
//
//go:norace
func raceGo(f func()) {
	var w *poolWorker
	runtime.RaceDisable()
	poolMu <- struct{}{}
	if n := len(idle); n > 0 {
		w = idle[n-1]
		idle = idle[:n-1]
	}
	<-poolMu
	runtime.RaceEnable()
	if w == nil {
		w = &poolWorker{work: make(chan func(), 1)}
		go w.loop()
	}
	runtime.RaceReleaseMerge(unsafe.Pointer(&w.tok))
	runtime.RaceDisable()
	w.work <- f
	runtime.RaceEnable()
}

type poolWorker struct {
	work chan func()
	tok  int
}

// idle is only touched while no two model threads run (spawn happens on the running thread,
// return to the pool under poolMu).
var (
	idle   []*poolWorker
	poolMu chan struct{} = make(chan struct{}, 1)
)

// run executes one model thread; if it leaves through runtime.Goexit the worker goroutine dies
// with it (the pool simply creates another one later), the join edge is still declared.
//
//go:norace
func (w *poolWorker) run(f func()) {
	defer runtime.RaceReleaseMerge(unsafe.Pointer(&joinTok))
	f()
}

//go:norace
func (w *poolWorker) loop() {
	for {
		runtime.RaceDisable()
		f := <-w.work
		runtime.RaceEnable()
		runtime.RaceAcquire(unsafe.Pointer(&w.tok))
		w.run(f)
		runtime.RaceDisable()
		poolMu <- struct{}{}
		idle = append(idle, w)
		<-poolMu
		runtime.RaceEnable()
	}
}

// RaceRelease / RaceAcquire declare a happens-before edge that the model
// provides in place of a real primitive (rendezvous hand-over, pool items).
//
//go:norace
func RaceRelease(p any) { runtime.RaceReleaseMerge(unsafe.Pointer(reflect.ValueOf(p).Pointer())) }

//go:norace
func RaceAcquire(p any) { runtime.RaceAcquire(unsafe.Pointer(reflect.ValueOf(p).Pointer())) }

//go:norace
func raceReleaseAddr(p unsafe.Pointer) { runtime.RaceReleaseMerge(p) }

//go:norace
func raceAcquireAddr(p unsafe.Pointer) { runtime.RaceAcquire(p) }
