package vrt

import (
	"reflect"
	"unsafe"
)

// Channel operations of the code under test are rewritten into calls of the
// generic helpers below. A buffered channel keeps using the real channel as
// its buffer (so len/cap are right and the race detector sees the real channel
// synchronisation); an unbuffered rendezvous hands the value over through the
// model. The model decides *when* an operation may run: a send is enabled iff
// the channel is closed (it will panic), has buffer space, or (unbuffered) a
// receiver is parked on it; a receive iff the buffer is non-empty, the channel
// is closed, or (unbuffered) a sender is parked on it. Select offers every
// ready case as a separate data choice and takes default only when none is.

type chanCase struct {
	id      uintptr
	ptr     unsafe.Pointer
	send    bool
	capN    int
	lenf    func() int
	trySend func() bool
	tryRecv func() bool
	val     func() any
	deliver func(v any, ok bool)
	rch     reflect.Value
	rval    reflect.Value
}

// Case is one case of a rewritten select statement.
type Case interface{ theCase() *chanCase }

func (c *chanCase) theCase() *chanCase { return c }

// RecvC is a receive case carrying the received value.
type RecvC[V any] struct {
	c   *chanCase
	Val V
	Ok  bool
}

func (r *RecvC[V]) theCase() *chanCase { return r.c }

type chanOp struct {
	cases      []*chanCase
	hasDefault bool
}

type chanModel struct {
	id     uintptr
	closed bool
}

// closedChans remembers channels closed in pass-through mode (set-up phase) of the
// current execution; reset by Run.
var closedChans []uintptr

// closedKeep keeps the registered channels reachable, so that their addresses cannot be reused
// by another channel while they are in the registry.
var closedKeep []unsafe.Pointer

// inSetup is true while Run executes the scenario body (pass-through set-up of one execution).
var inSetup bool

//go:norace
func chanID[C any](ch C) uintptr { return *(*uintptr)(unsafe.Pointer(&ch)) }

//go:norace
func chanPtr[C any](ch C) unsafe.Pointer { return *(*unsafe.Pointer)(unsafe.Pointer(&ch)) }

//go:norace
func isClosed(id uintptr) bool {
	for _, c := range closedChans {
		if c == id {
			return true
		}
	}
	return false
}

//go:norace
func SendCase[C ~chan V | ~chan<- V, V any](ch C, v V) Case {
	c := &chanCase{send: true, id: chanID(ch), ptr: chanPtr(ch), capN: cap(ch)}
	c.lenf = func() int { return len(ch) }
	c.trySend = func() bool {
		select {
		case ch <- v:
			return true
		default:
			return false
		}
	}
	c.val = func() any { return v }
	if cur == nil {
		c.rch, c.rval = reflect.ValueOf(ch), reflect.ValueOf(&v).Elem()
	}
	return c
}

//go:norace
func RecvCase[C ~chan V | ~<-chan V, V any](ch C) *RecvC[V] {
	r := &RecvC[V]{}
	c := &chanCase{id: chanID(ch), ptr: chanPtr(ch), capN: cap(ch)}
	c.lenf = func() int { return len(ch) }
	c.tryRecv = func() bool {
		select {
		case v, ok := <-ch:
			r.Val, r.Ok = v, ok
			return true
		default:
			return false
		}
	}
	c.deliver = func(v any, ok bool) {
		r.Ok = ok
		if ok && v != nil {
			r.Val = v.(V)
		}
	}
	if cur == nil {
		c.rch = reflect.ValueOf(ch)
	}
	r.c = c
	return r
}

//go:norace
func Send[C ~chan V | ~chan<- V, V any](ch C, v V) {
	if cur == nil {
		ch <- v
		return
	}
	runChanOp(&chanOp{cases: []*chanCase{SendCase(ch, v).theCase()}})
}

//go:norace
func Recv[C ~chan V | ~<-chan V, V any](ch C) V {
	if cur == nil {
		return <-ch
	}
	r := RecvCase(ch)
	runChanOp(&chanOp{cases: []*chanCase{r.c}})
	return r.Val
}

//go:norace
func Recv2[C ~chan V | ~<-chan V, V any](ch C) (V, bool) {
	if cur == nil {
		v, ok := <-ch
		return v, ok
	}
	r := RecvCase(ch)
	runChanOp(&chanOp{cases: []*chanCase{r.c}})
	return r.Val, r.Ok
}

// Close is the rewritten close(ch).
//
//go:norace
func Close[C ~chan V | ~chan<- V, V any](ch C) {
	id := chanID(ch)
	if cur != nil {
		PointOp(&Op{Kind: "chan.close", Obj: chanPtr(ch), Write: true})
	}
	if cur == nil && !inSetup {
		close(ch) // plain pass-through outside any execution: no registry
		return
	}
	if id == 0 {
		panic("close of nil channel")
	}
	if isClosed(id) {
		panic("close of closed channel")
	}
	closedChans = append(closedChans, id)
	closedKeep = append(closedKeep, chanPtr(ch))
	// close happens-before a receive that observes the closed channel: receives on a closed UNBUFFERED
	// channel are answered by the model without touching the real channel, so the edge is made explicit
	// (on the same address the model's receive acquires)
	raceReleaseAddr(chanPtr(ch))
	close(ch)
}

// Select is the rewritten select statement; it returns the index of the case
// taken, or -1 for default.
//
//go:norace
func Select(hasDefault bool, cases ...Case) int {
	cs := make([]*chanCase, len(cases))
	for i, c := range cases {
		cs[i] = c.theCase()
	}
	if cur == nil {
		return realSelect(hasDefault, cs)
	}
	return runChanOp(&chanOp{cases: cs, hasDefault: hasDefault})
}

// realSelect is the pass-through (uncontrolled) select.
func realSelect(hasDefault bool, cs []*chanCase) int {
	var rc []reflect.SelectCase
	for _, c := range cs {
		if c.send {
			rc = append(rc, reflect.SelectCase{Dir: reflect.SelectSend, Chan: c.rch, Send: c.rval})
		} else {
			rc = append(rc, reflect.SelectCase{Dir: reflect.SelectRecv, Chan: c.rch})
		}
	}
	if hasDefault {
		rc = append(rc, reflect.SelectCase{Dir: reflect.SelectDefault})
	}
	i, v, ok := reflect.Select(rc)
	if hasDefault && i == len(cs) {
		return -1
	}
	if !cs[i].send {
		if ok {
			cs[i].deliver(v.Interface(), true)
		} else {
			cs[i].deliver(nil, false)
		}
	}
	return i
}

// partner finds a parked thread other than t with a case of the opposite
// direction on channel id.
//
//go:norace
func (s *Sched) partner(t *Thread, id uintptr, wantSend bool, nth int) (*Thread, int) {
	for _, u := range s.threads {
		if u == t || u.done || u.handed || u.pend == nil || u.pend.ch == nil {
			continue
		}
		for j, c := range u.pend.ch.cases {
			if c.id == id && c.send == wantSend {
				if nth == 0 {
					return u, j
				}
				nth--
				break
			}
		}
	}
	return nil, -1
}

//go:norace
func (s *Sched) caseReady(t *Thread, c *chanCase) bool {
	if c.id == 0 {
		return false
	}
	if isClosed(c.id) {
		return true
	}
	if c.send {
		if c.capN > 0 {
			return c.lenf() < c.capN
		}
		u, _ := s.partner(t, c.id, false, 0)
		return u != nil
	}
	if c.capN > 0 {
		return c.lenf() > 0
	}
	u, _ := s.partner(t, c.id, true, 0)
	return u != nil
}

//go:norace
func (s *Sched) chanReady(t *Thread) bool {
	op := t.pend.ch
	if op.hasDefault {
		return true
	}
	for _, c := range op.cases {
		if s.caseReady(t, c) {
			return true
		}
	}
	return false
}

// runChanOp parks at the operation and performs it once scheduled.
//
//go:norace
func runChanOp(op *chanOp) int {
	s := cur
	if s.aborting {
		panic(abortSentinel) // see PointOp
	}
	t := s.cur
	kind := "chan.select"
	if len(op.cases) == 1 && !op.hasDefault {
		if op.cases[0].send {
			kind = "chan.send"
		} else {
			kind = "chan.recv"
		}
	}
	// everything this thread did so far happens-before whatever a rendezvous partner does next
	for _, c := range op.cases {
		if c.id != 0 && c.capN == 0 {
			raceReleaseAddr(c.ptr)
		}
	}
	t.pend = &Op{Kind: kind, ch: op}
	s.switchFrom(t)
	t.pend = nil
	if t.handed {
		// a partner completed this operation for us
		t.handed = false
		c := op.cases[t.hcase]
		raceAcquireAddr(c.ptr)
		if !c.send {
			c.deliver(t.hval, t.hok)
		}
		t.hval = nil
		s.executed(t, &Op{Kind: kind + ".done", Obj: c.ptr, Write: true})
		return t.hcase
	}
	var readyIdx [8]int
	ready := readyIdx[:0]
	for i, c := range op.cases {
		if s.caseReady(t, c) {
			ready = append(ready, i)
		}
	}
	if len(ready) == 0 {
		if !op.hasDefault {
			panic("vrt: channel operation scheduled while not ready")
		}
		s.executed(t, &Op{Kind: kind + ".default", Obj: op.cases[0].ptr, Write: false})
		return -1
	}
	k := ready[0]
	if len(ready) > 1 {
		k = ready[s.choose(len(ready), false, true)]
	}
	c := op.cases[k]
	s.executed(t, &Op{Kind: kind, Obj: c.ptr, Write: true})
	closed := isClosed(c.id)
	if c.send {
		if closed {
			panic("send on closed channel")
		}
		if c.capN > 0 {
			if !c.trySend() {
				panic("vrt: model/real divergence: buffered send would block")
			}
			s.sent(c.id)
			return k
		}
		// rendezvous: choose the receiver
		n := 0
		for {
			if u, _ := s.partner(t, c.id, false, n); u == nil {
				break
			}
			n++
		}
		u, j := s.partner(t, c.id, false, s.pick(n))
		u.handed, u.hcase, u.hval, u.hok = true, j, c.val(), true
		s.sent(c.id)
		s.sync(t, u)
		raceAcquireAddr(c.ptr)
		raceReleaseAddr(c.ptr)
		return k
	}
	// receive
	if c.capN > 0 {
		if c.lenf() > 0 || closed {
			if !c.tryRecv() {
				panic("vrt: model/real divergence: buffered receive would block")
			}
			return k
		}
		panic("vrt: buffered receive scheduled on an empty open channel")
	}
	if closed {
		// closed unbuffered channel: zero value, ok=false (senders parked on it panic on their own)
		c.deliver(nil, false)
		raceAcquireAddr(c.ptr)
		return k
	}
	n := 0
	for {
		if u, _ := s.partner(t, c.id, true, n); u == nil {
			break
		}
		n++
	}
	if n == 0 {
		c.deliver(nil, false)
		return k
	}
	u, j := s.partner(t, c.id, true, s.pick(n))
	c.deliver(u.pend.ch.cases[j].val(), true)
	u.handed, u.hcase = true, j
	s.sent(c.id)
	s.sync(t, u)
	raceAcquireAddr(c.ptr)
	raceReleaseAddr(c.ptr)
	return k
}

//go:norace
func (s *Sched) pick(n int) int {
	if n <= 1 {
		return 0
	}
	return s.choose(n, false, true)
}

// sync makes a rendezvous a two-way happens-before edge in the history hashes.
//
//go:norace
func (s *Sched) sync(a, b *Thread) {
	ha, hb := a.hash, b.hash
	a.hash = mix(ha, mix(hb, 0x51))
	b.hash = mix(hb, mix(ha, 0x52))
}

type sendCount struct {
	id uintptr
	n  int
}

// (a slice, not a map: the runtime's map functions carry their own race instrumentation)
//
//go:norace
func (s *Sched) sent(id uintptr) {
	for i := range s.sends {
		if s.sends[i].id == id {
			s.sends[i].n++
			return
		}
	}
	if len(s.sends) == cap(s.sends) {
		n := make([]sendCount, len(s.sends), 2*cap(s.sends)+16)
		for i := range s.sends {
			n[i] = s.sends[i]
		}
		s.sends = n
	}
	s.sends = s.sends[:len(s.sends)+1]
	s.sends[len(s.sends)-1] = sendCount{id, 1}
}

// SendsDone returns how many send operations on ch have completed in the current execution (into the
// buffer, or handed to a receiver - whether or not that receiver has run since). Harness oracles use it
// to ask "has this hand-off finished" without looking at goroutines.
//
//go:norace
func SendsDone[C ~chan V | ~chan<- V | ~<-chan V, V any](ch C) int {
	if cur == nil {
		return 0
	}
	id := chanID(ch)
	for i := range cur.sends {
		if cur.sends[i].id == id {
			return cur.sends[i].n
		}
	}
	return 0
}
