package vrt

import (
	"fmt"
	"reflect"
	"sort"
)

// SortedKeys returns the keys of a map in a deterministic order: the rewrite of
// `for k, v := range m` iterates over it (any order is allowed by the language,
// so this is a valid refinement that makes schedules replayable).
func SortedKeys[M ~map[K]V, K comparable, V any](m M) []K {
	keys := make([]K, 0, len(m))
	for k := range m {
		keys = append(keys, k)
	}
	if len(keys) < 2 {
		return keys
	}
	switch reflect.TypeOf(keys[0]).Kind() {
	case reflect.Int, reflect.Int8, reflect.Int16, reflect.Int32, reflect.Int64:
		sort.Slice(keys, func(i, j int) bool { return reflect.ValueOf(keys[i]).Int() < reflect.ValueOf(keys[j]).Int() })
	case reflect.String:
		sort.Slice(keys, func(i, j int) bool { return reflect.ValueOf(keys[i]).String() < reflect.ValueOf(keys[j]).String() })
	default:
		sort.Slice(keys, func(i, j int) bool { return fmt.Sprint(keys[i]) < fmt.Sprint(keys[j]) })
	}
	return keys
}
