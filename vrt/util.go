package vrt

import (
	"fmt"
	"hash/maphash"
	"reflect"
	"runtime"
	"sort"
	"unsafe"
)

// SortedKeys returns the keys of a map in a deterministic order: the rewrite of
// `for k, v := range m` iterates over it (any order is allowed by the language,
// so this is a valid refinement that makes schedules replayable).
func SortedKeys[M ~map[K]V, K comparable, V any](m M) []K {
	keys := make([]K, 0, len(m))
	for k := range m {
		keys = append(keys, k)
	}
	if len(keys) < 2 {
		return keys
	}
	switch reflect.TypeOf(keys[0]).Kind() {
	case reflect.Int, reflect.Int8, reflect.Int16, reflect.Int32, reflect.Int64:
		sort.Slice(keys, func(i, j int) bool { return reflect.ValueOf(keys[i]).Int() < reflect.ValueOf(keys[j]).Int() })
	case reflect.String:
		sort.Slice(keys, func(i, j int) bool { return reflect.ValueOf(keys[i]).String() < reflect.ValueOf(keys[j]).String() })
	case reflect.Chan, reflect.Ptr, reflect.UnsafePointer:
		// identity keys: addresses differ from execution to execution, creation numbers do not (the
		// rewriter wraps every &T{...}, new(T) and make(chan ...) of the code under test in Note)
		rank := map[unsafe.Pointer]int{}
		for i, p := range notedList() {
			if _, ok := rank[p]; !ok {
				rank[p] = i + 1
			}
		}
		at := func(k K) (int, uintptr) {
			p := *(*unsafe.Pointer)(unsafe.Pointer(&k))
			if r, ok := rank[p]; ok {
				return r, 0
			}
			return 1 << 62, uintptr(p) // not created by rewritten code: after the others, by address
		}
		sort.Slice(keys, func(i, j int) bool {
			ri, ai := at(keys[i])
			rj, aj := at(keys[j])
			if ri != rj {
				return ri < rj
			}
			return ai < aj
		})
	default:
		sort.Slice(keys, func(i, j int) bool { return fmt.Sprint(keys[i]) < fmt.Sprint(keys[j]) })
	}
	return keys
}

// noted: the objects created by rewritten code during the current execution, in creation order.
var notedSetup []unsafe.Pointer

//go:norace
func notedList() []unsafe.Pointer {
	if cur != nil {
		return cur.noted
	}
	return notedSetup
}

// NoteObj is wrapped around every &T{...}, new(T) and make(chan ...) of the code under test: it gives the
// new object a creation number, which is the same in every execution of one schedule (its address is
// not). P is always pointer-shaped.
//
//go:norace
func NoteObj[P any](p P) P {
	if cur != nil || inSetup {
		ptr := *(*unsafe.Pointer)(unsafe.Pointer(&p))
		if cur != nil {
			cur.noted = pushPtr(cur.noted, ptr)
		} else {
			notedSetup = pushPtr(notedSetup, ptr)
		}
	}
	return p
}

// pushPtr is append without runtime.growslice (which carries its own race instrumentation and would
// report the bookkeeping of the scheduler as a race of the code under test).
//
//go:norace
func pushPtr(x []unsafe.Pointer, p unsafe.Pointer) []unsafe.Pointer {
	if len(x) == cap(x) {
		n := make([]unsafe.Pointer, len(x), 2*cap(x)+64)
		for i := range x {
			n[i] = x[i]
		}
		x = n
	}
	x = x[:len(x)+1]
	x[len(x)-1] = p
	return x
}

// SetFinalizer is the rewritten runtime.SetFinalizer: outside executions the real one, inside an
// execution nothing (the finalizer never runs - which the language allows - instead of running on a
// goroutine the scheduler does not control).
func SetFinalizer(obj, finalizer any) {
	if cur == nil && !inSetup {
		runtime.SetFinalizer(obj, finalizer)
	}
}

// SortAny orders a list of keys of arbitrary dynamic types deterministically (the order sync.Map.Range
// uses under the scheduler): by dynamic type name, then integers and strings by value, object identities
// (channels, pointers) by creation number (see NoteObj), everything else by its printed form.
func SortAny(keys []any) {
	rank := map[unsafe.Pointer]int{}
	for i, p := range notedList() {
		if _, ok := rank[p]; !ok {
			rank[p] = i + 1
		}
	}
	type sk struct {
		typ  string
		kind int
		i    int64
		s    string
	}
	key := func(k any) sk {
		if k == nil {
			return sk{}
		}
		v := reflect.ValueOf(k)
		out := sk{typ: v.Type().String()}
		switch v.Kind() {
		case reflect.Int, reflect.Int8, reflect.Int16, reflect.Int32, reflect.Int64:
			out.kind, out.i = 1, v.Int()
		case reflect.Uint, reflect.Uint8, reflect.Uint16, reflect.Uint32, reflect.Uint64, reflect.Uintptr:
			out.kind, out.i = 1, int64(v.Uint())
		case reflect.String:
			out.kind, out.s = 2, v.String()
		case reflect.Chan, reflect.Ptr, reflect.UnsafePointer:
			p := v.UnsafePointer()
			if r, ok := rank[p]; ok {
				out.kind, out.i = 3, int64(r)
			} else {
				out.kind, out.i = 4, int64(uintptr(p))
			}
		default:
			out.kind, out.s = 5, fmt.Sprint(k)
		}
		return out
	}
	ks := make([]sk, len(keys))
	for i, k := range keys {
		ks[i] = key(k)
	}
	idx := make([]int, len(keys))
	for i := range idx {
		idx[i] = i
	}
	sort.SliceStable(idx, func(a, b int) bool {
		x, y := ks[idx[a]], ks[idx[b]]
		if x.typ != y.typ {
			return x.typ < y.typ
		}
		if x.kind != y.kind {
			return x.kind < y.kind
		}
		if x.i != y.i {
			return x.i < y.i
		}
		return x.s < y.s
	})
	out := make([]any, len(keys))
	for i, j := range idx {
		out[i] = keys[j]
	}
	copy(keys, out)
}

// MakeSeed is the rewritten maphash.MakeSeed: one seed per process (package-level initialisers are
// re-run before every execution; a fresh random seed each time would make schedules unrepeatable, and
// code cannot rely on two seeds being different).
func MakeSeed() maphash.Seed { return processSeed }

var processSeed = maphash.MakeSeed()
