package vrt

import (
	"fmt"
	"reflect"
	"runtime"
	"sort"
	"unsafe"
)

// SortedKeys returns the keys of a map in a deterministic order: the rewrite of
// `for k, v := range m` iterates over it (any order is allowed by the language,
// so this is a valid refinement that makes schedules replayable).
func SortedKeys[M ~map[K]V, K comparable, V any](m M) []K {
	keys := make([]K, 0, len(m))
	for k := range m {
		keys = append(keys, k)
	}
	if len(keys) < 2 {
		return keys
	}
	switch reflect.TypeOf(keys[0]).Kind() {
	case reflect.Int, reflect.Int8, reflect.Int16, reflect.Int32, reflect.Int64:
		sort.Slice(keys, func(i, j int) bool { return reflect.ValueOf(keys[i]).Int() < reflect.ValueOf(keys[j]).Int() })
	case reflect.String:
		sort.Slice(keys, func(i, j int) bool { return reflect.ValueOf(keys[i]).String() < reflect.ValueOf(keys[j]).String() })
	case reflect.Chan, reflect.Ptr, reflect.UnsafePointer:
		// identity keys: addresses differ from execution to execution, creation numbers do not (the
		// rewriter wraps every &T{...}, new(T) and make(chan ...) of the code under test in Note)
		rank := map[unsafe.Pointer]int{}
		for i, p := range notedList() {
			if _, ok := rank[p]; !ok {
				rank[p] = i + 1
			}
		}
		at := func(k K) (int, uintptr) {
			p := *(*unsafe.Pointer)(unsafe.Pointer(&k))
			if r, ok := rank[p]; ok {
				return r, 0
			}
			return 1 << 62, uintptr(p) // not created by rewritten code: after the others, by address
		}
		sort.Slice(keys, func(i, j int) bool {
			ri, ai := at(keys[i])
			rj, aj := at(keys[j])
			if ri != rj {
				return ri < rj
			}
			return ai < aj
		})
	default:
		sort.Slice(keys, func(i, j int) bool { return fmt.Sprint(keys[i]) < fmt.Sprint(keys[j]) })
	}
	return keys
}

// noted: the objects created by rewritten code during the current execution, in creation order.
var notedSetup []unsafe.Pointer

//go:norace
func notedList() []unsafe.Pointer {
	if cur != nil {
		return cur.noted
	}
	return notedSetup
}

// NoteObj is wrapped around every &T{...}, new(T) and make(chan ...) of the code under test: it gives the
// new object a creation number, which is the same in every execution of one schedule (its address is
// not). P is always pointer-shaped.
//
//go:norace
func NoteObj[P any](p P) P {
	if cur != nil || inSetup {
		ptr := *(*unsafe.Pointer)(unsafe.Pointer(&p))
		if cur != nil {
			cur.noted = pushPtr(cur.noted, ptr)
		} else {
			notedSetup = pushPtr(notedSetup, ptr)
		}
	}
	return p
}

// pushPtr is append without runtime.growslice (which carries its own race instrumentation and would
// report the bookkeeping of the scheduler as a race of the code under test).
//
//go:norace
func pushPtr(x []unsafe.Pointer, p unsafe.Pointer) []unsafe.Pointer {
	if len(x) == cap(x) {
		n := make([]unsafe.Pointer, len(x), 2*cap(x)+64)
		for i := range x {
			n[i] = x[i]
		}
		x = n
	}
	x = x[:len(x)+1]
	x[len(x)-1] = p
	return x
}

// SetFinalizer is the rewritten runtime.SetFinalizer: outside executions the real one, inside an
// execution nothing (the finalizer never runs - which the language allows - instead of running on a
// goroutine the scheduler does not control).
func SetFinalizer(obj, finalizer any) {
	if cur == nil && !inSetup {
		runtime.SetFinalizer(obj, finalizer)
	}
}
