package vrt

// Explorer: stateless depth-first enumeration of schedules with iterative
// preemption bounding and happens-before state caching.
//
// A run replays a prefix of choices (an out-of-range choice fails loudly) and
// then takes choice 0 at every later point; alternative 0 is "keep running the
// current thread" whenever that thread is still enabled, so deviating from it
// is a preemption. Forced switches (thread blocked or finished) and data
// choices (which ready select case, pool hit or miss) are free.
//
// Caching: every state reached past the replayed prefix is keyed by the vector
// of per-thread happens-before hashes (plus the running thread). Two prefixes
// with the same key are Mazurkiewicz-equivalent executions with the same
// real-time order of API calls, so they lead to the same state and the same
// history; the second is cut unless it arrives with fewer preemptions used.

type Options struct {
	MaxBound int  // preemption bounds 0..MaxBound are completed in turn; <0 = no bound (single pass)
	Cache    bool // happens-before state caching
	Stop     func() bool
	// Abort is polled every few thousand steps INSIDE an execution: when it returns true the execution is
	// abandoned and the exploration ends as capped (one execution of a scenario with thousands of threads
	// can take longer than the whole budget when the code under test is changed).
	Abort func() bool
	// StopEvery: how often (in executions) Stop is polled; 0 = every 256.
	StopEvery int64
	MaxSteps  int
	Delay     bool // delay bounding instead of preemption bounding (see RunConfig.Delay)
}

type Stats struct {
	Executions     int64 // executions run (including those cut by the cache)
	Complete       int64 // executions that ran to completion and were checked
	Cut            int64
	BoundCompleted int // highest bound completed (-1 = none); meaningful when !Unbounded
	Unbounded      bool
	Capped         bool
	Diverged       int64 // executions abandoned because the replayed prefix did not fit
	MaxPoints      int
	States         int64 // distinct cached states in the last pass
}

// Explore runs body under every schedule. check is called on every complete
// execution and returns false to stop (violation).
func Explore(opt Options, body func(s *Sched), check func(x *Exec) bool) Stats {
	st := Stats{BoundCompleted: -1}
	bounds := []int{-1}
	if opt.MaxBound >= 0 {
		bounds = bounds[:0]
		for b := 0; b <= opt.MaxBound; b++ {
			bounds = append(bounds, b)
		}
	}
	for _, b := range bounds {
		var cache *stateCache
		var visit func(uint64, int) bool
		if opt.Cache {
			cache = newStateCache()
			visit = cache.visit
		}
		stack := [][]int{nil}
		for len(stack) > 0 {
			every := opt.StopEvery
			if every <= 0 {
				every = 256
			}
			if opt.Stop != nil && st.Executions%every == 0 && opt.Stop() {
				st.Capped = true
				return st
			}
			prefix := stack[len(stack)-1]
			stack = stack[:len(stack)-1]
			x := Run(RunConfig{Prefix: prefix, Visit: visit, MaxSteps: opt.MaxSteps, Delay: opt.Delay, Abort: opt.Abort}, body)
			if x.TimedOut {
				st.Capped = true
				return st
			}
			if x.Diverged {
				// this branch cannot be replayed: skipped, and the exploration is not called exhaustive
				st.Diverged++
				st.Capped = true
				if st.Diverged > 2000 {
					return st
				}
				continue
			}
			st.Executions++
			if len(x.Points) > st.MaxPoints {
				st.MaxPoints = len(x.Points)
			}
			if x.Pruned {
				st.Cut++
			} else {
				st.Complete++
				if !check(x) {
					st.Capped = true
					return st
				}
			}
			pre := 0
			for i, p := range x.Points {
				if i >= len(prefix) {
					for alt := p.N - 1; alt >= 1; alt-- {
						cost := pre
						if alt >= p.FirstCostly {
							cost++
						}
						if b >= 0 && cost > b {
							continue
						}
						np := make([]int, i+1)
						copy(np, x.Choices[:i])
						np[i] = alt
						stack = append(stack, np)
					}
				}
				if p.Chosen >= p.FirstCostly {
					pre++
				}
			}
		}
		if cache != nil {
			st.States = int64(cache.n)
		}
		if b < 0 {
			st.Unbounded = true
		} else {
			st.BoundCompleted = b
		}
	}
	return st
}
