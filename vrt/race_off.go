//go:build !race

package vrt

import "unsafe"

const RaceEnabled = false

func raceOff()                         {}
func raceOn()                          {}
func raceErrors() int                  { return 0 }
func raceJoin()                        {}
func raceGo(f func())                  { go f() }
func RaceRelease(p any)                {}
func RaceAcquire(p any)                {}
func raceReleaseAddr(p unsafe.Pointer) {}
func raceAcquireAddr(p unsafe.Pointer) {}
