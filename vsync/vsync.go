// Package vsync replaces package sync in the instrumented build. Each object
// embeds the real primitive plus a mirror of its state: a call parks at a
// scheduling point with an enabledness predicate and, once scheduled, performs
// the real operation, which cannot block because the model only schedules
// enabled operations. The model contributes the order; values, memory effects
// and race-detector semantics are those of the real runtime.
package vsync

import (
	"sync"
	"unsafe"

	"verif/vatomic"
	"verif/vrt"
)

type Locker = sync.Locker

// Map is the standard concurrent map with one scheduling point in front of every method (each method
// is atomic, as documented; threads interleave between calls).
type Map struct{ m sync.Map }

//go:norace
func (m *Map) pt(kind string, write bool) {
	if vrt.Running() {
		vrt.PointOp(&vrt.Op{Kind: "sync.Map." + kind, Obj: unsafe.Pointer(m), Write: write})
	}
}
func (m *Map) Load(k any) (any, bool) { m.pt("Load", false); return m.m.Load(k) }
func (m *Map) Store(k, v any)         { m.pt("Store", true); m.m.Store(k, v) }
func (m *Map) LoadOrStore(k, v any) (any, bool) {
	m.pt("LoadOrStore", true)
	return m.m.LoadOrStore(k, v)
}
func (m *Map) LoadAndDelete(k any) (any, bool) {
	m.pt("LoadAndDelete", true)
	return m.m.LoadAndDelete(k)
}
func (m *Map) Delete(k any)              { m.pt("Delete", true); m.m.Delete(k) }
func (m *Map) Swap(k, v any) (any, bool) { m.pt("Swap", true); return m.m.Swap(k, v) }
func (m *Map) CompareAndSwap(k, o, n any) bool {
	m.pt("CompareAndSwap", true)
	return m.m.CompareAndSwap(k, o, n)
}
func (m *Map) CompareAndDelete(k, o any) bool {
	m.pt("CompareAndDelete", true)
	return m.m.CompareAndDelete(k, o)
}
func (m *Map) Clear() { m.pt("Clear", true); m.m.Clear() }

// Range: a point before the walk and before every callback (the walk is not a snapshot).
//
// Under the scheduler the keys present when the walk starts are visited in a deterministic order (the
// real one is random, which would make schedules unrepeatable), each with the value it has when its
// turn comes; keys deleted in the meantime are skipped, keys stored in the meantime are not visited -
// all of which sync.Map.Range allows.
func (m *Map) Range(f func(k, v any) bool) {
	m.pt("Range", false)
	if !vrt.Running() {
		m.m.Range(f)
		return
	}
	var keys []any
	m.m.Range(func(k, _ any) bool { keys = append(keys, k); return true })
	vrt.SortAny(keys)
	for _, k := range keys {
		m.pt("Range.next", false)
		v, ok := m.m.Load(k)
		if !ok {
			continue
		}
		if !f(k, v) {
			return
		}
	}
}

// OnceFunc, OnceValue, OnceValues: the standard definitions over the shimmed Once.
func OnceFunc(f func()) func() {
	var once Once
	var valid bool
	var p any
	g := func() {
		defer func() {
			p = recover()
			if !valid {
				panic(p)
			}
		}()
		f()
		f = nil
		valid = true
	}
	return func() {
		once.Do(g)
		if !valid {
			panic(p)
		}
	}
}

func OnceValue[T any](f func() T) func() T {
	var once Once
	var valid bool
	var p any
	var result T
	g := func() {
		defer func() {
			p = recover()
			if !valid {
				panic(p)
			}
		}()
		result = f()
		f = nil
		valid = true
	}
	return func() T {
		once.Do(g)
		if !valid {
			panic(p)
		}
		return result
	}
}

func OnceValues[T1, T2 any](f func() (T1, T2)) func() (T1, T2) {
	var once Once
	var valid bool
	var p any
	var r1 T1
	var r2 T2
	g := func() {
		defer func() {
			p = recover()
			if !valid {
				panic(p)
			}
		}()
		r1, r2 = f()
		f = nil
		valid = true
	}
	return func() (T1, T2) {
		once.Do(g)
		if !valid {
			panic(p)
		}
		return r1, r2
	}
}

// ------------------------------------------------------------------ Mutex

type Mutex struct {
	real sync.Mutex
	held bool
}

//go:norace
func (m *Mutex) isFree() bool { return !m.held }

//go:norace
func (m *Mutex) Lock() {
	if vrt.Running() {
		vrt.PointOp(&vrt.Op{Kind: "mutex.Lock", Obj: unsafe.Pointer(m), Write: true, Ready: m.isFree})
	}
	if m.held && vrt.Running() {
		panic("vrt: mutex scheduled while held")
	}
	// the real primitive first, the mirror while it is held: outside a controlled execution the real
	// goroutines of a set-up history may contend for this mutex for real
	if !m.real.TryLock() {
		if vrt.Running() {
			panic("vrt: model/real divergence: Mutex.Lock would block")
		}
		m.real.Lock()
	}
	m.held = true
}

//go:norace
func (m *Mutex) TryLock() bool {
	if vrt.Running() {
		vrt.PointOp(&vrt.Op{Kind: "mutex.TryLock", Obj: unsafe.Pointer(m), Write: true})
	}
	if !m.real.TryLock() {
		return false
	}
	m.held = true
	return true
}

//go:norace
func (m *Mutex) Unlock() {
	if vrt.Running() {
		vrt.PointOp(&vrt.Op{Kind: "mutex.Unlock", Obj: unsafe.Pointer(m), Write: true})
	}
	if !m.held {
		panic("sync: unlock of unlocked mutex")
	}
	m.held = false
	m.real.Unlock()
}

// ------------------------------------------------------------------ RWMutex
//
// Faithful to Go's writer preference: Lock first takes the writer slot and
// announces itself (from then on new readers are held back), then waits for the
// active readers to drain.

type RWMutex struct {
	real      sync.RWMutex
	wHeld     bool // writer slot taken (announced or writing)
	writing   bool
	readers   int
	announced bool
}

//go:norace
func (m *RWMutex) slotFree() bool { return !m.wHeld }

//go:norace
func (m *RWMutex) drained() bool { return m.readers == 0 }

//go:norace
func (m *RWMutex) noWriter() bool { return !m.announced }

//go:norace
func (m *RWMutex) Lock() {
	id := unsafe.Pointer(m)
	if vrt.Running() {
		vrt.PointOp(&vrt.Op{Kind: "rwmutex.Lock.announce", Obj: id, Write: true, Ready: m.slotFree})
		m.wHeld, m.announced = true, true
		vrt.PointOp(&vrt.Op{Kind: "rwmutex.Lock.acquire", Obj: id, Write: true, Ready: m.drained})
		m.writing = true
		if !m.real.TryLock() {
			panic("vrt: model/real divergence: RWMutex.Lock would block")
		}
		return
	}
	m.real.Lock()
	m.wHeld, m.announced, m.writing = true, true, true
}

//go:norace
func (m *RWMutex) TryLock() bool {
	if vrt.Running() {
		vrt.PointOp(&vrt.Op{Kind: "rwmutex.TryLock", Obj: unsafe.Pointer(m), Write: true})
		if m.wHeld || m.readers > 0 {
			return false
		}
	}
	if !m.real.TryLock() {
		return false
	}
	m.wHeld, m.announced, m.writing = true, true, true
	return true
}

//go:norace
func (m *RWMutex) Unlock() {
	if vrt.Running() {
		vrt.PointOp(&vrt.Op{Kind: "rwmutex.Unlock", Obj: unsafe.Pointer(m), Write: true})
	}
	if !m.writing {
		panic("sync: Unlock of unlocked RWMutex")
	}
	m.wHeld, m.announced, m.writing = false, false, false
	m.real.Unlock()
}

//go:norace
func (m *RWMutex) RLock() {
	if vrt.Running() {
		vrt.PointOp(&vrt.Op{Kind: "rwmutex.RLock", Obj: unsafe.Pointer(m), Write: false, Ready: m.noWriter})
		m.readers++
		if !m.real.TryRLock() {
			panic("vrt: model/real divergence: RWMutex.RLock would block")
		}
		return
	}
	m.real.RLock()
	passMu.Lock() // several real goroutines may hold the read lock at once: the mirror is shared
	m.readers++
	passMu.Unlock()
}

//go:norace
func (m *RWMutex) TryRLock() bool {
	if vrt.Running() {
		vrt.PointOp(&vrt.Op{Kind: "rwmutex.TryRLock", Obj: unsafe.Pointer(m), Write: false})
		if m.announced {
			return false
		}
	}
	if !m.real.TryRLock() {
		return false
	}
	if vrt.Running() {
		m.readers++
	} else {
		passMu.Lock()
		m.readers++
		passMu.Unlock()
	}
	return true
}

//go:norace
func (m *RWMutex) RUnlock() {
	if vrt.Running() {
		vrt.PointOp(&vrt.Op{Kind: "rwmutex.RUnlock", Obj: unsafe.Pointer(m), Write: false})
	}
	if !vrt.Running() {
		passMu.Lock()
		defer passMu.Unlock()
	}
	if m.readers <= 0 {
		panic("sync: RUnlock of unlocked RWMutex")
	}
	m.readers--
	m.real.RUnlock()
}

// passMu guards the mirrors' shared counters outside a controlled execution (real concurrency).
var passMu sync.Mutex

type rlocker RWMutex

func (r *rlocker) Lock()   { (*RWMutex)(r).RLock() }
func (r *rlocker) Unlock() { (*RWMutex)(r).RUnlock() }

func (m *RWMutex) RLocker() Locker { return (*rlocker)(m) }

// ------------------------------------------------------------------ WaitGroup

type WaitGroup struct {
	real sync.WaitGroup
	n    int
}

//go:norace
func (w *WaitGroup) zero() bool { return w.n == 0 }

//go:norace
func (w *WaitGroup) Add(d int) {
	if vrt.Running() {
		vrt.PointOp(&vrt.Op{Kind: "waitgroup.Add", Obj: unsafe.Pointer(w), Write: false})
	}
	if !vrt.Running() {
		passMu.Lock() // real goroutines of a set-up history call Done concurrently
		defer passMu.Unlock()
	}
	if w.n+d < 0 {
		panic("sync: negative WaitGroup counter")
	}
	w.n += d
	w.real.Add(d)
}

func (w *WaitGroup) Done() { w.Add(-1) }

//go:norace
func (w *WaitGroup) Wait() {
	if vrt.Running() {
		vrt.PointOp(&vrt.Op{Kind: "waitgroup.Wait", Obj: unsafe.Pointer(w), Write: true, Ready: w.zero})
	}
	w.real.Wait()
}

// ------------------------------------------------------------------ Once
//
// The standard algorithm re-expressed over the shims, so that callers racing on
// one Once interleave at its real synchronisation points.

type Once struct {
	done uint32
	m    Mutex
}

func (o *Once) Do(f func()) {
	if vatomic.LoadUint32(&o.done) == 0 {
		o.doSlow(f)
	}
}

func (o *Once) doSlow(f func()) {
	o.m.Lock()
	defer o.m.Unlock()
	if o.done == 0 {
		defer vatomic.StoreUint32(&o.done, 1)
		f()
	}
}

// ------------------------------------------------------------------ Pool
//
// A multiset. Get is an environment choice among "each pooled item" and "miss"
// (then the real rule: call New if non-nil, else nil), which over-approximates
// per-P caches and GC clearing. Put -> Get of the same item is a happens-before
// edge, as in the Go memory model.

type Pool struct {
	New   func() any
	items [32]any // a fixed array: slice growth/copy is instrumented inside the runtime even for //go:norace callers
	n     int
	tok   int
}

//go:norace
func (p *Pool) Put(x any) {
	if x == nil {
		return
	}
	if vrt.Running() {
		vrt.PointOp(&vrt.Op{Kind: "pool.Put", Obj: unsafe.Pointer(p), Write: true})
	}
	vrt.RaceRelease(&p.tok)
	if p.n == len(p.items) {
		return // a pool may drop items at any time
	}
	p.items[p.n] = x
	p.n++
}

//go:norace
func (p *Pool) Get() any {
	if vrt.Running() {
		vrt.PointOp(&vrt.Op{Kind: "pool.Get", Obj: unsafe.Pointer(p), Write: true})
	}
	n := p.n
	k := n // miss
	if vrt.Running() {
		k = vrt.Choose(n + 1)
	} else if n > 0 {
		k = n - 1
	}
	if k < n {
		x := p.items[k]
		for i := k; i+1 < n; i++ {
			p.items[i] = p.items[i+1]
		}
		p.items[n-1] = nil
		p.n--
		vrt.RaceAcquire(&p.tok)
		return x
	}
	if f := p.newFunc(); f != nil {
		return f()
	}
	return nil
}

// newFunc reads the New field like the real Pool.Get does: a plain,
// race-detector-visible read.
func (p *Pool) newFunc() func() any { return p.New }

// ------------------------------------------------------------------ Cond (minimal)

type Cond struct {
	L       Locker
	waiters int
	signals int
	real    *sync.Cond // outside a controlled execution the real condition variable does the waiting
}

func NewCond(l Locker) *Cond { return &Cond{L: l} }

//go:norace
func (c *Cond) signalled() bool { return c.signals > 0 }

// realCond returns the real condition variable over the same Locker (pass-through mode).
func (c *Cond) realCond() *sync.Cond {
	passMu.Lock()
	defer passMu.Unlock()
	if c.real == nil {
		c.real = sync.NewCond(c.L)
	}
	return c.real
}

//go:norace
func (c *Cond) Wait() {
	if !vrt.Running() {
		c.realCond().Wait()
		return
	}
	c.waiters++
	c.L.Unlock()
	vrt.PointOp(&vrt.Op{Kind: "cond.Wait", Obj: unsafe.Pointer(c), Write: true, Ready: c.signalled})
	c.signals--
	c.waiters--
	c.L.Lock()
}

//go:norace
func (c *Cond) Signal() {
	if !vrt.Running() {
		c.realCond().Signal()
		return
	}
	vrt.PointOp(&vrt.Op{Kind: "cond.Signal", Obj: unsafe.Pointer(c), Write: true})
	if c.waiters > c.signals {
		c.signals++
	}
}

//go:norace
func (c *Cond) Broadcast() {
	if !vrt.Running() {
		c.realCond().Broadcast()
		return
	}
	vrt.PointOp(&vrt.Op{Kind: "cond.Broadcast", Obj: unsafe.Pointer(c), Write: true})
	c.signals = c.waiters
}

